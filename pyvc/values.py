"""Symbolic values of the executor."""
import z3


class Z:
    """A z3 term of sort Py / PyList / Bool / Int / String, plus provenance used by the frame
    layer: fresh in {'no','shallow','deep'} says whether the OBJECT denoted was allocated during
    the call being verified; origin is a human-readable provenance string."""
    __slots__ = ("t", "fresh", "origin", "known_cls", "fresh_fields")

    def __init__(self, t, fresh="no", origin=None, known_cls=None, fresh_fields=None):
        # fresh: 'no' | 'node' (object fresh, its child lists shared) | 'shallow' (object and its
        # child lists fresh) | 'deep'
        self.t = t
        self.fresh = fresh
        self.origin = origin
        self.known_cls = known_cls
        self.fresh_fields = fresh_fields or ()

    def sort(self):
        return self.t.sort()

    def __repr__(self):
        return f"Z({self.t})"


class Tup:
    """Executor-level tuple (multiple return values, unpacking)."""
    def __init__(self, items):
        self.items = list(items)

    def __repr__(self):
        return f"Tup{self.items}"


class CList:
    """Executor-level list with concrete spine (list literal of known length whose elements
    may be non-Py values, e.g. `[obj_type, call_method]`)."""
    def __init__(self, items):
        self.items = list(items)


class Ref:
    """Reference to a class / function / module / method known to the executor."""
    def __init__(self, kind, name, extra=None):
        self.kind = kind      # 'module' | 'astclass' | 'builtin' | 'func' | 'class' | 'type' | 'exc'
        self.name = name
        self.extra = extra

    def __repr__(self):
        return f"Ref({self.kind}:{self.name})"


class Obj:
    """Executor-level mutable record (self, helper instances)."""
    def __init__(self, cls, attrs=None, fresh="no"):
        self.cls = cls
        self.attrs = dict(attrs or {})
        self.fresh = fresh

    def __repr__(self):
        return f"Obj<{self.cls}>"


class Bound:
    def __init__(self, obj, name, via_super=False):
        self.obj = obj
        self.name = name
        self.via_super = via_super

    def __repr__(self):
        return f"Bound({self.obj}.{self.name})"


class Opaque:
    """A value the engine does not model (closures, generators…); any use is `unsupported`."""
    def __init__(self, what):
        self.what = what
