"""python3-vt -m pyvc.run [--json OUT] [--timeout MS] KEY...   (KEY = contract key or 'all' or a
property id such as C19): generate and discharge the obligations of the named functions."""
import argparse
import json
import sys
import time

from . import world, contracts, solve


def select(w, what):
    keys = []
    for x in what:
        if x == "all":
            keys.extend(w.contracts)
        elif x in w.contracts:
            keys.append(x)
        else:
            ks = [k for k, c in w.contracts.items() if x in c.get("properties", [])]
            if not ks:
                ks = [k for k in w.contracts if x in k]
            keys.extend(ks)
    out = []
    for k in keys:
        if k not in out and not w.contracts[k].get("abstract"):
            out.append(k)
    for x in what:
        for name, lem in getattr(w, "lemmas", {}).items():
            if x == "all" or x in lem.get("properties", []) or x == name or x == "lemma::" + name:
                if "lemma::" + name not in out:
                    out.append("lemma::" + name)
    return out


def lemma_result(w, name):
    from . import lemmas
    r = contracts.FnResult(f"lemma::{name}")
    r.obligations = lemmas.obligations(w, name)
    r.paths = len(r.obligations)
    r.returns = len(r.obligations)
    r.sha = "spec"
    return r


def run(w, keys, timeout_ms=solve.DEFAULT_TIMEOUT_MS, verbose=True):
    results = []
    for k in keys:
        t0 = time.time()
        if k.startswith("lemma::"):
            r = lemma_result(w, k[7:])
        else:
            r = contracts.verify_function(w, k)
        if getattr(r, "skipped", False):
            continue
        for m in w.contract_modules:
            h = getattr(m, "prepare", None)
            if h:
                h(w, r)
        for ob in r.obligations:
            solve.discharge(w, ob, timeout_ms)
        r.time = time.time() - t0
        results.append(r)
        if verbose:
            st = {}
            for ob in r.obligations:
                st[ob.status] = st.get(ob.status, 0) + 1
            print(f"{k}: paths={r.paths} returns={r.returns} raises={r.raises} "
                  f"obligations={len(r.obligations)} {st} "
                  f"{'UNSUPPORTED: ' + r.unsupported if r.unsupported else ''} [{r.time:.2f}s]")
            for ob in r.obligations:
                if ob.status != "proved":
                    print(f"   {ob.status.upper()} {ob.kind}:{ob.name} line {ob.line} {ob.note}")
    return results


def main():
    ap = argparse.ArgumentParser()
    ap.add_argument("keys", nargs="+")
    ap.add_argument("--timeout", type=int, default=solve.DEFAULT_TIMEOUT_MS)
    ap.add_argument("--json")
    ap.add_argument("--models", action="store_true")
    a = ap.parse_args()
    t0 = time.time()
    w = world.build()
    print(f"world built in {time.time()-t0:.2f}s; specs={len(w.specs)} contracts={len(w.contracts)}"
          f" spec_errors={w.spec_errors}")
    keys = select(w, a.keys)
    res = run(w, keys, a.timeout)
    if a.models:
        for r in res:
            for ob in r.obligations:
                if ob.status == "refuted" and ob.model is not None:
                    print("MODEL", ob.ident(), solve.model_bindings(w, ob, {"node", "seq"}))


if __name__ == "__main__":
    main()
