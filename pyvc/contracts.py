"""Contract registry, modular call rule, visitor (NodeTransformer / NodeVisitor) library model,
and the per-function verification driver."""
import ast
import z3

from .values import Z, Tup, CList, Ref, Obj, Bound, Opaque
from . import symex, extract
from .symex import Unsupported, RaiseSig, ReturnSig


def install(w):
    w.full_fields = {}
    import json, subprocess, os
    from . import sorts as sorts_mod
    out = subprocess.run([sorts_mod.VENV_PY, os.path.join(sorts_mod.HERE, "dump_grammar.py")],
                         check=True, capture_output=True, text=True).stdout
    g = json.loads(out)["classes"]
    for name, c in g.items():
        w.full_fields[name] = [f[0] for f in c["fields"]]
    w.method_key = lambda cls, name: f"{cls}.{name}"
    w.nested_class_key = lambda fn_key, name: f"{fn_key}.{name}"
    w.visitor_call = visitor_call
    w.visit_list = visit_list
    w.has_method = lambda cls, name: name in method_names(w, cls)
    w.method_names = lambda cls: method_names(w, cls)


def method_names(w, cls_key):
    """Names of methods defined in the REAL source of the class and of its repo base classes
    (ast.NodeTransformer / NodeVisitor contribute visit, generic_visit, visit_Constant)."""
    cc = w.classes.get(cls_key)
    names = []
    seen = set()
    k = cls_key
    while k is not None:
        c = w.classes.get(k)
        try:
            node, _, _, _ = extract.find(k)
        except extract.ExtractError:
            break
        for s in node.body:
            if isinstance(s, ast.FunctionDef) and s.name not in seen:
                seen.add(s.name)
                names.append(s.name)
        k = c.get("base_key") if c else None
    for n in ("visit", "generic_visit", "visit_Constant"):
        if n not in seen:
            names.append(n)
    return names


def _defines(cls_key, name):
    """Does the class body in the CURRENT source define this method itself?"""
    try:
        node, _, _, _ = extract.find(cls_key)
    except extract.ExtractError:
        return False
    return any(isinstance(s, ast.FunctionDef) and s.name == name for s in node.body)


def class_aliases(cls_key):
    """Class-level aliases  visit_X = some_method  in the CURRENT source of the class."""
    try:
        node, _, _, _ = extract.find(cls_key)
    except extract.ExtractError:
        return {}
    out = {}
    for s in node.body:
        if isinstance(s, ast.Assign) and len(s.targets) == 1 and isinstance(s.targets[0], ast.Name) \
                and isinstance(s.value, ast.Name):
            out[s.targets[0].id] = s.value.id
    return out


def class_dispatch_obligations(w, key, c, res):
    """For a visitor specified by a hypothesis: ast.NodeVisitor.visit sends a node of class X to
    visit_X if the class has one and to generic_visit otherwise.  (1) every contract registered as
    an alias (visit_X = method) must find that alias in the current class body; (2) for every node
    class X WITHOUT a visit_X, the precondition of generic_visit must follow from the hypothesis'
    precondition - a binder class that loses its visit method is then noticed."""
    cls_key = c["self"]
    cc = w.classes[cls_key]
    aliases = class_aliases(cls_key)
    for k2, c2 in w.contracts.items():
        if c2.get("self") == cls_key and c2.get("alias_of"):
            name = k2.split(".")[-1]
            ok = aliases.get(name) == c2["alias_of"]
            ob = symex.Obligation(key, "post", f"alias:{name}-is-{c2['alias_of']}", [],
                                  z3.BoolVal(ok), None,
                                  note=f"the class body binds {name} to {c2['alias_of']}")
            ob.trivial = ok
            res.obligations.append(ob)
    fnode, _, _, tree = extract.find(cls_key)
    defined = set(method_names(w, cls_key)) | set(aliases)
    for X in w.S.node_classes:
        if f"visit_{X}" in defined:
            continue
        ctx = symex.Ctx(w, [], [[]])
        ex = symex.Exec(w, key, fnode, c, tree)
        ex.ctx = ctx
        node = sym_for(ex, "node", "py")
        slf = make_obj(ex, cls_key)
        ex.assume(w.S.rec(X)(node.t))
        ex.learn(w.S.rec(X)(node.t))
        env = {"node": node, "self": slf}
        for r in cc.get("visit_requires", []):
            ex.assume(ex.to_bool(eval_spec_expr(ex, r, env)))
        for i, r in enumerate(cc.get("generic_requires", [])):
            ex.oblige("pre", f"dispatch[{X}]:generic_requires[{i}]",
                      ex.to_bool(eval_spec_expr(ex, r, env)), None,
                      note=f"a {X} node has no visit_{X}: it goes to generic_visit, which needs {r}")
        res.obligations.extend(ctx.obligations)
    res.paths = res.returns = 1


def register(w, c):
    key = c["key"]
    if "cases" in c:
        # the case analysis used at call sites must itself be proved of the callee
        ens = list(c.get("ensures", []))
        for cond, term in c["cases"]:
            t = f"implies({cond}, same(result, {term}))"
            if t not in ens:
                ens.append(t)
        ens.append(" or ".join(f"({cond})" for cond, _ in c["cases"]))
        c["ensures"] = ens
    w.contracts[key] = c
    simple = key.split("::")[1]
    if "." not in simple:
        w.by_name[simple] = key
    for alias in c.get("aliases", []):
        w.by_name[alias] = key


def register_class(w, c):
    w.classes[c["key"]] = c
    if c.get("with_model") == "noop":
        # a context manager whose __enter__/__exit__ have no effect visible in the contracts
        w.with_models[c["key"]] = (lambda ex, mgr, line: None, lambda ex, mgr, line: None)
    w.class_by_name[c["key"].split("::")[1].split(".")[-1]] = c["key"]


# ---------------------------------------------------------------------------------------
def sym_for(ex, name, sort, origin=None):
    S = ex.S
    if sort == "py" or sort == "node":
        return Z(ex.fresh(name, S.Py), origin=origin or f"parameter {name}")
    if sort == "list":
        return Z(ex.fresh(name, S.PyList), origin=origin or f"parameter {name}")
    if sort == "str":
        return Z(ex.fresh(name, z3.StringSort()))
    if sort == "int":
        return Z(ex.fresh(name, z3.IntSort()))
    if sort == "bool":
        return Z(ex.fresh(name, z3.BoolSort()))
    if sort == "none":
        return Z(ex.P.PNone)
    if sort.startswith("tuple("):
        inner = sort[6:-1].split(",")
        return Tup([sym_for(ex, f"{name}.{i}", s.strip(), origin) for i, s in enumerate(inner)])
    if sort.startswith("obj:"):
        return make_obj(ex, sort[4:], name)
    if sort == "dict":
        m = ex.new_map()
        m.attrs["dom"] = ex.fresh(name + ".dom", z3.ArraySort(S.Py, z3.BoolSort()))
        m.attrs["val"] = ex.fresh(name + ".val", z3.ArraySort(S.Py, S.Py))
        m.attrs["n"] = ex.fresh(name + ".n", z3.IntSort())
        m.fresh = "no"
        return m
    raise Unsupported(f"contract sort {sort}")


def make_obj(ex, cls_key, name="self", assume_invariant=True):
    cc = ex.w.classes.get(cls_key, {})
    attrs = {}
    for a, s in cc.get("state", {}).items():
        attrs[a] = sym_for(ex, f"{name}.{a}", s, origin=f"{name}.{a}")
    o = Obj(cls_key, attrs, fresh="no")
    if assume_invariant:
        # class invariant: holds of every instance met from outside (the class's own methods are
        # the only writers of its state and each re-establishes it as a postcondition)
        for inv in cc.get("invariant", []):
            ex.assume(ex.to_bool(eval_spec_expr(ex, inv, {"self": o})))
    return o


def assume_hint(ex, text, env, line, where):
    """A hint in a contract is either an INSTANCE OF A LEMMA that is registered (and therefore
    proved by induction in engine P on the same run): assumed; or any other formula: then it is an
    intermediate assertion - proved here with what is known, and only then used."""
    tree = ast.parse(text.strip(), mode="eval").body
    lemma_preds = {l["pred"] for l in getattr(ex.w, "lemmas", {}).values()}
    # partial operations inside a hint create no obligations of their own (a lemma instance is a
    # total formula over spec functions; an assertion is proved as a whole)
    ex.assuming = getattr(ex, "assuming", 0) + 1
    try:
        g = ex.to_bool(ex.ev(tree, env))
    finally:
        ex.assuming -= 1
    def lemma_instance(t):
        # lem(...), implies(<guard>, <lemma instance>), <lemma instance> and <lemma instance>
        if isinstance(t, ast.Call) and isinstance(t.func, ast.Name):
            if t.func.id in lemma_preds:
                return True
            if t.func.id == "implies" and len(t.args) == 2:
                return lemma_instance(t.args[1])
        if isinstance(t, ast.BoolOp) and isinstance(t.op, ast.And):
            return all(lemma_instance(v) for v in t.values)
        return False
    is_lemma = lemma_instance(tree)
    if not is_lemma:
        ex.oblige("inv", f"{where}:assert", g, line, note=text)
    ex.assume(g)


def eval_spec_expr(ex, text, env):
    """Evaluate a contract expression (Python expression text) with the executor."""
    tree = ast.parse(text.strip(), mode="eval").body
    return ex.ev(tree, env)


def snapshot(v):
    if isinstance(v, Obj):
        o = Obj(v.cls, {k: snapshot(x) for k, x in v.attrs.items()}, v.fresh)
        return o
    return v


def contract_env(ex, c, bound, self_obj, old_self, result=None):
    env = dict(bound)
    if self_obj is not None:
        env["self"] = self_obj
    if result is not None:
        env["result"] = result
    env["__old__"] = {"self": old_self, **{k: v for k, v in bound.items()}}
    for k, v in c.get("closure", {}).items():
        pass
    return env


def bind_args(ex, fnode, c, args, kw, is_method):
    """Bind call-site arguments to the real signature's parameters."""
    params = [a.arg for a in fnode.args.args]
    if is_method:
        params = params[1:]
    defaults = fnode.args.defaults
    ndef = len(defaults)
    bound = {}
    if len(args) > len(params):
        raise Unsupported(f"{c['key']}: too many positional arguments at call site")
    for p, a in zip(params, args):
        bound[p] = a
    for k, a in kw.items():
        if k not in params:
            raise Unsupported(f"{c['key']}: unknown keyword {k}")
        bound[k] = a
    all_params = [a.arg for a in fnode.args.args]
    for i, p in enumerate(all_params):
        if p in bound or (is_method and i == 0):
            continue
        di = i - (len(all_params) - ndef)
        if di >= 0:
            d = defaults[di]
            bound[p] = symex.default_value(ex, d)
        else:
            raise Unsupported(f"{c['key']}: missing argument {p}")
    return bound


def apply_contract(ex, key, self_obj, args, kw, line):
    """The modular call rule: check requires, havoc, assume ensures."""
    w = ex.w
    c = w.contracts.get(key)
    if c is None:
        raise Unsupported(f"call to {key}: no contract")
    src_key = c.get("source", key)
    fnode, _, _, _ = extract.find(src_key)
    bound = bind_args(ex, fnode, c, args, kw, self_obj is not None or c.get("method", False))
    if isinstance(self_obj, symex.Obj) and getattr(self_obj, "is_super", False):
        self_obj = self_obj.real
    old_self = snapshot(self_obj) if self_obj is not None else None
    env = contract_env(ex, c, bound, self_obj, old_self)
    name = key.split("::")[1]
    # lemma instances (or assertions to be proved) the CALLER's contract supplies just before this
    # call, written over the callee's parameter names
    for text in ex.contract.get("call_hints", {}).get(name.split(".")[-1], []):
        assume_hint(ex, text, env, line, f"call:{name.split('.')[-1]}")
    for i, r in enumerate(c.get("requires", [])):
        g = ex.to_bool(eval_spec_expr(ex, r, env))
        ex.oblige("pre", f"{name}:requires[{i}]", g, line, note=r)
    ghost = {}
    for gname, gexpr in c.get("ghost", {}).items():
        ghost[gname] = eval_spec_expr(ex, gexpr, {**env, **ghost})
    env.update(ghost)
    # frame: arguments the callee may mutate must be fresh here
    for p in c.get("mutates", []):
        v = bound.get(p)
        if isinstance(v, Z):
            ex.frame_write(v, f"passed to {name} which mutates `{p}`", line)
    # exceptional exits allowed by the callee's contract propagate to the caller
    for exc, cond in c.get("raises", {}).items():
        cz = z3.BoolVal(True) if cond in ("any", True) else \
            ex.to_bool(eval_spec_expr(ex, cond, env))
        must = c.get("raises_iff", {}).get(exc)
        if ex.feasible(cz):
            k = ex.ctx.choose(2, [True, True])
            if k == 1:
                ex.assume(cz)
                raise RaiseSig(exc, line)
            if must:
                ex.assume(z3.Not(ex.to_bool(eval_spec_expr(ex, must, env))))
    ret = c.get("ret", "py")
    result = sym_for(ex, f"ret_{name.split('.')[-1]}", ret, origin=f"result of {name}")
    fr = c.get("fresh", "no")
    set_fresh(result, fr)
    # state effects on self
    if self_obj is not None:
        # fields of self named in the callee's frame have an unknown new value, constrained only
        # by the callee's postconditions (unless given exactly by an effect clause)
        from .loops import havoc_like
        for m_ in c.get("modifies", []):
            if m_.startswith("self.") and isinstance(self_obj, Obj):
                a_ = m_[5:]
                if a_ in self_obj.attrs and a_ not in c.get("self_effects", {}) \
                        and a_ not in c.get("self_attr_is", {}) and not c.get("no_havoc"):
                    old_v = self_obj.attrs[a_]
                    nv = havoc_like(ex, old_v, f"{a_}'")
                    if isinstance(nv, Z):
                        nv.origin = old_v.origin if isinstance(old_v, Z) else nv.origin
                    self_obj.attrs[a_] = nv
        for attr, expr in c.get("self_effects", {}).items():
            self_obj.attrs[attr] = eval_spec_expr(ex, expr, env)
        for attr, pname in c.get("self_attr_is", {}).items():
            self_obj.attrs[attr] = bound[pname]
    if isinstance(result, Obj):
        for attr, pname in c.get("result_attr_is", {}).items():
            result.attrs[attr] = bound[pname]
    env = contract_env(ex, c, bound, self_obj, old_self, result)
    env.update(ghost)
    # module variables in the callee's frame: unknown new value, `old_glob` in its postconditions
    # means the value just before this call
    gl_pre = {}
    for m_ in c.get("modifies", []):
        if m_.startswith("global."):
            gn = m_[7:]
            cm = ex.contract.get("modifies", [])
            if "*" not in cm and m_ not in cm:
                ex.oblige_trivial("frame", f"write:{m_} (through {name})", False, line,
                                  note=f"{name} writes the module variable {gn}, which is not in "
                                       "this function's frame")
            gl_pre[gn] = ex.global_value(gn, {})
            ex.ctx.globals_now[gn] = Z(ex.fresh(f"global.{gn}'", gl_pre[gn].t.sort()))
    saved_ov = getattr(ex.ctx, "globals_old_override", None)
    ex.ctx.globals_old_override = gl_pre
    ex.assuming = getattr(ex, "assuming", 0) + 1
    try:
        for e_ in c.get("ensures", []):
            ex.assume(ex.to_bool(eval_spec_expr(ex, e_, env)))
    finally:
        ex.assuming -= 1
        ex.ctx.globals_old_override = saved_ov
    if "result_is" in c:
        v = eval_spec_expr(ex, c["result_is"], env)
        set_fresh(v, fr)
        return v
    if "cases" in c:
        # the postcondition as an explicit case analysis (each case is one of the proved ensures
        # clauses `implies(cond, same(result, term))`): the caller's path forks on the condition
        # and continues with the concrete term
        for cond, term in c["cases"]:
            if ex.branch(ex.to_bool(eval_spec_expr(ex, cond, env))):
                v = eval_spec_expr(ex, term, env)
                if isinstance(v, Z):
                    ex.assume(ex.to_py(result) == ex.to_py(v)) if False else None
                set_fresh(v, "no")
                return v
        raise symex.PathPruned()
    return result


def set_fresh(v, fr):
    if isinstance(v, Z):
        v.fresh = fr
    elif isinstance(v, Tup):
        for i in v.items:
            set_fresh(i, fr)


# ---------------------------------------------------------------------------------------
# Visitor model (TRUSTED: ast.NodeVisitor.visit / generic_visit, ast.NodeTransformer.generic_visit)
def visitor_call(ex, obj, cc, name, args, kw, line, via_super, cls_override):
    w = ex.w
    if getattr(obj, "is_super", False):
        via_super = True
        obj = obj.real
    if name == "visit" and len(args) == 1:
        return visit_one(ex, obj, cc, args[0], line)
    if name == "generic_visit" and len(args) == 1:
        own = _defines(cc["key"], "generic_visit")
        if own and not via_super and cls_override is None:
            k = f"{cc['key']}.generic_visit"
            if k in w.contracts:
                return apply_contract(ex, k, obj, args, kw, line)
            return NotImplemented
        return generic_visit(ex, obj, cc, args[0], line)
    if via_super or cls_override is not None:
        # base-class method: contract registered under <class>.super.<name>
        k = f"{cc['key']}.super.{name}"
        if k in w.contracts:
            return apply_contract(ex, k, obj, args, kw, line)
        # NodeVisitor/NodeTransformer have no visit_X of their own -> generic_visit
        if name.startswith("visit_") and cc.get("base") in ("NodeTransformer", "NodeVisitor"):
            return generic_visit(ex, obj, cc, args[0], line)
        raise Unsupported(f"super().{name} in {cc['key']}: no contract")
    return NotImplemented


def visit_one(ex, obj, cc, x, line):
    """self.visit(x): the class-level visitor contract (induction hypothesis)."""
    S = ex.S
    t = ex.to_py(x)
    env = dict(ex.closure_env)
    env.update(getattr(obj, "closure_env", None) or {})
    env.update({"node": Z(t), "self": obj, "__old__": {"self": snapshot(obj), "node": Z(t)}})
    for i, r in enumerate(cc.get("visit_requires", [])):
        ex.oblige("pre", f"visit:requires[{i}]", ex.to_bool(eval_spec_expr(ex, r, env)), line,
                  note=r)
    for exc, cond in cc.get("visit_raises", {}).items():
        cz = z3.BoolVal(True) if cond in ("any", True) else ex.to_bool(eval_spec_expr(ex, cond, env))
        if ex.feasible(cz):
            if ex.ctx.choose(2, [True, True]) == 1:
                ex.assume(cz)
                raise RaiseSig(exc, line)
    if cc.get("base") == "NodeTransformer" and not cc.get("non_mutating") and isinstance(x, Z):
        ex.frame_write(x, "self.visit(x) of a NodeTransformer (in-place generic_visit)", line,
                       need_lists=True)
    if "visit_fn" in cc:
        sf = ex.w.specs[cc["visit_fn"]]
        extra = [eval_spec_expr(ex, a, env) for a in cc.get("visit_fn_args", [])]
        r = sf.apply(ex, [Z(t)] + extra)
    elif cc.get("base") == "NodeVisitor" and not cc.get("visit_returns"):
        r = Z(ex.P.PNone)
    else:
        r = Z(ex.fresh("visited", S.Py), origin="result of self.visit")
    for attr, expr in cc.get("visit_effects", {}).items():
        obj.attrs[attr] = eval_spec_expr(ex, expr, env)
    _havoc_visit_globals(ex, cc, line)
    env["result"] = r
    ex.assuming = getattr(ex, "assuming", 0) + 1
    try:
        for e_ in cc.get("visit_ensures", []):
            ex.assume(ex.to_bool(eval_spec_expr(ex, e_, env)))
    finally:
        ex.assuming -= 1
    r.fresh = "no"
    return r


def _havoc_visit_globals(ex, cc, line):
    """Module variables a visit may write ("visit_globals" of the class): unknown afterwards, and
    they must be in the frame of the function that makes the visit."""
    for gn in cc.get("visit_globals", []):
        cm = ex.contract.get("modifies", [])
        if "*" not in cm and f"global.{gn}" not in cm:
            ex.oblige_trivial("frame", f"write:global.{gn} (through self.visit)", False, line,
                              note=f"a visit may write the module variable {gn}")
        old_v = ex.global_value(gn, {})
        ex.ctx.globals_now[gn] = Z(ex.fresh(f"global.{gn}'", old_v.t.sort()))


def visit_list(ex, obj, cc, seq, line):
    """[self.visit(a) for a in seq] for a functional visitor."""
    if "visit_fn" not in cc and cc.get("visit_list_ensures") is not None:
        # a visitor given by a hypothesis only (no spec function): the visited list is a fresh
        # list constrained by the list form of that hypothesis
        envl = dict(ex.closure_env)
        envl.update({"nodes": seq, "self": obj})
        for i, r in enumerate(cc.get("visit_requires_list", [])):
            ex.oblige("pre", f"visit(list):requires[{i}]",
                      ex.to_bool(eval_spec_expr(ex, r, envl)), line, note=r)
        for exc, cond in cc.get("visit_raises", {}).items():
            if ex.ctx.choose(2, [True, True]) == 1:
                raise RaiseSig(exc, line)
        res = Z(ex.fresh("visited_list", ex.S.PyList), fresh="shallow",
                origin="[self.visit(a) for a in …]")
        envl["result"] = res
        ex.assuming = getattr(ex, "assuming", 0) + 1
        try:
            for e_ in cc["visit_list_ensures"]:
                ex.assume(ex.to_bool(eval_spec_expr(ex, e_, envl)))
        finally:
            ex.assuming -= 1
        return res
    if "visit_fn" not in cc or cc.get("visit_effects"):
        raise Unsupported("comprehension of self.visit for a non-functional/stateful visitor")
    env = dict(ex.closure_env)
    env.update(getattr(obj, "closure_env", None) or {})
    env.update({"node": Z(ex.P.PNone), "self": obj, "__old__": {"self": obj}})
    sf = ex.w.specs[cc["visit_fn"]]
    extra = []
    for a in cc.get("visit_fn_args", []):
        v = eval_spec_expr(ex, a, env)
        extra.append(v.t if isinstance(v, Z) and v.t.sort() != ex.S.Py else ex.to_py(v))
    if cc.get("visit_requires_list"):
        envl = dict(ex.closure_env)
        envl.update({"nodes": seq, "self": obj})
        for i, r in enumerate(cc["visit_requires_list"]):
            ex.oblige("pre", f"visit(list):requires[{i}]",
                      ex.to_bool(eval_spec_expr(ex, r, envl)), line, note=r)
    elif cc.get("visit_requires"):
        raise Unsupported("list visit with per-node requires but no visit_requires_list")
    if cc.get("base") == "NodeTransformer" and cc.get("heap_mutating", True):
        ex.frame_write(seq, "self.visit over a list (in-place)", line) if False else None
    return Z(sf.list_lift()(seq.t, *extra), fresh="shallow", origin="[self.visit(a) for a in …]")


def generic_visit(ex, obj, cc, x, line):
    """Library model.  NodeTransformer.generic_visit(node): every node-valued child c is replaced
    IN PLACE by self.visit(c) (children in _fields order), the same node object is returned.
    NodeVisitor.generic_visit(node): visits every child, returns None."""
    S = ex.S
    t = ex.to_py(x)
    env = dict(ex.closure_env)
    env.update(getattr(obj, "closure_env", None) or {})
    env.update({"node": Z(t), "self": obj, "__old__": {"self": snapshot(obj), "node": Z(t)}})
    base = cc.get("base")
    if cc.get("generic_requires") is not None:
        for i, r in enumerate(cc["generic_requires"]):
            ex.oblige("pre", f"generic_visit:requires[{i}]",
                      ex.to_bool(eval_spec_expr(ex, r, env)), line, note=r)
    if cc.get("generic_raises") is not None:
        # raise condition of generic_visit stated over the node (some child raises)
        for exc, cond in cc["generic_raises"].items():
            cz = ex.to_bool(eval_spec_expr(ex, cond, env))
            if ex.feasible(cz):
                if ex.ctx.choose(2, [True, True]) == 1:
                    ex.assume(cz)
                    raise RaiseSig(exc, line)
    else:
        for exc, cond in cc.get("visit_raises", {}).items():
            if ex.ctx.choose(2, [True, True]) == 1:
                raise RaiseSig(exc, line)
    if base == "NodeTransformer":
        if isinstance(x, Z):
            ex.frame_write(x, "NodeTransformer.generic_visit (stores visited children in place)",
                           line, need_lists=True)
        if "visit_fn" in cc:
            sf = ex.w.specs[cc["visit_fn"]]
            extra = []
            for a in cc.get("visit_fn_args", []):
                v = eval_spec_expr(ex, a, env)
                extra.append(v.t if isinstance(v, Z) and v.t.sort() != S.Py else ex.to_py(v))
            r = Z(sf.child_op("mapc")(t, *extra), fresh=x.fresh if isinstance(x, Z) else "no",
                  origin="generic_visit result (same node)",
                  known_cls=x.known_cls if isinstance(x, Z) else None)
        else:
            r = Z(ex.fresh("gvisited", S.Py), origin="generic_visit result")
        for attr, expr in cc.get("generic_effects", {}).items():
            obj.attrs[attr] = eval_spec_expr(ex, expr, env)
        _havoc_visit_globals(ex, cc, line)
        env["result"] = r
        # "generic_ensures_here": facts of the library's generic_visit that only this method needs
        # (kept out of the class-wide list so that the other methods' queries stay as they were)
        for e_ in cc.get("generic_ensures", []) + ex.contract.get("generic_ensures_here", []):
            ex.assume(ex.to_bool(eval_spec_expr(ex, e_, env)))
        ex._inplace_generic = True
        return r
    if base == "NodeVisitor":
        for attr, expr in cc.get("generic_effects", {}).items():
            obj.attrs[attr] = eval_spec_expr(ex, expr, env)
        r = Z(ex.P.PNone)
        env["result"] = r
        for e_ in cc.get("generic_ensures", []):
            ex.assume(ex.to_bool(eval_spec_expr(ex, e_, env)))
        return r
    raise Unsupported(f"generic_visit on class with base {base}")


# ---------------------------------------------------------------------------------------
class FnResult:
    def __init__(self, key):
        self.key = key
        self.obligations = []
        self.paths = 0
        self.returns = 0
        self.raises = {}
        self.unsupported = None
        self.sha = None
        self.notes = []
        self.dropped = []
        self.skipped = False


def verify_function(w, key):
    """Generate all obligations for the function `key` from the CURRENT source."""
    c = w.contracts[key]
    res = FnResult(key)
    if c.get("class_dispatch"):
        try:
            _, _, res.sha, _ = extract.find(c["self"])
            class_dispatch_obligations(w, key, c, res)
        except (extract.ExtractError, Unsupported) as e:
            res.unsupported = str(e)
        return res
    src_key = c.get("source", key)
    try:
        fnode, seg, sha, tree = extract.find(src_key)
    except extract.ExtractError as e:
        if c.get("optional"):
            res.skipped = True
            return res
        res.unsupported = str(e)
        return res
    res.sha = sha
    res.dropped = dropped_constructs(fnode)
    is_method = bool(c.get("self"))
    try:
        symex.check_decorators(fnode)
        dispatch_obligations(w, key, c, fnode, tree, res)
    except Unsupported as u:
        res.unsupported = f"dispatch: {u}"
        return res
    worklist = [[]]
    seen_traces = 0
    max_paths = c.get("max_paths", 400)
    while worklist:
        trace = worklist.pop()
        seen_traces += 1
        if seen_traces > max_paths:
            res.unsupported = f"path explosion (> {max_paths} paths)"
            break
        ctx = symex.Ctx(w, trace, worklist)
        ex = symex.Exec(w, key, fnode, c, tree)
        ex.ctx = ctx
        import itertools
        w._fresh = itertools.count()      # same symbol names on every replay: terms are shared
        try:
            run_one_path(ex, c, fnode, is_method, res)
        except Unsupported as u:
            res.unsupported = f"{u}"
            res.obligations.extend(ctx.obligations)
            break
        except symex.PathPruned as pp:
            # a path that ends at the bottom of a loop body (invariant re-established) is a
            # complete path: its obligations count; an infeasible path has none worth keeping
            # Obligations recorded before a path was abandoned are kept in every case: a path
            # typically becomes infeasible BECAUSE a failed obligation was assumed to continue
            # (e.g. an index that is out of range on every input).
            from .loops import LoopBodyEnd
            if isinstance(pp, LoopBodyEnd):
                res.paths += 1
            res.obligations.extend(ctx.obligations)
            continue
        res.paths += 1
        res.obligations.extend(ctx.obligations)
        res.notes.extend(ctx.notes)
    # de-duplicate identical obligations produced on replayed prefixes
    for ob in res.obligations:
        if "fuel" in c:
            ob.fuel = c["fuel"]
        if "facts_fuel" in c:
            ob.facts_fuel = c["facts_fuel"]
            ob.fuel = max(getattr(ob, "fuel", 3), c["facts_fuel"])
        if "allclass" in c:
            ob.allclass = c["allclass"]
    uniq = {}
    for ob in res.obligations:
        k = (ob.kind, ob.name, ob.line, tuple(x.get_id() for x in ob.pc), ob.goal.get_id())
        uniq.setdefault(k, ob)
    res.obligations = list(uniq.values())
    return res


def _visitor_hypothesis(w, c):
    """(class contract, name of the node parameter) if `c` is a visit_<NodeClass> method of a
    visitor specified by a hypothesis (visit_ensures, no visit_fn)."""
    if not c.get("self") or c.get("trusted"):
        return None
    cc = w.classes.get(c["self"])
    name = c["key"].split(".")[-1]
    if cc is None or "visit_fn" in cc or not cc.get("visit_ensures"):
        return None
    if not name.startswith("visit_") or name[6:] not in w.S.classes or ".super." in c["key"]:
        return None
    params = list(c.get("params", {}).keys())
    return (cc, params[0]) if params else None


def dispatcher_obligations(w, key, c, res):
    """Every call self.visit(x) / self.generic_visit(x) in a visitor class is read as the LIBRARY's
    dispatcher (to visit_<Class>, else generic_visit over the fields) unless a contract is
    registered for the class's own definition. A `visit` or `generic_visit` that the current
    source of the class (or of a repo base class) defines WITHOUT such a contract means the
    verified text is not the code that runs: that is an obligation, not an assumption (seed C19_h
    added a memoising `visit` to a class whose methods were all proved against the library's)."""
    cls_key = c.get("self")
    cc = w.classes.get(cls_key) if cls_key else None
    if cc is None or c.get("trusted"):
        return
    if not (cc.get("visit_ensures") or cc.get("visit_fn") or cc.get("base") in
            ("NodeTransformer", "NodeVisitor")):
        return
    k = cls_key
    seen = set()
    while k is not None and k not in seen:
        seen.add(k)
        for m in ("visit", "generic_visit"):
            if _defines(k, m):
                ok = f"{k}.{m}" in w.contracts or f"{cls_key}.{m}" in w.contracts
                ob = symex.Obligation(key, "pre", f"dispatcher:{k.split('::')[1]}.{m}-under-contract",
                                      [], z3.BoolVal(ok), None,
                                      note=f"{k.split('::')[1]} defines its own {m}(): calls of "
                                      f"self.{m} are only understood through a contract for it")
                ob.trivial = ok
                res.obligations.append(ob)
        k = (w.classes.get(k) or {}).get("base_key")
    if not any(o.name.startswith("dispatcher:") for o in res.obligations):
        ob = symex.Obligation(key, "pre", "dispatcher:library-visit", [], z3.BoolVal(True), None,
                              note="the class and its repo bases define neither visit nor "
                              "generic_visit: the library's dispatcher runs")
        ob.trivial = True
        res.obligations.append(ob)


def dispatch_obligations(w, key, c, fnode, tree, res):
    """ast.NodeVisitor.visit dispatches a node of class X to visit_X: under the hypothesis'
    precondition and isinstance(node, X) the method's own requires must hold."""
    dispatcher_obligations(w, key, c, res)
    hyp = _visitor_hypothesis(w, c)
    if hyp is None:
        return
    cc, pname = hyp
    cls = c["key"].split(".")[-1][6:]
    ctx = symex.Ctx(w, [], [[]])
    ex = symex.Exec(w, key, fnode, c, tree)
    ex.ctx = ctx
    node = sym_for(ex, pname, "py")
    slf = make_obj(ex, c["self"])
    ex.assume(w.S.rec(cls)(node.t))
    ex.learn(w.S.rec(cls)(node.t))
    env = {"node": node, "self": slf, pname: node}
    for r in cc.get("visit_requires", []):
        ex.assume(ex.to_bool(eval_spec_expr(ex, r, env)))
    for i, r in enumerate(c.get("requires", [])):
        ex.oblige("pre", f"dispatch:requires[{i}]", ex.to_bool(eval_spec_expr(ex, r, env)),
                  getattr(fnode, "lineno", None),
                  note=f"visit() dispatches every {cls} here: {r}")
    res.obligations.extend(ctx.obligations)


def run_one_path(ex, c, fnode, is_method, res):
    w = ex.w
    env = {}
    params = [a.arg for a in fnode.args.args]
    psorts = c.get("params", {})
    self_obj = None
    if is_method:
        self_obj = make_obj(ex, c["self"], "self",
                            assume_invariant=not c.get("no_invariant_on_entry"))
        env[params[0]] = self_obj
        params = params[1:]
    for p in params:
        env[p] = sym_for(ex, p, psorts.get(p, "py"))
    for p, s in c.get("closure", {}).items():
        env[p] = sym_for(ex, p, s) if isinstance(s, str) else ex.lift_const(s["const"])
        ex.closure_env[p] = env[p]
    old_self = snapshot(self_obj)
    bound = {p: env[p] for p in params}
    bound.update({p: env[p] for p in c.get("closure", {})})
    cenv = contract_env(ex, c, bound, self_obj, old_self)
    for r in c.get("requires", []):
        ex.assume(ex.to_bool(eval_spec_expr(ex, r, cenv)))
    # ghost definitions (may rely on the requires clause; requires cannot mention ghosts)
    for name, text in c.get("ghost", {}).items():
        env[name] = eval_spec_expr(ex, text, dict(cenv, **env))
    bound.update({p: env[p] for p in c.get("ghost", {})})
    cenv = contract_env(ex, c, bound, self_obj, old_self)
    for r in c.get("lemma_instances", []):
        assume_hint(ex, r, cenv, getattr(fnode, "lineno", None), "entry")
    if not ex.feasible(z3.BoolVal(True)):
        raise symex.PathPruned()
    line_end = getattr(fnode, "end_lineno", None)
    try:
        ex.run_block(fnode.body, env)
        result = Z(ex.P.PNone)
    except ReturnSig as r:
        result = r.value
    except RaiseSig as r:
        res.raises[r.exc] = res.raises.get(r.exc, 0) + 1
        allowed = c.get("raises", {})
        if r.exc in allowed:
            cond = allowed[r.exc]
            if cond not in ("any", True):
                cenv2 = contract_env(ex, c, bound, self_obj, old_self)
                ex.oblige("raises", f"{r.exc}:only-when", ex.to_bool(
                    eval_spec_expr(ex, cond, cenv2)), r.line, note=cond)
        else:
            kind = "safety"
            ex.oblige(kind, f"{r.exc}:unexpected-exception", z3.BoolVal(False), r.line,
                      note=f"{r.exc} is not in the contract's raises clause")
        return
    res.returns += 1
    # must-raise clauses: reaching a normal return while a must-raise condition holds
    for exc, cond in c.get("raises_iff", {}).items():
        cenv2 = contract_env(ex, c, bound, self_obj, old_self)
        ex.oblige("raises", f"{exc}:must-raise", z3.Not(ex.to_bool(
            eval_spec_expr(ex, cond, cenv2))), line_end, note=cond)
    cenv = contract_env(ex, c, bound, self_obj, old_self, result)
    # lemma instances (or assertions) over the final state: the locals at the return are visible
    for text in c.get("post_hints", []):
        henv = dict(env)
        henv.update(cenv)
        assume_hint(ex, text, henv, line_end, "return")
    if c.get("no_calls"):
        ex.oblige_trivial("post", "calls no executor/callback (ghost call log empty)",
                          len(ex.ctx.ghost_calls) == 0, line_end,
                          note=f"{len(ex.ctx.ghost_calls)} opaque call(s) on this path")
    for i, e_ in enumerate(c.get("ensures", [])):
        g = ex.to_bool(eval_spec_expr(ex, e_, cenv))
        ex.oblige("post", f"ensures[{i}]", g, line_end, note=e_)
    if c.get("ret") == "none":
        # callers are told the call yields None: it has to
        isnone = isinstance(result, Z) and result.t.sort() == ex.S.Py
        ex.oblige("post", "returns-None", (result.t == ex.P.PNone) if isnone else z3.BoolVal(False),
                  line_end, note="the contract declares the result to be None")
    hyp = _visitor_hypothesis(ex.w, c)
    if hyp is not None:
        # induction step: this visit_<Class> method re-establishes the class-level hypothesis
        cc, pname = hyp
        henv = dict(cenv)
        henv["node"] = bound[pname]
        for i, e_ in enumerate(cc.get("visit_ensures", [])):
            g = ex.to_bool(eval_spec_expr(ex, e_, henv))
            ex.oblige("post", f"hypothesis[{i}]", g, line_end, note=f"visitor hypothesis: {e_}")
    # identity clauses "result.<attr> IS the object passed as <param>" (aliasing facts callers
    # rely on for frames): decided by the executor, which stores the parameter's own value
    for attr, pname in c.get("result_attr_is", {}).items():
        ok = isinstance(result, Obj) and result.attrs.get(attr) is bound.get(pname)
        ex.oblige_trivial("frame", f"result.{attr}-is-{pname}", ok, line_end,
                          note=f"the returned object's {attr} is the very object passed as {pname}")
    # "self.<attr> IS the object passed as <param>" after the call
    for attr, pname in c.get("self_attr_is", {}).items():
        ok = isinstance(self_obj, Obj) and self_obj.attrs.get(attr) is bound.get(pname)
        ex.oblige_trivial("frame", f"self.{attr}-is-{pname}", ok, line_end,
                          note=f"self.{attr} is the very object passed as {pname}")
    # "self.<attr> is a NEW object (to the stated depth)" after the call: constructors
    for attr, lvl in c.get("self_attr_fresh", {}).items():
        order = {"no": 0, "node": 1, "shallow": 2, "deep": 3}
        v = self_obj.attrs.get(attr) if isinstance(self_obj, Obj) else None
        ok = isinstance(v, Z) and order[v.fresh] >= order[lvl]
        ex.oblige_trivial("frame", f"self.{attr}-is-fresh-{lvl}", ok, line_end,
                          note=f"self.{attr} after the call: provenance "
                               f"{getattr(v, 'origin', None)}, freshness {getattr(v, 'fresh', None)}")
    want_fresh = c.get("fresh")
    if c.get("fresh_trusted"):
        want_fresh = None      # the freshness callers rely on is a stated assumption of this contract
    if want_fresh in ("node", "shallow", "deep") and isinstance(result, Z):
        order = {"no": 0, "node": 1, "shallow": 2, "deep": 3}
        ok = order[result.fresh] >= order[want_fresh]
        ex.oblige_trivial("frame", "result-is-fresh", ok, line_end,
                          note=f"result provenance: {result.origin}")


def dropped_constructs(fnode):
    out = set()
    for n in ast.walk(fnode):
        if isinstance(n, ast.Expr) and isinstance(n.value, ast.Constant) and isinstance(n.value.value, str):
            out.add("docstring")
        if isinstance(n, (ast.arg,)) and n.annotation is not None:
            out.add("annotations")
        if isinstance(n, ast.AnnAssign):
            out.add("annotations")
        if isinstance(n, ast.Call) and isinstance(n.func, ast.Name) and n.func.id == "cast":
            out.add("cast()")
        if isinstance(n, ast.Raise):
            out.add("exception message text")
        if isinstance(n, ast.Call) and isinstance(n.func, ast.Attribute) and \
                n.func.attr in ("warning", "info", "debug"):
            out.add("logging calls")
    return sorted(out)
