"""Loops: concrete sequences are unrolled; symbolic sequences are cut by the sidecar invariant
(establish / preserve / use).  Invariants may mention the ghost lists `_done` (elements already
processed, in order) and `_rest` (elements still to come, current one first)."""
import ast
import z3

from .values import Z, Tup, CList, Obj, Bound
from .symex import Unsupported, BreakSig, ContinueSig, PathPruned
from . import contracts as C


def loop_ordinal(fn, stmt):
    k = 0
    for n in ast.walk(fn):
        if isinstance(n, (ast.For, ast.While)):
            if n is stmt:
                return k
            k += 1
    return -1


def _loops_in_order(fn):
    out = [n for n in ast.walk(fn) if isinstance(n, (ast.For, ast.While))]
    out.sort(key=lambda n: (n.lineno, n.col_offset))
    return out


def ordinal(fn, stmt):
    for i, n in enumerate(_loops_in_order(fn)):
        if n is stmt:
            return i
    return -1


def assigned_names(body):
    names = set()
    for s in body:
        for n in ast.walk(s):
            if isinstance(n, (ast.Assign,)):
                for t in n.targets:
                    for x in ast.walk(t):
                        if isinstance(x, ast.Name):
                            names.add(x.id)
            elif isinstance(n, (ast.AugAssign, ast.AnnAssign)):
                for x in ast.walk(n.target):
                    if isinstance(x, ast.Name):
                        names.add(x.id)
            elif isinstance(n, ast.NamedExpr):
                names.add(n.target.id)
            elif isinstance(n, ast.For):
                for x in ast.walk(n.target):
                    if isinstance(x, ast.Name):
                        names.add(x.id)
            elif isinstance(n, ast.Call) and isinstance(n.func, ast.Attribute) and \
                    isinstance(n.func.value, ast.Name) and \
                    n.func.attr in ("append", "remove", "pop", "extend", "insert", "clear", "update", "add"):
                names.add(n.func.value.id)
    return names


MUTATORS = ("append", "remove", "pop", "extend", "insert", "clear", "update", "add")


def self_writes(body):
    """Fields of `self` a loop body may write, found syntactically:
    'direct'  self.A = …, self.A[…] = …, del self.A[…], self.A.append/pop/…(…), self.A += …
    'object'  self.A.m(…) for any other method m (the object held in A may change its own state)
    'visit'   a self.visit / self.generic_visit / any other self.m(…) call occurs"""
    direct, objects, calls = set(), set(), False

    def is_self_attr(n):
        return isinstance(n, ast.Attribute) and isinstance(n.value, ast.Name) and n.value.id == "self"
    for st in body:
        for n in ast.walk(st):
            if isinstance(n, (ast.Assign, ast.AugAssign, ast.AnnAssign, ast.Delete)):
                tgts = n.targets if isinstance(n, (ast.Assign, ast.Delete)) else [n.target]
                for t in tgts:
                    for x in ast.walk(t):
                        if is_self_attr(x):
                            direct.add(x.attr)
            if isinstance(n, ast.Call) and isinstance(n.func, ast.Attribute):
                recv = n.func.value
                if is_self_attr(recv):
                    (direct if n.func.attr in MUTATORS else objects).add(recv.attr)
                elif isinstance(recv, ast.Name) and recv.id == "self":
                    calls = True
                elif isinstance(recv, ast.Call) and isinstance(recv.func, ast.Name) and recv.func.id == "super":
                    calls = True
    return direct, objects, calls


def havoc_self(ex, slf, body, spec):
    """After (and at the head of) a loop the fields of self its body may write are unknown:
    whatever the invariant says about them is all that is known."""
    if not isinstance(slf, Obj):
        return
    direct, objects, calls = self_writes(body)
    names = set(spec.get("modifies_self", [])) | direct
    cc = ex.w.classes.get(slf.cls, {})
    if calls:
        names |= set(cc.get("visit_effects", {})) | set(cc.get("generic_effects", {}))
    for a in sorted(names):
        if a in slf.attrs and not isinstance(slf.attrs[a], Obj):
            nv = havoc_like(ex, slf.attrs[a], f"self.{a}")
            if isinstance(nv, Z) and isinstance(slf.attrs[a], Z):
                nv.origin = slf.attrs[a].origin
            slf.attrs[a] = nv
    for a in sorted(objects | {x for x in names if isinstance(slf.attrs.get(x), Obj)}):
        o = slf.attrs.get(a)
        if isinstance(o, Obj) and o.cls in ex.w.classes:
            oc = ex.w.classes[o.cls]
            for sa in oc.get("state", {}):
                if sa in o.attrs and not isinstance(o.attrs[sa], Obj):
                    nv = havoc_like(ex, o.attrs[sa], f"self.{a}.{sa}")
                    if isinstance(nv, Z) and isinstance(o.attrs[sa], Z):
                        nv.origin = o.attrs[sa].origin
                    o.attrs[sa] = nv
            for inv in oc.get("invariant", []):
                ex.assume(ex.to_bool(C.eval_spec_expr(ex, inv, {"self": o})))


def concrete_items(ex, it):
    """Return a list of per-iteration values if the iterable has a concrete spine."""
    if isinstance(it, (CList, Tup)):
        return list(it.items)
    if isinstance(it, Bound) and it.name == "__enumerate__":
        inner = concrete_items(ex, it.obj)
        if inner is not None:
            return [Tup([Z(z3.IntVal(i)), x]) for i, x in enumerate(inner)]
    if isinstance(it, Bound) and it.name == "__zip__":
        cols = [concrete_items(ex, a) for a in it.obj.items]
        if all(c is not None for c in cols):
            return [Tup(list(r)) for r in zip(*cols)]
    if isinstance(it, Bound) and it.name == "__range__":
        args = it.obj.items
        vals = []
        for a in args:
            s = z3.simplify(a.t) if isinstance(a, Z) else None
            if s is None or not z3.is_int_value(s):
                return None
            vals.append(s.as_long())
        return [Z(z3.IntVal(i)) for i in range(*vals)]
    if isinstance(it, Z) and it.t.sort() == ex.S.PyList:
        # a list whose spine is syntactically concrete (cons … nil)
        items = []
        t = z3.simplify(it.t)
        while True:
            if z3.is_app(t) and t.decl().name() == "cons":
                items.append(Z(t.arg(0), fresh="no", origin=f"{it.origin}[…]"))
                t = t.arg(1)
            elif z3.is_app(t) and t.decl().name() == "nil":
                return items
            else:
                return None
    return None


def symbolic_seq(ex, it, line):
    """(PyList term, element builder) for a symbolic iterable."""
    S = ex.S
    if isinstance(it, Z) and it.t.sort() == S.PyList:
        return it.t, lambda h, i: Z(h, origin=f"element of {it.origin or 'list'}")
    if isinstance(it, Bound) and it.name == "__enumerate__":
        inner, mk = symbolic_seq(ex, it.obj, line)
        return inner, lambda h, i: Tup([Z(i), mk(h, i)])
    if isinstance(it, Bound) and it.name == "__zip__" and len(it.obj.items) == 2:
        # zip of two symbolic lists: driven by the first; the engine asks for equal lengths
        # (stricter than Python, which stops at the shorter one)
        a, b = it.obj.items
        la, mka = symbolic_seq(ex, a, line)
        lb = ex.to_list(b, line) if not (isinstance(b, Z) and b.t.sort() == S.PyList) else b.t
        ex.oblige("pre", "zip:equal-length", S.len_l(la) == S.len_l(lb), line,
                  note="zip over two symbolic lists is modelled for equal lengths only")
        return la, lambda h, i: Tup([mka(h, i), Z(S.nth(lb, i), origin="element of zip")])
    if isinstance(it, Z) and it.t.sort() == S.Py:
        return ex.to_list(it, line), lambda h, i: Z(h)
    if isinstance(it, Bound) and it.name == "__items__":
        # d.items() of an array-modelled dictionary: SOME list of pairs, of which the rule only
        # knows that every element is a (key, value) pair of the dictionary (that every pair is
        # met, once, is not modelled: invariants over such a loop can only be facts that hold
        # whatever pairs are met - enough for frames, safety and subset facts)
        d = it.obj
        if "items" not in d.attrs:
            d.attrs["items"] = ex.fresh("dict.items", S.PyList)
        P = ex.P

        def mk(h, i):
            k = ex.fresh("item.k", S.Py)
            v = ex.fresh("item.v", S.Py)
            ex.assume(h == P.PTuple(S.cons(k, S.cons(v, S.nil))))
            ex.assume(z3.Select(d.attrs["dom"], k))
            ex.assume(z3.Select(d.attrs["val"], k) == v)
            return Tup([Z(k, origin="dictionary key"), Z(v, origin="dictionary value")])
        return d.attrs["items"], mk
    raise Unsupported(f"iteration over {it!r}")


def comp_ordinal(fn, e):
    out = [n for n in ast.walk(fn) if isinstance(n, (ast.ListComp, ast.GeneratorExp))]
    out.sort(key=lambda n: (n.lineno, n.col_offset))
    for i, n in enumerate(out):
        if n is e:
            return i
    return -1


def run_comprehension(ex, e, env):
    """A list comprehension / generator expression with a sidecar invariant (contract key
    "comps": {ordinal: {...}}, ordinals by source position): run as the loop it abbreviates,

        _out = [];  for <target> in <iter>: if <ifs>: _out.append(<elt>)

    under the loop rule; the invariants may mention `_out` next to `_done` / `_rest` / `_i`, the
    step hints also `_elt` and `_out0` (element just appended, list before the append).
    Returns None when the contract has no entry for this comprehension."""
    e = getattr(ex, "_comp_alias", {}).get(id(e), e) if comp_ordinal(ex.fn, e) < 0 else e
    k = comp_ordinal(ex.fn, e)
    spec = ex.contract.get("comps", {}).get(k)
    if spec is None or len(e.generators) not in (1, 2):
        return None
    if len(e.generators) == 2:
        return run_comprehension2(ex, e, env, k, spec)
    g = e.generators[0]
    # step hints may mention `_elt` (the element just appended) and `_out0` (the list before it)
    stmts = [ast.Assign([ast.Name("_elt", ast.Store())], e.elt),
             ast.Assign([ast.Name("_out0", ast.Store())],
                        ast.Call(ast.Name("list", ast.Load()), [ast.Name("_out", ast.Load())], [])),
             ast.Expr(ast.Call(ast.Attribute(ast.Name("_out", ast.Load()), "append", ast.Load()),
                               [ast.Name("_elt", ast.Load())], []))]
    for c in reversed(g.ifs):
        stmts = [ast.If(c, stmts, [])]
    loop = ast.For(g.target, g.iter, stmts, [], None)
    for n in ast.walk(loop):
        if not hasattr(n, "lineno"):
            n.lineno = e.lineno
            n.col_offset = e.col_offset
    env2 = dict(env)
    env2["_out"] = Z(ex.S.nil, fresh="shallow", origin="comprehension")
    run_for(ex, loop, env2, spec=spec, label=f"comp{k}")
    return env2["_out"]


def run_comprehension2(ex, e, env, k, spec):
    """Two generators:  _out = [];  for x in A:  for y in B(x): if <ifs>: _out.append(elt)
    with the outer loop's invariant under "comps"[k] and the inner one under "comps"[k]["inner"]."""
    g1, g2 = e.generators
    stmts = [ast.Assign([ast.Name("_elt", ast.Store())], e.elt),
             ast.Assign([ast.Name("_out0", ast.Store())],
                        ast.Call(ast.Name("list", ast.Load()), [ast.Name("_out", ast.Load())], [])),
             ast.Expr(ast.Call(ast.Attribute(ast.Name("_out", ast.Load()), "append", ast.Load()),
                               [ast.Name("_elt", ast.Load())], []))]
    for c in reversed(g2.ifs):
        stmts = [ast.If(c, stmts, [])]
    inner = ast.For(g2.target, g2.iter, stmts, [], None)
    body = [ast.Assign([ast.Name("_out_outer", ast.Store())],
                       ast.Call(ast.Name("list", ast.Load()), [ast.Name("_out", ast.Load())], [])), inner]
    for c in reversed(g1.ifs):
        body = [ast.If(c, body, [])]
    outer = ast.For(g1.target, g1.iter, body, [], None)
    for n in ast.walk(outer):
        if not hasattr(n, "lineno"):
            n.lineno = e.lineno
            n.col_offset = e.col_offset
    ex.__dict__.setdefault("_synthetic_loop_specs", {})[id(inner)] = (spec.get("inner", {}), f"comp{k}.inner")
    env2 = dict(env)
    env2["_out"] = Z(ex.S.nil, fresh="shallow", origin="comprehension")
    run_for(ex, outer, env2, spec=spec, label=f"comp{k}")
    return env2["_out"]


def run_dict_comprehension(ex, e, env):
    """{k: v for x in seq} with a sidecar invariant (contract key "dictcomps": {ordinal: {...}}):
    run as   _out = {};  for x in seq: _out[k] = v   on a dictionary TERM (PDict: newest binding
    first, so lookups agree with Python's; a key bound twice is listed twice, which only
    iteration over the keys could tell apart)."""
    comps = [n for n in ast.walk(ex.fn) if isinstance(n, ast.DictComp)]
    comps.sort(key=lambda n: (n.lineno, n.col_offset))
    k = [i for i, n in enumerate(comps) if n is e]
    spec = ex.contract.get("dictcomps", {}).get(k[0]) if k else None
    if spec is None or len(e.generators) != 1 or e.generators[0].ifs:
        return None
    g = e.generators[0]
    stmts = [ast.Assign([ast.Subscript(ast.Name("_out", ast.Load()), e.key, ast.Store())], e.value)]
    loop = ast.For(g.target, g.iter, stmts, [], None)
    for n in ast.walk(loop):
        if not hasattr(n, "lineno"):
            n.lineno = e.lineno
            n.col_offset = e.col_offset
    env2 = dict(env)
    env2["_out"] = Z(ex.P.PDict(ex.S.nil, ex.S.nil), fresh="shallow", origin="dict comprehension")
    run_for(ex, loop, env2, spec=spec, label=f"dictcomp{k[0]}")
    return env2["_out"]


def run_for(ex, s, env, spec=None, label=None):
    syn = getattr(ex, "_synthetic_loop_specs", {}).get(id(s))
    if spec is None and syn is not None:
        spec, label = syn
    k0 = ordinal(ex.fn, s) if spec is None else label
    spec0 = ex.contract.get("loops", {}).get(k0) if spec is None else spec
    if spec0 is not None and "abstract" in spec0:
        # ASSUMED abstraction of a loop the engine cannot follow (listed in the evidence): the
        # loop only (re)computes the named local values and raises nothing
        for name in spec0["abstract"]["havoc"]:
            v = env.get(name)
            if isinstance(v, Obj) and v.cls == "pyset":
                env[name] = Obj("pyset", {"id": Z(ex.fresh(f"{name}.set", ex.S.Py))}, fresh="shallow")
            elif v is not None:
                env[name] = havoc_like(ex, v, name)
        ex.ctx.notes.append(f"loop #{k0} (line {s.lineno}) abstracted: {spec0['abstract'].get('why', '')}")
        return
    it = ex.ev(s.iter, env)
    items = concrete_items(ex, it)
    if items is not None:
        try:
            for x in items:
                ex.bind_target(s.target, x, env) if not isinstance(s.target, ast.Name) \
                    else env.__setitem__(s.target.id, x)
                try:
                    ex.run_block(s.body, env)
                except ContinueSig:
                    continue
        except BreakSig:
            return
        ex.run_block(s.orelse, env)
        return
    # symbolic: invariant cut
    k = ordinal(ex.fn, s) if spec is None else label
    spec = ex.contract.get("loops", {}).get(k) if spec is None else spec
    if spec is None:
        raise Unsupported(f"loop #{k} (line {s.lineno}) over a symbolic sequence has no invariant")
    S = ex.S
    seq, mk = symbolic_seq(ex, it, s.lineno)
    mods = sorted(assigned_names(s.body) & set(env.keys()))
    slf = env.get("self")

    def inv_env(done, rest, idx):
        e2 = dict(env)
        e2["_done"] = Z(done)
        e2["_rest"] = Z(rest)
        e2["_seq"] = Z(seq)
        e2["_i"] = Z(idx)
        return e2

    # lemma instances (or assertions) wanted before the invariant is established
    for h in spec.get("pre_hints", []):
        C.assume_hint(ex, h, inv_env(S.nil, seq, z3.IntVal(0)), s.lineno, f"loop{k}:pre-hint")
    # establish
    for j, inv in enumerate(spec.get("invariant", [])):
        g = ex.to_bool(C.eval_spec_expr(ex, inv, inv_env(S.nil, seq, z3.IntVal(0))))
        ex.oblige("inv", f"loop{k}:establish[{j}]", g, s.lineno, note=inv)
    # havoc
    for m in mods:
        env[m] = havoc_like(ex, env[m], m)
    havoc_self(ex, slf, s.body, spec)
    done = ex.fresh("_done", S.PyList)
    rest = ex.fresh("_rest", S.PyList)
    idx = ex.fresh("_i", z3.IntSort())
    ex.assume(seq == S.concat(done, rest))
    ex.assume(idx == S.len_l(done))
    for inv in spec.get("invariant", []):
        ex.assume(ex.to_bool(C.eval_spec_expr(ex, inv, inv_env(done, rest, idx))))
    for h in spec.get("hints", []):
        C.assume_hint(ex, h, inv_env(done, rest, idx), s.lineno, f"loop{k}:hint")
    # intermediate assertions (proved here, then available on every path through the body)
    for j, h in enumerate(spec.get("asserts", [])):
        ex.oblige("inv", f"loop{k}:assert[{j}]",
                  ex.to_bool(C.eval_spec_expr(ex, h, inv_env(done, rest, idx))), s.lineno, note=h)
    if ex.branch(S.is_nil(rest)):
        # loop finished: done == seq
        ex.assume(done == seq)
        ex.run_block(s.orelse, env)
        return
    x = mk(S.head(rest), idx)
    if isinstance(s.target, ast.Name):
        env[s.target.id] = x
    else:
        ex.bind_target(s.target, x, env)
    try:
        try:
            ex.run_block(s.body, env)
        except ContinueSig:
            pass
    except BreakSig:
        return      # continue after the loop with the current state
    ndone = S.concat(done, S.cons(S.head(rest), S.nil))
    nrest = S.tail(rest)
    for h in spec.get("step_hints", []):
        C.assume_hint(ex, h, inv_env(done, rest, idx), s.lineno, f"loop{k}:step-hint")
    for j, inv in enumerate(spec.get("invariant", [])):
        g = ex.to_bool(C.eval_spec_expr(ex, inv, inv_env(ndone, nrest, idx + 1)))
        ex.oblige("inv", f"loop{k}:preserve[{j}]", g, s.lineno, note=inv)
    raise LoopBodyEnd()


class LoopBodyEnd(PathPruned):
    """The path reached the end of a loop body after re-establishing the invariant."""


def havoc_like(ex, v, name):
    S = ex.S
    if isinstance(v, Z):
        return Z(ex.fresh(name, v.t.sort()), fresh=v.fresh, origin=v.origin)
    if isinstance(v, Tup):
        return Tup([havoc_like(ex, x, f"{name}.{i}") for i, x in enumerate(v.items)])
    if isinstance(v, Obj) and v.cls == "dict":
        m = ex.new_map()
        m.attrs["dom"] = ex.fresh(name + ".dom", z3.ArraySort(S.Py, z3.BoolSort()))
        m.attrs["val"] = ex.fresh(name + ".val", z3.ArraySort(S.Py, S.Py))
        m.attrs["n"] = ex.fresh(name + ".n", z3.IntSort())
        m.fresh = v.fresh
        return m
    if isinstance(v, Obj) and v.cls == "pyset":
        return Obj("pyset", {"id": Z(ex.fresh(f"{name}.set", ex.S.Py))}, fresh=v.fresh)
    if v is None:
        return v
    raise Unsupported(f"cannot havoc {name} = {v!r}")


def run_while(ex, s, env):
    k = ordinal(ex.fn, s)
    spec = ex.contract.get("loops", {}).get(k)
    if spec is None:
        raise Unsupported(f"while loop #{k} (line {s.lineno}) has no invariant")
    for j, inv in enumerate(spec.get("invariant", [])):
        ex.oblige("inv", f"loop{k}:establish[{j}]",
                  ex.to_bool(C.eval_spec_expr(ex, inv, env)), s.lineno, note=inv)
    mods = sorted(assigned_names(s.body) & set(env.keys()))
    for m in mods:
        env[m] = havoc_like(ex, env[m], m)
    havoc_self(ex, env.get("self"), s.body, spec)
    for inv in spec.get("invariant", []):
        ex.assume(ex.to_bool(C.eval_spec_expr(ex, inv, env)))
    c = ex.to_bool(ex.ev(s.test, env))
    if not ex.branch(c):
        ex.run_block(s.orelse, env)
        return
    variant0 = None
    if "variant" in spec:
        variant0 = ex.to_int(C.eval_spec_expr(ex, spec["variant"], env))
    try:
        try:
            ex.run_block(s.body, env)
        except ContinueSig:
            pass
    except BreakSig:
        return
    for j, inv in enumerate(spec.get("invariant", [])):
        ex.oblige("inv", f"loop{k}:preserve[{j}]",
                  ex.to_bool(C.eval_spec_expr(ex, inv, env)), s.lineno, note=inv)
    if variant0 is not None:
        v1 = ex.to_int(C.eval_spec_expr(ex, spec["variant"], env))
        ex.oblige("inv", f"loop{k}:variant-decreases", z3.And(v1 < variant0, variant0 >= 0),
                  s.lineno, note=spec["variant"])
    raise LoopBodyEnd()
