"""Vacuity guards and the assumption scan (run on every invocation)."""
import z3

from . import contracts, symex, extract
from .specs import unfold


def for_function(w, key, r):
    """(1) the requires clause is satisfiable (cover); (2) canary: with the same assumptions,
    `False` must NOT be provable on a path that returns."""
    out = []
    c = w.contracts[key]
    if r.unsupported:
        return out
    posts = [ob for ob in r.obligations if ob.kind == "post" and ob.trivial is None]
    if c.get("ensures") and not posts and r.returns:
        out.append({"name": f"{key}: postcondition obligations exist", "ok": False,
                    "detail": "no post obligation generated"})
    for ob in posts[:2]:
        s = z3.Solver()
        s.set("timeout", 5000)
        eqs = unfold(w, [], fuel=2, facts=list(ob.pc))
        for q in eqs:
            s.add(q)
        for p in ob.pc:
            s.add(p)
        res = s.check()
        out.append({"name": f"{key}: canary (assumptions of a returning path are satisfiable)",
                    "ok": res != z3.unsat, "detail": str(res)})
    if r.paths == 0:
        out.append({"name": f"{key}: at least one path explored", "ok": False, "detail": "0 paths"})
    return out


def for_specs(w, prop):
    out = []
    for name, err in w.spec_errors.items():
        out.append({"name": f"spec function {name} compiles", "ok": False, "detail": err})
    return out


TRUSTED_MODELS = [
    "ast.NodeVisitor.visit/generic_visit dispatch model (visit_<Class> if defined else generic_visit; "
    "generic_visit visits every node-valued field in _fields order)",
    "ast.NodeTransformer.generic_visit stores visited children back in place and returns the same node",
    "copy.copy: fresh object, fields shared; copy.deepcopy: fresh tree, structurally equal",
    "CPython's parser for literal source strings (ast.parse of a constant string is evaluated by the "
    "engine's own interpreter)",
    "ast.literal_eval / ast.dump / ast.unparse as uninterpreted functions of the field structure",
    "the partial-correctness rule for recursive procedures (visitor induction) and the loop-invariant rule",
    "z3 5.1 (solver) and the engine's own VC generator (pyvc) are part of the trusted base",
]

ASSUMPTIONS = [
    "Python int is the mathematical integers; floats are not reasoned about",
    "term view: ast nodes are compared structurally; expr_context (ctx), kind, type_comment, "
    "positions and non-field attributes are dropped from the node model",
    "input trees are trees (no shared sub-nodes / DAGs) in term view",
    "termination is not proved (partial correctness); every solver answer other than unsat is 'not proved'",
    "engine P parses /repo source with the tooling interpreter's parser (3.11); the ast grammar "
    "table is dumped from the library's interpreter (3.12) on every run",
]


def assumptions(w, prop):
    out = list(ASSUMPTIONS)
    for k, c in w.contracts.items():
        if prop in c.get("properties", []):
            for a in c.get("assumes", []):
                out.append(f"{k.split('::')[1]}: {a}")
            if c.get("trusted"):
                out.append(f"TRUSTED (not verified) contract: {k}")
    return out


def trusted_base(w, prop):
    return list(TRUSTED_MODELS)
