"""Run under the interpreter the library runs on (/venv/bin/python): dump the ast grammar
(ASDL signatures shipped in the class docstrings) as JSON on stdout."""
import ast, json, re, sys

def parse_sig(cls):
    doc = (cls.__doc__ or "").strip().split("\n")[0]
    m = re.match(r"^(\w+)\((.*)\)$", doc)
    fields = []
    if m and m.group(1) == cls.__name__ and m.group(2).strip():
        for part in m.group(2).split(","):
            ty, name = part.strip().split()
            q = ""
            if ty[-1] in "*?":
                q = ty[-1]; ty = ty[:-1]
            fields.append([name, ty, q])
    elif cls._fields:
        return None
    if [f[0] for f in fields] != list(cls._fields):
        return None
    return fields

out = {"python": sys.version.split()[0], "classes": {}}
for name in sorted(dir(ast)):
    cls = getattr(ast, name)
    if not (isinstance(cls, type) and issubclass(cls, ast.AST)) or cls is ast.AST:
        continue
    if cls.__subclasses__() and not cls._fields and cls.__name__ in (
            "expr", "stmt", "mod", "operator", "unaryop", "boolop", "cmpop", "expr_context",
            "excepthandler", "pattern", "type_ignore", "type_param", "slice"):
        continue
    base = cls.__mro__[1].__name__
    if getattr(cls, "__module__", "") != "ast" and getattr(cls, "__module__", "") != "_ast":
        continue
    if name in ("Num", "Str", "Bytes", "NameConstant", "Ellipsis", "Index", "ExtSlice",
                "Suite", "AugLoad", "AugStore", "Param"):
        continue   # deprecated aliases
    sig = parse_sig(cls)
    if sig is None:
        continue
    out["classes"][name] = {"base": base, "fields": sig}
json.dump(out, sys.stdout)
