"""Lemmas over spec functions, proved by structural induction in engine P.

A lemma names a Bool-valued spec function `pred(x, extra…)` (its hypotheses are part of it, written
with implies()).  induct="node": one obligation per ast node class C:
      is_C(n),  IH: pred(child) for node-valued fields, pred__all(list) for list fields,
      instances of the `uses` list-lemmas at every list field            |-  pred(n)
plus the non-node case.  induct="list": base (nil) and step (cons, IH on the tail, plus `uses`
node-lemmas at the head when they are already proved)."""
import z3

from .symex import Obligation
from . import specs


def register_lemma(w, lem):
    w.__dict__.setdefault("lemmas", {})[lem["name"]] = lem


def _check_ih_shape(ih, pred):
    import ast as _a
    body = [b for b in ih.fnode.body
            if not (isinstance(b, _a.Expr) and isinstance(b.value, _a.Constant))]
    ok = len(body) == 1 and isinstance(body[0], _a.Return) and isinstance(body[0].value, _a.Call) \
        and isinstance(body[0].value.func, _a.Name) and body[0].value.func.id == pred \
        and len(body[0].value.args) >= 1 and isinstance(body[0].value.args[0], _a.Call) \
        and isinstance(body[0].value.args[0].func, _a.Name) \
        and body[0].value.args[0].func.id == "tail" \
        and isinstance(body[0].value.args[0].args[0], _a.Name) \
        and body[0].value.args[0].args[0].id == ih.params[0][0]
    if not ok:
        raise ValueError(f"{ih.name} is not of the form `return {pred}(tail(l), ...)`")


def _eval_hint(w, sf, text, consts):
    """Evaluate a Bool spec expression over the lemma's parameters."""
    import ast as _a
    from . import symex
    from .values import Z
    ctx = symex.Ctx(w, [], [[]])
    ex = symex.Exec(w, f"lemma-hint::{sf.name}", sf.fnode, {}, sf.module_tree, spec_mode=True)
    ex.ctx = ctx
    env = {pn: Z(c) for (pn, _), c in zip(sf.params, consts)}
    v = ex.ev(_a.parse(text.strip(), mode="eval").body, env)
    return ex.to_bool(v)


def _extra_consts(w, sf):
    return [z3.Const(f"lem.{pn}", specs._sort_of(w, ann)) for pn, ann in sf.params[1:]]


def obligations(w, name):
    lem = w.lemmas[name]
    S = w.S
    sf = w.specs[lem["pred"]]
    extra = _extra_consts(w, sf)
    obs = []
    key = f"lemma::{name}"
    fuel = lem.get("fuel", 3)
    if lem["induct"] == "node":
        n = z3.Const("lem.n", S.Py)
        alll = sf.all_lift()
        for cls in S.node_classes + ["<non-node>"]:
            pc = []
            if cls == "<non-node>":
                pc.append(z3.Not(S.is_node(n)))
            else:
                pc.append(S.rec(cls)(n))
                for fname, fty, q in S.fields[cls]:
                    a = S.acc(cls, fname)(n)
                    if q == "*":
                        if S._list_holds_nodes(fty):
                            pc.append(alll(a, *extra))
                            for u in lem.get("uses", []):
                                ul = w.lemmas[u]
                                if ul["induct"] == "list":
                                    pc.append(w.specs[ul["pred"]].f(a, *extra))
                    elif S._is_node_type(fty):
                        pc.append(sf.f(a, *extra))
                        if lem.get("depth2"):
                            # strong induction: the hypothesis also for the grandchildren
                            for c2 in S.node_classes:
                                for f2, t2, q2 in S.fields[c2]:
                                    b = S.acc(c2, f2)(a)
                                    if q2 == "*":
                                        if S._list_holds_nodes(t2):
                                            pc.append(z3.Implies(S.rec(c2)(a), alll(b, *extra)))
                                    elif S._is_node_type(t2):
                                        pc.append(z3.Implies(S.rec(c2)(a), sf.f(b, *extra)))
            subcases = [("", [])]
            for fld in lem.get("split", {}).get(cls, []):
                a = S.acc(cls, fld)(n)
                subcases = [(f"{nm}/{fld}:{c2}", extra_pc + [S.rec(c2)(a)])
                            for nm, extra_pc in subcases for c2 in S.node_classes] + \
                           [(f"{nm}/{fld}:<non-node>", extra_pc + [z3.Not(S.is_node(a))])
                            for nm, extra_pc in subcases]
            for nm, extra_pc in subcases:
                ob = Obligation(key, "lemma", f"{name}[{cls}{nm}]", pc + extra_pc,
                                sf.f(n, *extra), None,
                                note=f"structural induction, case {cls}{nm}")
                ob.fuel = fuel
                ob.inline_goal = lem.get("inline_goal", 0)
                ob.allclass = lem.get("allclass", 12)
                obs.append(ob)
    else:
        l = z3.Const("lem.l", S.PyList)
        ob = Obligation(key, "lemma", f"{name}[nil]", [S.is_nil(l)], sf.f(l, *extra), None,
                        note="list induction, base")
        ob.fuel = fuel
        obs.append(ob)
        # induction hypothesis, by default at the same extra arguments; "ih_cons_head": [p, …]
        # instantiates the (universally quantified) extra list parameter p at cons(head l, p)
        ih_extra = list(extra)
        for pn in lem.get("ih_cons_head", []):
            k = [x[0] for x in sf.params[1:]].index(pn)
            ih_extra[k] = S.cons(S.head(l), extra[k])
        pc = [S.is_cons(l), sf.f(S.tail(l), *ih_extra)]
        if lem.get("ih_pred"):
            # generalised hypothesis: a spec function whose body is literally
            #     return <pred>(tail(<first parameter>), <any arguments>)
            # i.e. the lemma at the tail with other (universally quantified) extra arguments
            ih = w.specs[lem["ih_pred"]]
            _check_ih_shape(ih, lem["pred"])
            pc.append(ih.f(l, *extra))
        for u in lem.get("uses", []):
            ul = w.lemmas[u]
            if ul["induct"] == "node":
                pc.append(w.specs[ul["pred"]].f(S.head(l), *extra))
        for text in lem.get("hints", []):
            # instances of lemmas proved elsewhere (named in "hint_lemmas"), written over the
            # lemma's own parameters
            pc.append(_eval_hint(w, sf, text, [l] + list(extra)))
        ob = Obligation(key, "lemma", f"{name}[cons]", pc, sf.f(l, *extra), None,
                        note="list induction, step")
        ob.fuel = fuel
        obs.append(ob)
    return obs
