"""In-place list / dictionary updates in TERM view (functional update of the owning variable):
    del L[-1]            L := take(L, len(L) - 1)                  (IndexError unless len(L) >= 1)
    L[-1][k] = v         L := take(L, len-1) ++ [put(L[-1], k, v)]  (IndexError / TypeError guarded)
    D[k] = v             D := put(D, k, v)                          for a Py dictionary value D
where put(d, k, v) = PDict(k :: keys(d), v :: vals(d)): lookups (assoc) find the newest binding of a
key first, which is what a Python dictionary answers after the store.  L must be a name or an
attribute of an executor-level object (self.x), i.e. something the executor can rebind."""
import ast
import z3

from .values import Z, Obj
from .symex import Unsupported


def _is_minus_one(n):
    return isinstance(n, ast.UnaryOp) and isinstance(n.op, ast.USub) and \
        isinstance(n.operand, ast.Constant) and n.operand.value == 1


def _rebind(ex, expr, newv, env, line):
    if isinstance(expr, ast.Name):
        env[expr.id] = newv
        return
    if isinstance(expr, ast.Attribute):
        base = ex.ev(expr.value, env)
        if isinstance(base, Obj):
            ex.setattr_(base, expr.attr, newv, env, expr.value, line)
            return
    raise Unsupported(f"in-place update of {ast.unparse(expr)} (line {line})")


def put(ex, d, k, v):
    P, S = ex.P, ex.S
    return P.PDict(S.cons(ex.to_py(k), P.dkeys(d)), S.cons(ex.to_py(v), P.dvals(d)))


def delete_hook(ex, target, env, line):
    if not (isinstance(target, ast.Subscript) and _is_minus_one(target.slice)):
        return False
    S = ex.S
    lv = ex.ev(target.value, env)
    if not isinstance(lv, Z):
        return False
    l = ex.to_list(lv, line)
    n = S.len_l(l)
    ex.oblige("safety", "IndexError:del-from-empty-list", n >= 1, line)
    _rebind(ex, target.value, Z(S.take(l, n - 1), fresh=lv.fresh, origin=lv.origin), env, line)
    return True


def subscript_store(ex, target, base, v, env, line):
    P, S = ex.P, ex.S
    if not (isinstance(base, Z) and base.t.sort() == S.Py):
        return False
    d = base.t
    ex.oblige("safety", "TypeError:item-assignment-on-non-dict", P.is_PDict(d), line)
    k = ex.ev(target.slice, env)
    nd = put(ex, d, k, v)
    inner = target.value
    if isinstance(inner, ast.Subscript) and _is_minus_one(inner.slice):
        lv = ex.ev(inner.value, env)
        l = ex.to_list(lv, line)
        n = S.len_l(l)
        newl = S.concat(S.take(l, n - 1), S.cons(nd, S.nil))
        _rebind(ex, inner.value, Z(newl, fresh=getattr(lv, "fresh", "no"),
                                   origin=getattr(lv, "origin", None)), env, line)
        return True
    if isinstance(inner, (ast.Name, ast.Attribute)):
        _rebind(ex, inner, Z(nd, fresh=base.fresh, origin=base.origin), env, line)
        return True
    return False


def install(w):
    w.subscript_store = subscript_store
    w.delete_hook = delete_hook
