"""python3-vt -m pyvc.pjson <PROP> --json OUT [--tier quick|thorough]
Engine P for one property: obligations from the current source, discharged, as JSON."""
import argparse
import json
import os
import sys
import time

import z3

from . import world, contracts, solve, run as runmod, guards


def ob_json(w, r, ob, k, c):
    d = {"id": f"{ob.ident()}#{k}", "kind": ob.kind, "name": ob.name, "status": ob.status,
         "backend": ob.backend, "time": round(ob.time or 0, 4), "line": ob.line, "note": ob.note,
         "decided_by_executor": ob.trivial is not None}
    if ob.status == "refuted" and ob.model is not None:
        names = set(c.get("params", {}).keys()) | set(c.get("closure", {}).keys())
        d["bindings"] = solve.model_bindings(w, ob, names)
        if c.get("native"):
            d["native"] = c["native"]
            d["ensures"] = c.get("ensures", [])
            d["requires"] = c.get("requires", [])
            d["raises"] = c.get("raises", {})
            d["raises_iff"] = c.get("raises_iff", {})
            d["contract"] = c["key"]
    if ob.status == "undecided":
        d["reason"] = getattr(ob, "reason", None)
    return d


def one(w, k, timeout):
    sl = None
    if "@@" in k:                       # "key@@i/n": this worker discharges slice i of n
        k, spec = k.split("@@")
        sl = tuple(int(x) for x in spec.split("/"))
    if k.startswith("lemma::"):
        c = {"key": k}
        r = runmod.lemma_result(w, k[7:])
    else:
        c = w.contracts[k]
        r = contracts.verify_function(w, k)
    if getattr(r, "skipped", False):
        return None
    for m in w.contract_modules:
        h = getattr(m, "prepare", None)
        if h:
            h(w, r)
    for j, ob in enumerate(r.obligations):
        if sl is None or j % sl[1] == sl[0]:
            solve.discharge(w, ob, timeout)
        else:
            ob.status = "other-slice"
    counts = {}
    obs = []
    for ob in sorted(r.obligations, key=lambda o: (o.kind, o.name, o.line or 0)):
        i = counts.get(ob.ident(), 0)
        counts[ob.ident()] = i + 1
        if ob.status != "other-slice":
            obs.append(ob_json(w, r, ob, i, c))
    fj = {"key": k, "sha": r.sha, "paths": r.paths, "returns": r.returns, "raises": r.raises,
          "unsupported": r.unsupported, "dropped": r.dropped, "notes": sorted(set(r.notes)),
          "n_total": len(r.obligations), "obligations": obs}
    g = [] if (k.startswith("lemma::") or (sl and sl[0] != 0)) else guards.for_function(w, k, r)
    return (fj, g)


def main():
    ap = argparse.ArgumentParser()
    ap.add_argument("prop")
    ap.add_argument("--json", required=True)
    ap.add_argument("--tier", default="quick")
    ap.add_argument("--worker")
    a = ap.parse_args()
    t0 = time.time()
    w = world.build()
    keys = [k for k, c in w.contracts.items() if a.prop in c.get("properties", [])
            and not c.get("abstract")]
    timeout = solve.DEFAULT_TIMEOUT_MS * (3 if a.tier == "thorough" else 1)
    out = {"property": a.prop, "functions": [], "guards": [], "spec_errors": w.spec_errors,
           "assumptions": [], "trusted_base": []}
    keys = keys + ["lemma::" + n for n, l in getattr(w, "lemmas", {}).items()
                   if a.prop in l.get("properties", [])]
    if a.worker:
        res = [one(w, k, timeout) for k in a.worker.split("|")]
        json.dump([r for r in res if r is not None], open(a.json, "w"), default=str)
        return
    jobs = int(os.environ.get("VERIF_JOBS", "8"))
    if len(keys) > 1 and jobs > 1:
        import subprocess, tempfile
        # a function whose contract says "parallel": n is split into n obligation slices
        work = []
        for k in keys:
            n = 1 if k.startswith("lemma::") else int(w.contracts[k].get("parallel", 1))
            work.extend([k] if n <= 1 else [f"{k}@@{i}/{n}" for i in range(n)])
        chunks = [[] for _ in range(min(jobs, len(work)))]
        # heaviest (sliced) items first, round robin
        work.sort(key=lambda x: 0 if "@@" in x else 1)
        for i, k in enumerate(work):
            chunks[i % len(chunks)].append(k)
        procs = []
        td = tempfile.mkdtemp(prefix="pjson_", dir=os.path.dirname(os.path.abspath(a.json)))
        for i, ch in enumerate(chunks):
            of = os.path.join(td, f"w{i}.json")
            procs.append((subprocess.Popen([sys.executable, "-m", "pyvc.pjson", a.prop, "--json", of,
                                            "--tier", a.tier, "--worker", "|".join(ch)]), of))
        results = {}
        for p_, of in procs:
            p_.wait()
            if os.path.exists(of):
                for fr in json.load(open(of)):
                    key_ = fr[0]["key"]
                    if key_ in results:        # another slice of the same function: merge
                        results[key_][0]["obligations"].extend(fr[0]["obligations"])
                        results[key_][1].extend(fr[1])
                    else:
                        results[key_] = fr
        import shutil
        shutil.rmtree(td, ignore_errors=True)
        for k in keys:
            if k in results:
                results[k][0]["obligations"].sort(key=lambda o: o["id"])
                if len(results[k][0]["obligations"]) != results[k][0].get("n_total"):
                    results[k][0]["unsupported"] = (
                        f"obligation slices incomplete: {len(results[k][0]['obligations'])} of "
                        f"{results[k][0].get('n_total')} (a worker died)")
                out["functions"].append(results[k][0])
                out["guards"].extend(results[k][1])
            elif not (not k.startswith("lemma::") and w.contracts[k].get("optional")):
                out["functions"].append({"key": k, "sha": None, "paths": 0, "returns": 0,
                                         "raises": {}, "unsupported": "worker produced no result",
                                         "dropped": [], "notes": [], "obligations": []})
    else:
        for k in keys:
            fr = one(w, k, timeout)
            if fr is not None:
                out["functions"].append(fr[0])
                out["guards"].extend(fr[1])
    out["guards"].extend(guards.for_specs(w, a.prop))
    out["assumptions"] = guards.assumptions(w, a.prop)
    out["trusted_base"] = guards.trusted_base(w, a.prop)
    out["wall_s"] = round(time.time() - t0, 2)
    json.dump(out, open(a.json, "w"), indent=1, default=str)


if __name__ == "__main__":
    main()
