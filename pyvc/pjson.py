"""python3-vt -m pyvc.pjson <PROP> --json OUT [--tier quick|thorough]
Engine P for one property: obligations from the current source, discharged, as JSON."""
import argparse
import json
import sys
import time

import z3

from . import world, contracts, solve, run as runmod, guards


def ob_json(w, r, ob, k, c):
    d = {"id": f"{ob.ident()}#{k}", "kind": ob.kind, "name": ob.name, "status": ob.status,
         "backend": ob.backend, "time": round(ob.time or 0, 4), "line": ob.line, "note": ob.note,
         "decided_by_executor": ob.trivial is not None}
    if ob.status == "refuted" and ob.model is not None:
        names = set(c.get("params", {}).keys()) | set(c.get("closure", {}).keys())
        d["bindings"] = solve.model_bindings(w, ob, names)
        if c.get("native"):
            d["native"] = c["native"]
            d["ensures"] = c.get("ensures", [])
            d["requires"] = c.get("requires", [])
            d["raises"] = c.get("raises", {})
            d["contract"] = c["key"]
    if ob.status == "undecided":
        d["reason"] = getattr(ob, "reason", None)
    return d


def main():
    ap = argparse.ArgumentParser()
    ap.add_argument("prop")
    ap.add_argument("--json", required=True)
    ap.add_argument("--tier", default="quick")
    a = ap.parse_args()
    t0 = time.time()
    w = world.build()
    keys = [k for k, c in w.contracts.items() if a.prop in c.get("properties", [])
            and not c.get("abstract")]
    timeout = solve.DEFAULT_TIMEOUT_MS * (3 if a.tier == "thorough" else 1)
    out = {"property": a.prop, "functions": [], "guards": [], "spec_errors": w.spec_errors,
           "assumptions": [], "trusted_base": []}
    keys = keys + ["lemma::" + n for n, l in getattr(w, "lemmas", {}).items()
                   if a.prop in l.get("properties", [])]
    for k in keys:
        if k.startswith("lemma::"):
            c = {"key": k}
            r = runmod.lemma_result(w, k[7:])
        else:
            c = w.contracts[k]
            r = contracts.verify_function(w, k)
        for m in w.contract_modules:
            h = getattr(m, "prepare", None)
            if h:
                h(w, r)
        for ob in r.obligations:
            solve.discharge(w, ob, timeout)
        counts = {}
        obs = []
        for ob in sorted(r.obligations, key=lambda o: (o.kind, o.name, o.line or 0)):
            i = counts.get(ob.ident(), 0)
            counts[ob.ident()] = i + 1
            obs.append(ob_json(w, r, ob, i, c))
        out["functions"].append({"key": k, "sha": r.sha, "paths": r.paths, "returns": r.returns,
                                 "raises": r.raises, "unsupported": r.unsupported,
                                 "dropped": r.dropped, "notes": sorted(set(r.notes)),
                                 "obligations": obs})
        if not k.startswith("lemma::"):
            out["guards"].extend(guards.for_function(w, k, r))
    out["guards"].extend(guards.for_specs(w, a.prop))
    out["assumptions"] = guards.assumptions(w, a.prop)
    out["trusted_base"] = guards.trusted_base(w, a.prop)
    out["wall_s"] = round(time.time() - t0, 2)
    json.dump(out, open(a.json, "w"), indent=1, default=str)


if __name__ == "__main__":
    main()
