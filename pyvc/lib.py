"""Builtins, library-function models (the TRUSTED models of DESIGN §2.2) and value methods."""
import ast
import z3

from .values import Z, Tup, CList, Ref, Obj, Bound, Opaque
from .symex import Unsupported, RaiseSig


def install(w):
    w.builtins = {}
    w.libfuncs = {}
    w.class_ctor = {}
    w.obj_methods = {}
    w.with_models = {}
    w.class_by_name = {}
    w.known_unmodelled = {"Load", "Store", "Del", "ClassDef", "Assign", "For", "While", "If",
                          "With", "Raise", "Try", "Assert", "Import", "ImportFrom", "Global",
                          "Nonlocal", "Pass", "Break", "Continue", "AsyncFunctionDef",
                          "AugAssign", "AnnAssign", "Delete", "Interactive", "Expression"}
    w.comprehension_hook = comprehension_hook
    w.subscript_store = None
    w.delete_hook = None
    w.value_methods = value_methods
    B = w.builtins

    def b(name):
        def deco(f):
            B[name] = f
            return f
        return deco

    @b("len")
    def _len(ex, args, kw, e, env):
        v = args[0]
        S, P = ex.S, ex.P
        if isinstance(v, (Tup, CList)):
            return Z(z3.IntVal(len(v.items)))
        if isinstance(v, Obj) and v.cls == "dict":
            return Z(v.attrs["n"])
        if isinstance(v, Obj) and v.cls == "pyset" and "n" in v.attrs:
            return v.attrs["n"]
        if isinstance(v, Z):
            s = v.t.sort()
            if s == S.PyList:
                return Z(S.len_l(v.t))
            if s == z3.StringSort():
                return Z(z3.Length(v.t))
            if s == S.Py:
                t = v.t
                ex.oblige("safety", "TypeError:len-of-unsized",
                          z3.Or(P.is_PList(t), P.is_PTuple(t), P.is_PStr(t), P.is_PDict(t),
                                P.is_PBytes(t)), getattr(e, "lineno", None))
                return Z(z3.If(P.is_PList(t), S.len_l(P.items(t)),
                               z3.If(P.is_PTuple(t), S.len_l(P.titems(t)),
                                     z3.If(P.is_PStr(t), z3.Length(P.s(t)),
                                           z3.If(P.is_PDict(t), S.len_l(P.dkeys(t)),
                                                 z3.Length(P.by(t)))))))
        raise Unsupported(f"len of {v!r}")

    @b("dict")
    def _dict(ex, args, kw, e, env):
        """dict() / dict(d): a NEW dictionary (shallow copy).  Of a Py value only that it must be
        a dictionary is known (TypeError otherwise); its contents stay abstract."""
        S, P = ex.S, ex.P
        if not args and not kw:
            return ex.new_map()
        if len(args) == 1 and not kw:
            v = args[0]
            if isinstance(v, Bound) and v.name == "__zip__" and len(v.obj.items) == 2:
                # dict(zip(ks, vs)): which key gets which value is not modelled; what is: every
                # value of the dictionary is an element of vs (used by .get below)
                m = ex.new_map()
                m.attrs["dom"] = ex.fresh("zipdict.dom", z3.ArraySort(S.Py, z3.BoolSort()))
                m.attrs["val"] = ex.fresh("zipdict.val", z3.ArraySort(S.Py, S.Py))
                n = ex.fresh("zipdict.n", z3.IntSort())
                ex.assume(n >= 0)
                m.attrs["n"] = n
                m.attrs["values_from"] = ex.to_list(v.obj.items[1], getattr(e, "lineno", None))
                return m
            if isinstance(v, Obj) and v.cls == "dict":
                m = ex.new_map()
                m.attrs.update({k: v.attrs[k] for k in ("dom", "val", "n")})
                return m
            if isinstance(v, Z) and v.t.sort() == S.Py:
                ex.oblige("safety", "TypeError:dict-of-non-mapping", P.is_PDict(v.t),
                          getattr(e, "lineno", None))
                m = ex.new_map()
                m.attrs["dom"] = ex.fresh("dict.dom", z3.ArraySort(S.Py, z3.BoolSort()))
                m.attrs["val"] = ex.fresh("dict.val", z3.ArraySort(S.Py, S.Py))
                n = ex.fresh("dict.n", z3.IntSort())
                ex.assume(n >= 0)
                m.attrs["n"] = n
                return m
        raise Unsupported("dict(...) of this form")

    @b("isinstance")
    def _isinstance(ex, args, kw, e, env):
        return Z(ex.isinstance_(args[0], args[1]))

    @b("type")
    def _type(ex, args, kw, e, env):
        return Bound(args[0], "__type__")

    @b("hasattr")
    def _hasattr(ex, args, kw, e, env):
        name = const_str(args[1])
        if name is None:
            raise Unsupported("hasattr with symbolic name")
        return Z(ex.has_attr(args[0], name))

    @b("getattr")
    def _getattr(ex, args, kw, e, env):
        obj, nm = args[0], args[1]
        has_default = len(args) > 2
        default = args[2] if has_default else None
        name = const_str(nm)
        line = getattr(e, "lineno", None)
        if name is not None:
            if isinstance(obj, Z) and obj.t.sort() == ex.S.Py and name not in ex.S.owners:
                return ex.get_ghost_attr(obj, name, line, default, has_default)
            if isinstance(obj, Obj) and name not in obj.attrs and has_default \
                    and not ex.w.has_method(obj.cls, name):
                return default
            return ex.getattr_(obj, name, line)
        # symbolic attribute name on an executor object: fork over its method table
        if isinstance(obj, Obj) and isinstance(nm, Z) and nm.t.sort() == z3.StringSort():
            cands = ex.w.method_names(obj.cls)
            conds = [nm.t == z3.StringVal(m) for m in cands]
            none_of = z3.And([z3.Not(c) for c in conds]) if conds else z3.BoolVal(True)
            feas = [ex.feasible(c) for c in conds] + [ex.feasible(none_of)]
            k = ex.ctx.choose(len(cands) + 1, feas)
            if k < len(cands):
                ex.assume(conds[k])
                return Bound(obj, cands[k])
            ex.assume(none_of)
            if has_default:
                return default
            raise RaiseSig("AttributeError", line, implicit=True)
        raise Unsupported("getattr with symbolic name")

    @b("setattr")
    def _setattr(ex, args, kw, e, env):
        name = const_str(args[1])
        if name is None:
            raise Unsupported("setattr with symbolic name")
        ex.setattr_(args[0], name, args[2], env, None, getattr(e, "lineno", None))
        return Z(ex.P.PNone)

    @b("list")
    def _list(ex, args, kw, e, env):
        if not args:
            return Z(ex.S.nil, fresh="shallow", origin="list()")
        v = args[0]
        if isinstance(v, CList):
            return CList(v.items)
        if isinstance(v, Tup):
            return CList(v.items)
        return Z(ex.to_list(v, getattr(e, "lineno", None)), fresh="shallow", origin="list(...)")

    @b("tuple")
    def _tuple(ex, args, kw, e, env):
        v = args[0]
        if isinstance(v, (CList, Tup)):
            return Tup(v.items)
        raise Unsupported("tuple() of symbolic")

    @b("set")
    def _set(ex, args, kw, e, env):
        if args:
            # set(<list>): an opaque set whose size is the number of distinct elements, some n with
            # 0 <= n <= len (n >= 1 for a non-empty list).  ASSUMED: the elements are hashable
            # (TypeError for an unhashable element is not modelled; listed in the evidence)
            l = ex.to_list(args[0], getattr(e, "lineno", None))
            n = ex.w.ufun("distinct_count", ex.S.PyList, z3.IntSort())(l)
            ex.assume(z3.And(n >= 0, n <= ex.S.len_l(l), z3.Implies(ex.S.len_l(l) > 0, n >= 1)))
            ex.ctx.notes.append("set(iterable): elements assumed hashable")
            return Obj("pyset", {"id": Z(ex.w.ufun("set_of", ex.S.PyList, ex.S.Py)(l)), "n": Z(n)},
                       fresh="shallow")
        # an opaque set: only membership can be asked, answered by an uninterpreted predicate
        return Obj("pyset", {"id": Z(ex.fresh("set", ex.S.Py))}, fresh="shallow")

    @b("reversed")
    def _reversed(ex, args, kw, e, env):
        v = args[0]
        if isinstance(v, (CList, Tup)):
            return CList(list(reversed(v.items)))
        l = ex.to_list(v, getattr(e, "lineno", None))
        return Z(ex.S.reverse_acc(l, ex.S.nil), fresh="shallow", origin="reversed")

    B["rev"] = _reversed

    @b("rev_acc")
    def _rev_acc(ex, args, kw, e, env):
        line = getattr(e, "lineno", None)
        return Z(ex.S.reverse_acc(ex.to_list(args[0], line), ex.to_list(args[1], line)),
                 fresh="shallow", origin="rev_acc")

    @b("callable")
    def _callable(ex, args, kw, e, env):
        f = ex.w.ufun("callable", ex.S.Py, z3.BoolSort())
        return Z(f(ex.to_py(args[0])))

    @b("str")
    def _str(ex, args, kw, e, env):
        v = args[0]
        if isinstance(v, Z) and v.t.sort() == z3.StringSort():
            return v
        f = ex.w.ufun("str_of", ex.S.Py, z3.StringSort())
        t = ex.to_py(v)
        return Z(z3.If(ex.P.is_PStr(t), ex.P.s(t), f(t)))

    @b("any")
    def _any(ex, args, kw, e, env):
        return quant_builtin(ex, args, e, env, True)

    @b("all")
    def _all(ex, args, kw, e, env):
        return quant_builtin(ex, args, e, env, False)

    @b("enumerate")
    def _enumerate(ex, args, kw, e, env):
        return Bound(args[0], "__enumerate__")

    @b("zip")
    def _zip(ex, args, kw, e, env):
        return Bound(Tup(args), "__zip__")

    @b("range")
    def _range(ex, args, kw, e, env):
        return Bound(Tup(args), "__range__")

    @b("print")
    def _print(ex, args, kw, e, env):
        return Z(ex.P.PNone)

    @b("super")
    def _super(ex, args, kw, e, env):
        slf = env.get("self")
        if not isinstance(slf, Obj):
            raise Unsupported("super() outside a method")
        return Obj(slf.cls, slf.attrs, fresh=slf.fresh) if False else SuperProxy(slf)

    # ---- spec-language builtins (usable in contracts and spec functions) -----------
    @b("same")
    def _same(ex, args, kw, e, env):
        a, c = args
        if ex._listy(a) and ex._listy(c):
            return Z(ex.to_list(a) == ex.to_list(c))
        if isinstance(a, Tup) and isinstance(c, Tup):
            if len(a.items) != len(c.items):
                return Z(z3.BoolVal(False))
            return Z(z3.And([_same(ex, [x, y], {}, e, env).t for x, y in zip(a.items, c.items)]))
        return Z(ex.to_py(a) == ex.to_py(c))

    @b("old")
    def _old(ex, args, kw, e, env):
        raise Unsupported("old() is a special form")

    @b("implies")
    def _implies(ex, args, kw, e, env):
        return Z(z3.Implies(ex.to_bool(args[0]), ex.to_bool(args[1])))

    @b("iff")
    def _iff(ex, args, kw, e, env):
        return Z(ex.to_bool(args[0]) == ex.to_bool(args[1]))

    def _child(kind):
        def h(ex, args, kw, e, env):
            f, n = args[0], args[1]
            sf = ex.w.specs[f.name]
            extra = [x.t if (isinstance(x, Z) and x.t.sort() != ex.S.Py) else ex.to_py(x)
                     for x in args[2:]]
            return Z(sf.child_op(kind)(ex.to_py(n), *extra))
        return h
    B["map_children"] = _child("mapc")
    B["fold_children"] = _child("foldc")
    B["all_children"] = _child("allc")

    @b("map_list")
    def _mapl(ex, args, kw, e, env):
        f, l = args[0], args[1]
        sf = ex.w.specs[f.name]
        extra = [ex.to_py(x) if not (isinstance(x, Z) and x.t.sort() != ex.S.Py) else x.t
                 for x in args[2:]]
        return Z(sf.list_lift()(ex.to_list(l), *extra))

    @b("cat_list")
    def _catl(ex, args, kw, e, env):
        f, l = args[0], args[1]
        sf = ex.w.specs[f.name]
        extra = [ex.to_py(x) if not (isinstance(x, Z) and x.t.sort() != ex.S.Py) else x.t
                 for x in args[2:]]
        return Z(sf.cat_lift()(ex.to_list(l), *extra))

    @b("all_list")
    def _alll(ex, args, kw, e, env):
        f, l = args[0], args[1]
        sf = ex.w.specs[f.name]
        extra = [ex.to_py(x) if not (isinstance(x, Z) and x.t.sort() != ex.S.Py) else x.t
                 for x in args[2:]]
        return Z(sf.all_lift()(ex.to_list(l), *extra))

    @b("wf")
    def _wf(ex, args, kw, e, env):
        return Z(ex.w.wf.f(ex.to_py(args[0])))

    @b("wf_arglist")
    def _wf_arglist(ex, args, kw, e, env):
        return Z(ex.w.wf.list_fn("arg")(ex.to_list(args[0])))

    @b("wf_kwlist")
    def _wf_kwlist(ex, args, kw, e, env):
        return Z(ex.w.wf.list_fn("keyword")(ex.to_list(args[0])))

    @b("dict_values_from")
    def _dict_values_from(ex, args, kw, e, env):
        """The list every value of a dict(zip(ks, vs)) dictionary is taken from (ghost)."""
        d = args[0]
        if isinstance(d, Obj) and "values_from" in d.attrs:
            return Z(d.attrs["values_from"])
        raise Unsupported("dict_values_from of a dictionary that was not built by dict(zip(...))")

    @b("glob")
    def _glob(ex, args, kw, e, env):
        """glob('name'): the current value of a module variable the function declares global."""
        return ex.global_value(const_str(args[0]), env)

    @b("old_glob")
    def _old_glob(ex, args, kw, e, env):
        n = const_str(args[0])
        ex.global_value(n, env)
        ov = getattr(ex.ctx, "globals_old_override", None)
        if ov is not None and n in ov:
            return ov[n]          # inside a callee's postcondition: the value just before the call
        return ex.ctx.globals_old[n]

    @b("str_format")
    def _str_format(ex, args, kw, e, env):
        """fmt.format(args...) as the library model has it: an uninterpreted function of both."""
        f = ex.w.ufun("str_format", z3.StringSort(), ex.S.Py, z3.StringSort())
        return Z(f(ex.to_str(args[0]), ex.to_py(Tup(list(args[1:])))))

    @b("is_dataclass_value")
    def _is_dc_value(ex, args, kw, e, env):
        return Z(ex.w.ufun("dataclasses_is_dataclass", ex.S.Py, z3.BoolSort())(ex.to_py(args[0])))

    @b("has_fields_attr")
    def _has_fields_attr(ex, args, kw, e, env):
        return Z(ex.w.ufun("hasattr___fields", ex.S.Py, z3.BoolSort())(ex.to_py(args[0])))

    @b("fields_attr")
    def _fields_attr(ex, args, kw, e, env):
        """The `_fields` of a named-tuple class as a list (TRUSTED library fact: a tuple of strings)."""
        v = ex.w.ufun("attr___fields", ex.S.Py, ex.S.Py)(ex.to_py(args[0]))
        return Z(ex.P.titems(v))

    @b("items_of")
    def _items_of(ex, args, kw, e, env):
        """The elements of a Python list or tuple VALUE as a list ([] for anything else)."""
        P, S = ex.P, ex.S
        x = ex.to_py(args[0])
        return Z(z3.If(P.is_PList(x), P.items(x), z3.If(P.is_PTuple(x), P.titems(x), S.nil)))

    @b("walk")
    def _walk(ex, args, kw, e, env):
        """walk(n): the list ast.walk(n) yields (uninterpreted, see the model of ast.walk)."""
        return Z(ex.w.ufun("ast_walk", ex.S.Py, ex.S.PyList)(ex.to_py(args[0])))

    @b("wf_exprs")
    def _wf_exprs(ex, args, kw, e, env):
        return Z(ex.w.wf.list_fn("expr")(ex.to_list(args[0])))

    @b("is_node")
    def _is_node(ex, args, kw, e, env):
        return Z(ex.S.is_node(ex.to_py(args[0])))

    @b("is_expr")
    def _is_expr(ex, args, kw, e, env):
        return Z(ex.S.is_expr(ex.to_py(args[0])))

    @b("parsed_lambda")
    def _parsed_lambda(ex, args, kw, e, env):
        """parsed_lambda("lambda acc,v: acc+1") — the ast of a literal source string, built with
        the executor's own constructors (strings are parsed by CPython's parser here: trusted)."""
        s = const_str(args[0])
        if s is None:
            raise Unsupported("parsed_lambda of a symbolic string")
        return parse_to_term(ex, s)

    @b("fold_lambda")
    def _fold_lambda(ex, args, kw, e, env):
        f = ex.w.ufun("fold_lambda", z3.StringSort(), ex.S.Py)
        return Z(f(ex.to_str(args[0])))

    @b("lambda_of")
    def _lambda_of(ex, args, kw, e, env):
        """The expression ast CPython's parser returns for source text s (TRUSTED: for a
        literal string the engine's own CPython parser is asked; otherwise uninterpreted)."""
        s = const_str(args[0])
        if s is not None:
            return parse_to_term(ex, s)
        f = ex.w.ufun("parse_expr", z3.StringSort(), ex.S.Py)
        return Z(f(ex.to_str(args[0])), fresh="deep", origin="ast.parse(...)")

    @b("expr_source")
    def _expr_source(ex, args, kw, e, env):
        s = const_str(args[0])
        if s is not None:
            try:
                t = ast.parse(s)
                ok = len(t.body) == 1 and isinstance(t.body[0], ast.Expr)
            except SyntaxError:
                ok = False
            return Z(z3.BoolVal(ok))
        f = ex.w.ufun("expr_source", z3.StringSort(), z3.BoolSort())
        return Z(f(ex.to_str(args[0])))

    @b("literal_value")
    def _literal_value(ex, args, kw, e, env):
        f = ex.w.ufun("literal_eval", ex.S.Py, ex.S.Py)
        return Z(f(ex.to_py(args[0])))

    @b("is_literal")
    def _is_literal(ex, args, kw, e, env):
        f = ex.w.ufun("is_literal", ex.S.Py, z3.BoolSort())
        return Z(f(ex.to_py(args[0])))

    @b("hash_of_dump")
    def _hash_of_dump(ex, args, kw, e, env):
        """md5_hex(utf8(ast.dump(a))) — the fixed function of the field structure C20 asks for."""
        d = ex.w.ufun("ast_dump", ex.S.Py, z3.StringSort())
        u = ex.w.ufun("utf8", z3.StringSort(), z3.StringSort())
        h = ex.w.ufun("md5_hex", z3.StringSort(), z3.StringSort())
        return Z(h(u(d(ex.to_py(args[0])))))

    @b("has_attr_executor")
    def _has_attr_executor(ex, args, kw, e, env):
        return Z(ex.w.ufun("hasattr___func_adl_executor", ex.S.Py, z3.BoolSort())(ex.to_py(args[0])))

    @b("attr_executor")
    def _attr_executor(ex, args, kw, e, env):
        return Z(ex.w.ufun("attr___func_adl_executor", ex.S.Py, ex.S.Py)(ex.to_py(args[0])))

    @b("source_of")
    def _source_of(ex, args, kw, e, env):
        """The source text the library renders for an embeddable value: repr(v) (TRUSTED: for the
        value types of C13 str(v) == repr(v) unless v is a str)."""
        f = ex.w.ufun("repr_of", ex.S.Py, z3.StringSort())
        return Z(f(ex.to_py(args[0])))

    @b("embeddable")
    def _embeddable(ex, args, kw, e, env):
        """v is a str/int/float/bool/None/bytes or list/tuple/dict nesting of these AND its repr is
        an expression source (trusted CPython fact for these types, cross-checked bounded)."""
        f = ex.w.ufun("embeddable", ex.S.Py, z3.BoolSort())
        t = ex.to_py(args[0])
        r = ex.w.ufun("repr_of", ex.S.Py, z3.StringSort())
        so = ex.w.ufun("str_of", ex.S.Py, z3.StringSort())
        es = ex.w.ufun("expr_source", z3.StringSort(), z3.BoolSort())
        P = ex.P
        S = ex.S
        one = S.cons(t, S.nil)
        # facts that come with embeddability (assumed library model):
        ex.assume(z3.Implies(f(t), es(r(t))))
        ex.assume(z3.Implies(z3.And(f(t), z3.Not(P.is_PStr(t))), so(t) == r(t)))
        ex.assume(z3.Implies(z3.And(f(t), P.is_PStr(t)), f(P.PList(one))))
        ex.assume(z3.Implies(f(P.PList(one)), z3.And(es(r(P.PList(one))),
                                                     so(P.PList(one)) == r(P.PList(one)))))
        return Z(f(t))

    @b("repr")
    def _repr(ex, args, kw, e, env):
        f = ex.w.ufun("repr_of", ex.S.Py, z3.StringSort())
        return Z(f(ex.to_py(args[0])))

    @b("n_calls")
    def _n_calls(ex, args, kw, e, env):
        return Z(z3.IntVal(len(ex.ctx.ghost_calls)))

    @b("call_fn")
    def _call_fn(ex, args, kw, e, env):
        i = z3.simplify(args[0].t).as_long()
        if i < 0 or i >= len(ex.ctx.ghost_calls):
            return Z(ex.fresh("no_such_call", ex.S.Py))
        return Z(ex.ctx.ghost_calls[i][0])

    @b("call_arg")
    def _call_arg(ex, args, kw, e, env):
        i = z3.simplify(args[0].t).as_long()
        j = z3.simplify(args[1].t).as_long()
        if i < 0 or i >= len(ex.ctx.ghost_calls) or j >= len(ex.ctx.ghost_calls[i][1]):
            return Z(ex.fresh("no_such_arg", ex.S.Py))
        return Z(ex.ctx.ghost_calls[i][1][j])

    @b("call_result")
    def _call_result(ex, args, kw, e, env):
        i = z3.simplify(args[0].t).as_long()
        if i < 0 or i >= len(ex.ctx.ghost_calls):
            return Z(ex.fresh("no_such_call", ex.S.Py))
        return Z(ex.ctx.ghost_calls[i][2])

    @b("has_cb")
    def _has_cb(ex, args, kw, e, env):
        """getattr(x, '_func_adl_type_info', None) is not None  (ghost attribute of an opaque value)"""
        t = ex.to_py(args[0])
        has = ex.w.ufun("hasattr___func_adl_type_info", ex.S.Py, z3.BoolSort())
        val = ex.w.ufun("attr___func_adl_type_info", ex.S.Py, ex.S.Py)
        return Z(z3.And(has(t), val(t) != ex.P.PNone))

    @b("cb_of")
    def _cb_of(ex, args, kw, e, env):
        return Z(ex.w.ufun("attr___func_adl_type_info", ex.S.Py, ex.S.Py)(ex.to_py(args[0])))

    @b("is_param_record")
    def _is_param_record(ex, args, kw, e, env):
        return Z(ex.S.rec("Param")(ex.to_py(args[0])))

    @b("param_name")
    def _param_name(ex, args, kw, e, env):
        return Z(ex.S.acc("Param", "name")(ex.to_py(args[0])))

    @b("param_default")
    def _param_default(ex, args, kw, e, env):
        return Z(ex.S.acc("Param", "default")(ex.to_py(args[0])))

    @b("is_empty_marker")
    def _is_empty_marker(ex, args, kw, e, env):
        return Z(ex.to_py(args[0]) == ex.w.opaque("inspect.Parameter.empty"))

    @b("is_module")
    def _is_module(ex, args, kw, e, env):
        return Z(ex.w.ufun("is_module", ex.S.Py, z3.BoolSort())(ex.to_py(args[0])))

    @b("is_complex")
    def _is_complex(ex, args, kw, e, env):
        return Z(ex.w.ufun("is_complex", ex.S.Py, z3.BoolSort())(ex.to_py(args[0])))

    @b("params_of")
    def _params_of(ex, args, kw, e, env):
        return Z(ex.w.ufun("params_of", ex.S.Py, ex.S.PyList)(ex.to_py(args[0])))

    @b("uf")
    def _uf(ex, args, kw, e, env):
        """uf("name", x, ...) — uninterpreted Py-valued function (trusted library symbol)."""
        name = const_str(args[0])
        ts = [ex.to_py(a) for a in args[1:]]
        f = ex.w.ufun(name, *([ex.S.Py] * len(ts)), ex.S.Py)
        return Z(f(*ts))

    @b("ufb")
    def _ufb(ex, args, kw, e, env):
        name = const_str(args[0])
        ts = [ex.to_py(a) for a in args[1:]]
        f = ex.w.ufun(name, *([ex.S.Py] * len(ts)), z3.BoolSort())
        return Z(f(*ts))

    @b("nth")
    def _nth(ex, args, kw, e, env):
        return Z(ex.S.nth(ex.to_list(args[0]), ex.to_int(args[1])))

    @b("last")
    def _last(ex, args, kw, e, env):
        l = ex.to_list(args[0])
        return Z(ex.S.nth(l, ex.S.len_l(l) - 1))

    @b("has_qmd")
    def _has_qmd(ex, args, kw, e, env):
        """the node carries a `_q_metadata` attribute (ghost attribute of the node term)"""
        return Z(ex.w.ufun("hasattr___q_metadata", ex.S.Py, z3.BoolSort())(ex.to_py(args[0])))

    @b("qmd")
    def _qmd(ex, args, kw, e, env):
        return Z(ex.w.ufun("attr___q_metadata", ex.S.Py, ex.S.Py)(ex.to_py(args[0])))

    @b("dict_has")
    def _dict_has(ex, args, kw, e, env):
        d = ex.to_py(args[0])
        return Z(z3.And(ex.P.is_PDict(d), ex.S.contains(ex.P.dkeys(d), ex.to_py(args[1]))))

    @b("dict_get")
    def _dict_get(ex, args, kw, e, env):
        d = ex.to_py(args[0])
        return Z(ex.S.assoc(ex.P.dkeys(d), ex.P.dvals(d), ex.to_py(args[1])))

    @b("dict_put")
    def _dict_put(ex, args, kw, e, env):
        """The dictionary after d[k] = v (newest binding first: lookups find it first)."""
        from . import stores
        return Z(stores.put(ex, ex.to_py(args[0]), args[1], args[2]))

    @b("dict_keys")
    def _dict_keys(ex, args, kw, e, env):
        return Z(ex.P.dkeys(ex.to_py(args[0])))

    @b("dict_values")
    def _dict_values(ex, args, kw, e, env):
        return Z(ex.P.dvals(ex.to_py(args[0])))

    @b("assoc")
    def _assoc(ex, args, kw, e, env):
        return Z(ex.S.assoc(ex.to_list(args[0]), ex.to_list(args[1]), ex.to_py(args[2])))

    @b("drop")
    def _drop(ex, args, kw, e, env):
        return Z(ex.S.drop(ex.to_list(args[0]), ex.to_int(args[1])))

    @b("take")
    def _take(ex, args, kw, e, env):
        return Z(ex.S.take(ex.to_list(args[0]), ex.to_int(args[1])))

    @b("is_dict")
    def _is_dict(ex, args, kw, e, env):
        return Z(ex.P.is_PDict(ex.to_py(args[0])))

    @b("concat")
    def _concat(ex, args, kw, e, env):
        return Z(ex.S.concat(ex.to_list(args[0]), ex.to_list(args[1])))

    @b("remove_first")
    def _rmf(ex, args, kw, e, env):
        return Z(ex.S.remove_first(ex.to_list(args[0]), ex.to_py(args[1])))

    @b("list_contains")
    def _list_contains(ex, args, kw, e, env):
        return Z(ex.S.contains(ex.to_list(args[0]), ex.to_py(args[1])))

    @b("cons")
    def _cons(ex, args, kw, e, env):
        return Z(ex.S.cons(ex.to_py(args[0]), ex.to_list(args[1])))

    @b("head")
    def _head(ex, args, kw, e, env):
        return Z(ex.S.head(ex.to_list(args[0])))

    @b("tail")
    def _tail(ex, args, kw, e, env):
        return Z(ex.S.tail(ex.to_list(args[0])))

    @b("is_empty")
    def _is_empty(ex, args, kw, e, env):
        return Z(ex.S.is_nil(ex.to_list(args[0])))

    @b("int")
    def _int(ex, args, kw, e, env):
        """int(s) of a string: TRUSTED library fact - it does not raise when s.isdecimal() (the
        obligation), and the value is a non-negative integer (an uninterpreted function of s)."""
        if len(args) == 1 and not kw:
            v = args[0]
            if isinstance(v, Z) and v.t.sort() == z3.IntSort():
                return v
            sv = ex.to_str(v, getattr(e, "lineno", None))
            dec = ex.w.ufun("str_isdecimal", z3.StringSort(), z3.BoolSort())
            ex.oblige("safety", "ValueError:int-of-non-decimal-string", dec(sv), getattr(e, "lineno", None))
            f = ex.w.ufun("str_to_int", z3.StringSort(), z3.IntSort())
            ex.assume(f(sv) >= 0)
            return Z(f(sv))
        raise Unsupported("int() conversion of this form")

    @b("max")
    def _max(ex, args, kw, e, env):
        if len(args) == 2 and not kw:
            a, b2 = ex.to_int(args[0]), ex.to_int(args[1])
            return Z(z3.If(a >= b2, a, b2))
        raise Unsupported("max() of this form")

    for tname in ("bool", "float", "bytes"):
        def mk(tn):
            def conv(ex, args, kw, e, env):
                raise Unsupported(f"{tn}() conversion")
            return conv
        B[tname] = mk(tname)

    # ---- library functions -------------------------------------------------------
    L = w.libfuncs

    def copy_copy(ex, args, kw, e, env):
        v = args[0]
        if isinstance(v, Z):
            r = Z(v.t, fresh="node", origin=f"copy.copy({v.origin or '?'})",
                  known_cls=v.known_cls)
            r_cls = ex.known_class(v)
            if r_cls is not None and r_cls in ex.S.classes and \
                    not any(q == "*" for _, _, q in ex.S.fields[r_cls]):
                r.fresh = "shallow"      # no list fields to share
            return r
        if isinstance(v, Obj):
            return Obj(v.cls, v.attrs, fresh="shallow")
        raise Unsupported("copy.copy of executor value")
    L["copy.copy"] = copy_copy

    def ast_walk(ex, args, kw, e, env):
        """TRUSTED model of ast.walk(n): some list of nodes (which nodes, and that all are met, is
        not modelled: only facts that hold whatever nodes are met can be proved through it)."""
        t = ex.to_py(args[0])
        f = ex.w.ufun("ast_walk", ex.S.Py, ex.S.PyList)
        if "is_nodes" in ex.w.specs:
            # ... of a well-formed tree: well-formed nodes
            ex.assume(z3.Implies(ex.w.wf.f(t), ex.w.specs["is_nodes"].f(f(t))))
        return Z(f(t), fresh="shallow", origin="ast.walk(...)")
    L["ast.walk"] = ast_walk

    def copy_deepcopy(ex, args, kw, e, env):
        v = args[0]
        if isinstance(v, Z):
            return Z(v.t, fresh="deep", origin=f"copy.deepcopy({v.origin or '?'})",
                     known_cls=v.known_cls)
        raise Unsupported("copy.deepcopy of executor value")
    L["copy.deepcopy"] = copy_deepcopy

    def ast_literal_eval(ex, args, kw, e, env):
        t = ex.to_py(args[0])
        if "lit" in ex.w.specs:
            lit = ex.w.specs["lit"].f       # structural spec predicate (spec/md.py)
        else:
            lit = ex.w.ufun("is_literal", ex.S.Py, z3.BoolSort())
        val = ex.w.ufun("literal_eval", ex.S.Py, ex.S.Py)
        line = getattr(e, "lineno", None)
        if "ValueError" in ex.contract.get("raises", {}):
            if not ex.branch(lit(t)):
                raise RaiseSig("ValueError", line)
        else:
            ex.oblige("safety", "ValueError:literal_eval-of-non-literal", lit(t), line)
        return Z(val(t), fresh="deep", origin="ast.literal_eval")
    L["ast.literal_eval"] = ast_literal_eval

    def ast_parse(ex, args, kw, e, env):
        s = const_str(args[0])
        if s is not None:
            tree = ast.parse(s)
            return node_to_term(ex, tree)
        t = ex.to_str(args[0], getattr(e, "lineno", None))
        ok = ex.w.ufun("expr_source", z3.StringSort(), z3.BoolSort())
        pe = ex.w.ufun("parse_expr", z3.StringSort(), ex.S.Py)
        line = getattr(e, "lineno", None)
        # model: source text that is a single expression parses to Module([Expr(parse_expr(s))]);
        # anything else is a SyntaxError or another statement shape (not modelled -> obligation)
        if "SyntaxError" in ex.contract.get("raises", {}):
            if not ex.branch(ok(t)):
                raise RaiseSig("SyntaxError", line)
        else:
            ex.oblige("safety", "SyntaxError:ast.parse-of-non-expression-source", ok(t), line)
        S = ex.S
        mod = S.con("Module")(S.cons(S.con("Expr")(pe(t)), S.nil))
        return Z(mod, fresh="deep", origin="ast.parse", known_cls="Module")
    L["ast.parse"] = ast_parse

    def ast_dump(ex, args, kw, e, env):
        f = ex.w.ufun("ast_dump", ex.S.Py, z3.StringSort())
        return Z(f(ex.to_py(args[0])))
    L["ast.dump"] = ast_dump

    def ast_unparse(ex, args, kw, e, env):
        f = ex.w.ufun("ast_unparse", ex.S.Py, z3.StringSort())
        return Z(f(ex.to_py(args[0])))
    L["ast.unparse"] = ast_unparse

    def ast_iter_fields(ex, args, kw, e, env):
        """ast.iter_fields(node): (name, value) for every field in _fields order.  The node class is
        decided by a case split over the grammar (one path per class)."""
        v = args[0]
        S = ex.S
        if not (isinstance(v, Z) and v.t.sort() == S.Py):
            raise Unsupported("iter_fields of a non-node value")
        cls = ex.known_class(v)
        if cls is None:
            k = ex.ctx.choose(len(S.node_classes), None)
            cls = S.node_classes[k]
            ex.assume(S.rec(cls)(v.t))
        if cls not in S.classes:
            raise RaiseSig("AttributeError", getattr(e, "lineno", None), implicit=True)
        items = []
        for fname, fty, q in S.fields[cls]:
            fv = Z(S.acc(cls, fname)(v.t), fresh="no", origin=f"{v.origin or '?'}.{fname}")
            items.append(Tup([Z(z3.StringVal(fname)), fv]))
        ex.ctx.notes.append("ast.iter_fields: dropped fields (ctx, kind, type_comment) are not "
                            "iterated in the model")
        return CList(items)
    L["ast.iter_fields"] = ast_iter_fields

    def hashlib_md5(ex, args, kw, e, env):
        data = args[0] if args else Z(z3.StringVal(""))
        return Obj("md5", {"data": data}, fresh="shallow")
    L["hashlib.md5"] = hashlib_md5

    def md5_hexdigest(ex, o, a, k, l):
        f = ex.w.ufun("md5_hex", z3.StringSort(), z3.StringSort())
        d = o.attrs["data"]
        if not (isinstance(d, Z) and d.t.sort() == z3.StringSort()):
            raise Unsupported("md5 of a non-bytes value")
        return Z(f(d.t))
    w.obj_methods[("md5", "hexdigest")] = md5_hexdigest

    def inspect_signature(ex, args, kw, e, env):
        """TRUSTED model of inspect.signature(f).parameters: the declared parameters in order, each
        a Param(name, default) record whose default is the EMPTY marker when none is declared."""
        S = ex.S
        t = ex.to_py(args[0])
        f = ex.w.ufun("params_of", S.Py, S.PyList)
        pl = f(t)
        isp = ex.w.specs.get("all_params")
        if isp is not None:
            ex.assume(isp.f(pl))
        o = Obj("signature", {"parameters": Obj("paramdict", {"_values": Z(pl, fresh="shallow",
                                                                       origin="signature.parameters")})})
        return o
    L["inspect.signature"] = inspect_signature
    w.obj_methods[("paramdict", "values")] = lambda ex, o, a, k, l: o.attrs["_values"]

    def pyset_update(ex, o, args, kw, line):
        """set.update(iterable) / set.add(x) on an opaque set: afterwards it is SOME set (its
        membership predicate is a new unknown); the argument is consumed (a generator is run for
        the safety of its element expression only)."""
        for a_ in args:
            if isinstance(a_, Z) and a_.t.sort() == ex.S.Py:
                pass
        o.attrs["id"] = Z(ex.fresh("set'", ex.S.Py))
        o.attrs.pop("n", None)
        return Z(ex.P.PNone)
    w.obj_methods[("pyset", "update")] = pyset_update
    w.obj_methods[("pyset", "add")] = pyset_update

    def typing_get_type_hints(ex, args, kw, e, env):
        S = ex.S
        m = ex.new_map()
        t = ex.to_py(args[0])
        m.attrs["dom"] = ex.w.ufun("type_hints_dom", S.Py, z3.ArraySort(S.Py, z3.BoolSort()))(t)
        m.attrs["val"] = ex.w.ufun("type_hints_val", S.Py, z3.ArraySort(S.Py, S.Py))(t)
        m.attrs["n"] = ex.w.ufun("type_hints_n", S.Py, z3.IntSort())(t)
        return m
    L["typing.get_type_hints"] = typing_get_type_hints

    def _pure_pred(name):
        def h(ex, args, kw, e, env):
            return Z(ex.w.ufun(name.replace(".", "_"), ex.S.Py, z3.BoolSort())(ex.to_py(args[0])))
        return h

    def _pure_fun(name):
        def h(ex, args, kw, e, env):
            return Z(ex.w.ufun(name.replace(".", "_"), ex.S.Py, ex.S.Py)(ex.to_py(args[0])))
        return h
    # reflection helpers as uninterpreted total functions of their argument (TRUSTED models: they
    # do not raise on the values the library hands them)
    L["dataclasses.is_dataclass"] = _pure_pred("dataclasses.is_dataclass")
    L["keyword.iskeyword"] = _pure_pred("keyword.iskeyword")

    def make_dataclass(ex, args, kw, e, env):
        """TRUSTED model of dataclasses.make_dataclass(name, fields): an uninterpreted total
        function of the field list.  (The real one raises TypeError for a field name that is not
        an identifier, is a keyword or is repeated; the one call site tests exactly that first.)"""
        f = ex.w.ufun("make_dataclass", ex.S.Py, ex.S.Py)
        ex.ctx.notes.append("dataclasses.make_dataclass: assumed total on the field lists the "
                            "call site lets through (identifier, non-keyword, distinct names)")
        return Z(f(ex.to_py(args[1])))
    L["dataclasses.make_dataclass"] = make_dataclass
    L["func_adl.util_types.unwrap_iterable"] = _pure_fun("func_adl.util_types.unwrap_iterable")
    L["func_adl.util_types.is_iterable"] = _pure_pred("func_adl.util_types.is_iterable")

    def logging_getLogger(ex, args, kw, e, env):
        return Obj("logger", {})
    L["logging.getLogger"] = logging_getLogger
    w.obj_methods[("logger", "warning")] = lambda ex, o, a, k, l: Z(ex.P.PNone)
    w.obj_methods[("logger", "info")] = lambda ex, o, a, k, l: Z(ex.P.PNone)
    w.obj_methods[("logger", "debug")] = lambda ex, o, a, k, l: Z(ex.P.PNone)


class SuperProxy(Obj):
    def __init__(self, slf):
        self.cls = slf.cls
        self.attrs = slf.attrs
        self.fresh = slf.fresh
        self.real = slf
        self.is_super = True


def const_str(v):
    if isinstance(v, Z) and v.t.sort() == z3.StringSort():
        s = z3.simplify(v.t)
        if z3.is_string_value(s):
            return s.as_string()
    return None


def quant_builtin(ex, args, e, env, is_any):
    a = args[0]
    if isinstance(a, (ast.GeneratorExp, ast.ListComp)) and len(a.generators) == 2:
        g1, g2 = a.generators
        used = {n.id for n in ast.walk(a.elt) if isinstance(n, ast.Name)} | \
            {n.id for c in g2.ifs for n in ast.walk(c) if isinstance(n, ast.Name)}
        if isinstance(g1.target, ast.Name) and isinstance(g2.iter, ast.Name) and \
                g2.iter.id == g1.target.id and not g1.ifs and g1.target.id not in used:
            # ... for X in S for a in X  ==  ... for a in flat(S)
            flat = ast.Call(ast.Name("flat", ast.Load()), [g1.iter], [])
            a = ast.fix_missing_locations(ast.copy_location(
                type(a)(a.elt, [ast.comprehension(g2.target, flat, g2.ifs, 0)]), a))
    if isinstance(a, (ast.GeneratorExp, ast.ListComp)):
        g = a.generators[0]
        seq = ex.ev(g.iter, env)
        if isinstance(seq, (CList, Tup)) and len(a.generators) == 1 and not g.ifs:
            bs = []
            for it in seq.items:
                env2 = dict(env)
                ex.bind_target(g.target, it, env2)
                bs.append(ex.to_bool(ex.ev(a.elt, env2)))
            return Z((z3.Or if is_any else z3.And)(bs) if bs else z3.BoolVal(not is_any))
        # symbolic list: a canonical recursive predicate  all!<hash>(l, captured…)  named by the
        # element TERM, so code and contract that quantify the same condition share the symbol
        if isinstance(seq, Z) and seq.t.sort() == ex.S.PyList and isinstance(g.target, ast.Name) \
                and len(a.generators) == 1:
            return quant_symbolic(ex, a, g, seq, env, is_any)
        raise Unsupported("any/all over this generator")
    if isinstance(a, (CList, Tup)):
        bs = [ex.to_bool(x) for x in a.items]
        return Z((z3.Or if is_any else z3.And)(bs) if bs else z3.BoolVal(not is_any))
    raise Unsupported("any/all argument")


def quant_symbolic(ex, a, g, seq, env, is_any):
    import hashlib
    S = ex.S
    h = z3.Const("h!elt", S.Py)
    env2 = dict(env)
    env2[g.target.id] = Z(h, origin=f"element of {seq.origin or 'list'}")
    saved = len(ex.ctx.pc)
    saved_known = dict(ex.ctx.known)
    # a fact about EVERY element of the sequence ("quant_elems": {ordinal: spec predicate}): proved
    # of the sequence here, then known of the generic element while its condition is evaluated
    # (what makes e.g. `a.arg` safe for the elements of a parameter list)
    from .loops import comp_ordinal
    pred = ex.contract.get("quant_elems", {}).get(comp_ordinal(ex.fn, a))
    if pred is not None and not ex.spec_mode:
        sf = ex.w.specs[pred]
        ex.oblige("inv", f"quant:{pred}-of-every-element", sf.all_lift()(seq.t), getattr(a, "lineno", None),
                  note=f"every element of the sequence satisfies {pred}")
        ex.ctx.pc.append(sf.f(h))
        ex.learn(sf.f(h))
    conds = []
    for c in g.ifs:
        cz = ex.to_bool(ex.ev(c, env2))
        conds.append(cz)
        ex.ctx.pc.append(cz)
        ex.learn(cz)
    bt = ex.to_bool(ex.ev(a.elt, env2))
    del ex.ctx.pc[saved:]
    ex.ctx.known = saved_known
    if conds:
        bt = z3.And(z3.And(conds), bt) if is_any else z3.Implies(z3.And(conds), bt)
    caps = []
    seen = set()
    stack = [bt]
    while stack:
        x = stack.pop()
        if x.get_id() in seen:
            continue
        seen.add(x.get_id())
        if z3.is_app(x):
            if x.num_args() == 0 and x.decl().kind() == z3.Z3_OP_UNINTERPRETED and not x.eq(h):
                caps.append(x)
            stack.extend(reversed(x.children()))
    ph = [z3.Const(f"cap!{i}", c.sort()) for i, c in enumerate(caps)]
    body = z3.substitute(bt, *list(zip(caps, ph))) if caps else bt
    key = ("any" if is_any else "all") + "|" + body.sexpr() + "|" + ",".join(str(c.sort()) for c in caps)
    name = ("any!" if is_any else "all!") + hashlib.sha1(key.encode()).hexdigest()[:12]
    if name not in ex.w.defs:
        qf = z3.Function(name, S.PyList, *[c.sort() for c in caps], z3.BoolSort())
        l = z3.Const("l!q", S.PyList)
        bh = z3.substitute(body, (h, S.head(l)))
        rec = qf(S.tail(l), *ph)
        d = z3.If(S.is_nil(l), z3.BoolVal(not is_any), z3.Or(bh, rec) if is_any else z3.And(bh, rec))
        ex.w.defs[name] = (qf, [l] + ph, d, True)
    qf = ex.w.defs[name][0]
    return Z(qf(seq.t, *caps))


def comprehension_hook(ex, e, g, seq, env):
    """Comprehension over a symbolic list.
    [self.visit(a) for a in l] -> F__list(l) for a functional visitor; otherwise a canonical
    recursive function  comp!<hash>(l, captured…)  whose name is determined by the element (and
    filter) TERM — code and contract that map the same element expression get the same symbol."""
    elt = e.elt
    tgt = g.target.id
    if not g.ifs and isinstance(elt, ast.Call) and len(elt.args) == 1 \
            and isinstance(elt.args[0], ast.Name) and elt.args[0].id == tgt and not elt.keywords \
            and isinstance(elt.func, ast.Attribute) and isinstance(elt.func.value, ast.Name) \
            and elt.func.value.id == "self" and elt.func.attr == "visit":
        slf = env.get("self")
        cc = ex.w.classes.get(slf.cls) if isinstance(slf, Obj) else None
        if cc is not None:
            return ex.w.visit_list(ex, slf, cc, seq, getattr(e, "lineno", None))
    if not g.ifs and isinstance(elt, ast.IfExp) and isinstance(elt.orelse, ast.Constant) \
            and elt.orelse.value is None and isinstance(elt.test, ast.Compare) \
            and isinstance(elt.test.left, ast.Name) and elt.test.left.id == tgt \
            and len(elt.test.ops) == 1 and isinstance(elt.test.ops[0], ast.IsNot) \
            and isinstance(elt.test.comparators[0], ast.Constant) \
            and elt.test.comparators[0].value is None \
            and isinstance(elt.body, ast.Call) and isinstance(elt.body.func, ast.Attribute) \
            and isinstance(elt.body.func.value, ast.Name) and elt.body.func.value.id == "self" \
            and elt.body.func.attr == "visit" and len(elt.body.args) == 1 \
            and isinstance(elt.body.args[0], ast.Name) and elt.body.args[0].id == tgt:
        # [self.visit(x) if x is not None else None for x in l]: on a list of nodes (no None in
        # it, which the visitor's list precondition demands) this is the plain visit of the list
        slf = env.get("self")
        cc = ex.w.classes.get(slf.cls) if isinstance(slf, Obj) else None
        if cc is not None:
            return ex.w.visit_list(ex, slf, cc, seq, getattr(e, "lineno", None))
    S = ex.S
    h = z3.Const("h!elt", S.Py)
    env2 = dict(env)
    env2[tgt] = Z(h, origin=f"element of {seq.origin or 'list'}")
    conds = []
    saved = len(ex.ctx.pc)
    saved_known = dict(ex.ctx.known)
    for c in g.ifs:
        cz = ex.to_bool(ex.ev(c, env2))
        conds.append(cz)
        ex.ctx.pc.append(cz)
        ex.learn(cz)
    ev = ex.ev(elt, env2)
    # facts assumed while evaluating the element (safety) stay, guards go
    extra = ex.ctx.pc[saved:]
    del ex.ctx.pc[saved:]
    ex.ctx.known = saved_known
    cids = {c.get_id() for c in conds}
    for c in extra:
        if c.get_id() not in cids:
            pass    # element-level facts are about the generic element h only: dropped
    et = ex.to_py(ev)
    cond = z3.And(conds) if conds else None
    caps = []
    seen = set()

    def collect(t):
        stack = [t]
        while stack:
            x = stack.pop()
            if x.get_id() in seen:
                continue
            seen.add(x.get_id())
            if z3.is_app(x):
                if x.num_args() == 0 and x.decl().kind() == z3.Z3_OP_UNINTERPRETED \
                        and not x.eq(h):
                    caps.append(x)
                stack.extend(reversed(x.children()))
    collect(et)
    if cond is not None:
        collect(cond)
    ph = [z3.Const(f"cap!{i}", c.sort()) for i, c in enumerate(caps)]
    body_e = z3.substitute(et, *list(zip(caps, ph))) if caps else et
    body_c = (z3.substitute(cond, *list(zip(caps, ph))) if caps else cond) if cond is not None else None
    key = body_e.sexpr() + "|" + (body_c.sexpr() if body_c is not None else "") + "|" + \
        ",".join(str(c.sort()) for c in caps)
    import hashlib
    name = "comp!" + hashlib.sha1(key.encode()).hexdigest()[:12]
    if name not in ex.w.defs:
        gf = z3.Function(name, S.PyList, *[c.sort() for c in caps], S.PyList)
        l = z3.Const("l!comp", S.PyList)
        he = z3.substitute(body_e, (h, S.head(l)))
        rec = gf(S.tail(l), *ph)
        if body_c is None:
            step = S.cons(he, rec)
        else:
            step = z3.If(z3.substitute(body_c, (h, S.head(l))), S.cons(he, rec), rec)
        ex.w.defs[name] = (gf, [l] + ph, z3.If(S.is_nil(l), S.nil, step), True)
    gf = ex.w.defs[name][0]
    return Z(gf(seq.t, *caps), fresh="shallow", origin="comprehension")


def node_to_term(ex, node):
    """Concrete ast (parsed by the engine's interpreter) -> term, via the executor's constructors."""
    S = ex.S
    if isinstance(node, ast.AST):
        cls = type(node).__name__
        if cls in ("Load", "Store", "Del"):
            return Z(ex.w.opaque("ctx"))
        if cls not in S.classes:
            raise Unsupported(f"literal source uses unmodelled node {cls}")
        vals = []
        for fname, fty, q in S.fields[cls]:
            v = getattr(node, fname, None)
            if q == "*":
                vals.append(S.pylist([ex.to_py(node_to_term(ex, x)) for x in (v or [])]))
            else:
                vals.append(ex.to_py(node_to_term(ex, v)))
        return Z(S.mk(cls, vals), fresh="deep", known_cls=cls, origin="parsed literal source")
    if node is None:
        return Z(ex.P.PNone)
    if isinstance(node, (bool, int, str)):
        return ex.lift_const(node)
    if isinstance(node, float):
        return Z(ex.P.PFloat(z3.RealVal(repr(node))))
    raise Unsupported(f"literal {node!r}")


def parse_to_term(ex, s):
    tree = ast.parse(s)
    if len(tree.body) == 1 and isinstance(tree.body[0], ast.Expr):
        return node_to_term(ex, tree.body[0].value)
    return node_to_term(ex, tree)


def value_methods(ex, obj, name, args, kw, line):
    S, P = ex.S, ex.P
    if name == "__type__":
        raise Unsupported("type(x)(...)")
    if isinstance(obj, Z) and obj.t.sort() == S.PyList:
        raise Unsupported(f"list.{name} on an unbound list value (needs a variable)")
    if isinstance(obj, Z) and obj.t.sort() == z3.StringSort():
        if name == "lower":
            f = ex.w.ufun("str_lower", z3.StringSort(), z3.StringSort())
            return Z(f(obj.t))
        if name == "strip":
            f = ex.w.ufun("str_strip", z3.StringSort(), z3.StringSort())
            return Z(f(obj.t))
        if name == "format":
            f = ex.w.ufun("str_format", z3.StringSort(), S.Py, z3.StringSort())
            return Z(f(obj.t, ex.to_py(Tup(args))))
        if name in ("isidentifier", "isdecimal", "isdigit", "isalpha", "isalnum") and not args:
            # character-class predicates: uninterpreted (total, no exception)
            f = ex.w.ufun(f"str_{name}", z3.StringSort(), z3.BoolSort())
            return Z(f(obj.t))
        if name == "startswith":
            return Z(z3.PrefixOf(ex.to_str(args[0], line), obj.t))
        if name == "endswith":
            return Z(z3.SuffixOf(ex.to_str(args[0], line), obj.t))
        if name == "encode":
            enc = const_str(args[0]) if args else "utf-8"
            if enc not in ("utf-8", "utf8"):
                raise Unsupported(f"str.encode({enc!r})")
            f = ex.w.ufun("utf8", z3.StringSort(), z3.StringSort())   # total and injective
            return Z(f(obj.t))
    if isinstance(obj, Z) and obj.t.sort() == S.Py and name in ("keys", "values") and not args \
            and ex.entails(P.is_PDict(obj.t)):
        # the keys / values of a dictionary TERM, newest binding first (a key bound twice is met
        # twice: only facts that do not depend on meeting each key once can be proved through it)
        return Z(P.dkeys(obj.t) if name == "keys" else P.dvals(obj.t), fresh="shallow",
                 origin=f"dict.{name}()")
    if isinstance(obj, Z) and obj.t.sort() == S.Py:
        # str methods on a Py known to be a str
        if name in ("lower", "strip", "startswith", "endswith", "format", "isidentifier",
                    "isdecimal", "isdigit", "isalpha", "isalnum"):
            s = ex.to_str(obj, line)
            return value_methods(ex, Z(s), name, args, kw, line)
    if isinstance(obj, Obj) and obj.cls == "dict":
        if name == "get":
            k = ex.to_py(args[0])
            d = ex.to_py(args[1]) if len(args) > 1 else P.PNone
            if "values_from" in obj.attrs:
                ex.assume(z3.Implies(z3.Select(obj.attrs["dom"], k),
                                     S.contains(obj.attrs["values_from"], z3.Select(obj.attrs["val"], k))))
            return Z(z3.If(z3.Select(obj.attrs["dom"], k), z3.Select(obj.attrs["val"], k), d))
        if name == "items" and not args:
            # iteration over the pairs of the dictionary: see loops.symbolic_seq
            from .values import Bound
            return Bound(obj, "__items__")
        if name == "update" and len(args) == 1 and isinstance(args[0], Obj) and args[0].cls == "dict":
            # d.update(o): pointwise, o wins where it is defined (the count becomes unknown)
            o = args[0]
            kq = z3.Const("k!upd", S.Py)
            dom = z3.Lambda([kq], z3.Or(z3.Select(obj.attrs["dom"], kq), z3.Select(o.attrs["dom"], kq)))
            val = z3.Lambda([kq], z3.If(z3.Select(o.attrs["dom"], kq), z3.Select(o.attrs["val"], kq),
                                        z3.Select(obj.attrs["val"], kq)))
            obj.attrs["dom"], obj.attrs["val"] = dom, val
            n = ex.fresh("dict.n", z3.IntSort())
            ex.assume(n >= obj.attrs["n"])
            ex.assume(n >= o.attrs["n"])
            obj.attrs["n"] = n
            return Z(P.PNone)
    raise Unsupported(f"method .{name} on {obj!r}")
