"""Engine P: forward symbolic execution of ONE real function (ast from /repo's current source)
against its sidecar contract, producing proof obligations.

Path exploration is replay based: the function is re-executed from the start for every decision
trace; `choose()` consumes the trace and registers the untaken alternatives.
Callees are seen through their contracts only; `self.visit` / `generic_visit` use the class-level
visitor contract (induction hypothesis) and the NodeTransformer/NodeVisitor library model.
"""
import ast
import itertools
import z3

from .values import Z, Tup, CList, Ref, Obj, Bound, Opaque

FEAS_TIMEOUT_MS = 1500


class Unsupported(Exception):
    pass


class ReturnSig(Exception):
    def __init__(self, value):
        self.value = value


class RaiseSig(Exception):
    def __init__(self, exc, line=None, implicit=False):
        self.exc = exc
        self.line = line
        self.implicit = implicit


class PathPruned(Exception):
    pass


class BreakSig(Exception):
    pass


class ContinueSig(Exception):
    pass


class Obligation:
    def __init__(self, fn, kind, name, pc, goal, line, note=""):
        self.fn = fn
        self.kind = kind          # safety | post | pre | frame | raises | inv | lemma | cover | specwf
        self.name = name
        self.pc = list(pc)
        self.goal = goal
        self.line = line
        self.note = note
        self.status = None        # filled by the solver driver
        self.backend = None
        self.time = None
        self.model = None
        self.trivial = None       # decided by the executor itself (frame layer): True/False

    def ident(self):
        return f"{self.fn}#{self.kind}:{self.name}"


_BUILTIN_EXC = {"ValueError", "Exception", "AssertionError", "TypeError", "KeyError",
                "IndexError", "AttributeError", "FuncADLIndexError", "NotImplementedError",
                "StopIteration", "RuntimeError", "SyntaxError"}


class World:
    """Everything shared between functions: sorts, spec functions, contracts, axioms."""

    def __init__(self, sorts):
        self.S = sorts
        self.specs = {}         # name -> SpecFn
        self.contracts = {}     # key -> contract dict
        self.by_name = {}       # simple function name -> contract key (for call resolution)
        self.classes = {}       # class key -> class contract
        self.axioms = []
        q = z3.Const("q__", sorts.PyList)
        self.len_axiom = z3.ForAll([q], sorts.len_l(q) >= 0, patterns=[sorts.len_l(q)])
        self.defs = {}          # spec function name -> (func, params, body, recursive)
        self.lazy = {}          # child-combinator symbol -> (kind, SpecFn)
        self.opaque_ids = {}
        self.uf = {}
        self.feas_cache = {}
        self._fresh = itertools.count()

    def ground_len_facts(self, formulas, depth=3):
        """Union of the per-formula ground list facts (cached per formula)."""
        from .specs import len_args
        cache = self.__dict__.setdefault("_glf_cache", {})
        out = []
        seen = set()
        nths, alls = {}, {}
        for f in formulas:
            k = f.get_id()
            if k not in cache:
                cache[k] = (f, self._ground_len_facts1(f, depth))
            for g in cache[k][1]:
                gi = g.get_id()
                if gi not in seen:
                    seen.add(gi)
                    out.append(g)
            for a in len_args(self, f):
                if isinstance(a, tuple) and a[0] == "nth":
                    nths[a[1].get_id()] = a[1]
                elif isinstance(a, tuple) and a[0] == "all":
                    alls[a[1].get_id()] = a[1]
        # all_nth for the list lifts of spec predicates:  P__all(l, e…) and 0 <= i < len l
        #   ==>  P(nth l i, e…)      (Lean: all_nth)
        S = self.S
        def leaves(x):
            if z3.is_app(x) and x.decl().kind() == z3.Z3_OP_ITE:
                return leaves(x.arg(1)) + leaves(x.arg(2))
            return [x]
        for t in nths.values():
            l, i = t.arg(0), t.arg(1)
            lv = leaves(l)
            for app in alls.values():
                for leaf in lv:
                    if app.arg(0).eq(leaf):
                        base = app.decl().name()[:-len("__all")]
                        sf = self.specs.get(base)
                        if sf is None:
                            continue
                        ev = [app.arg(j) for j in range(1, app.num_args())]
                        hyp = [app, i >= 0, i < S.len_l(l)]
                        if not leaf.eq(l):
                            hyp.append(l == leaf)
                        out.append(z3.Implies(z3.And(hyp), sf.f(t, *ev)))
            wfs = getattr(self, "wf", None)
            if wfs is not None and len(lv) > 1:
                for leaf in lv:
                    for ty, g in list(wfs.lists.items()):
                        inner = wfs.typefact(ty, t)
                        if S._is_node_type(ty):
                            inner = z3.And(inner, wfs.f(t))
                        out.append(z3.Implies(z3.And(l == leaf, g(leaf), i >= 0, i < S.len_l(l)),
                                              inner))
        return out

    def _ground_len_facts1(self, f, depth=3):
        """Quantifier-free instances of list lemmas (each is a Lean theorem over List, see
        lean/FuncAdlLemmas.lean / Mathlib): len_l(x) >= 0;  append_assoc;  append_nil;
        length_append — instantiated at the terms occurring in the formulas."""
        from .specs import len_args
        S = self.S
        seen = set()
        out = []
        for f in (f,):
            for a in len_args(self, f):
                if isinstance(a, tuple) and a[0] == "map":
                    t = a[1]
                    if ("m", t.get_id()) in seen:
                        continue
                    seen.add(("m", t.get_id()))
                    d_ = self.defs.get(t.decl().name())
                    filt = d_ is not None and "If(" in str(d_[2].arg(2))[:4] if False else False
                    # length_map (Lean: List.length_map); comprehensions with a filter only <=
                    if t.decl().name().startswith("comp!") and self._comp_has_filter(t.decl().name()):
                        out.append(S.len_l(t) <= S.len_l(t.arg(0)))
                    else:
                        out.append(S.len_l(t) == S.len_l(t.arg(0)))
                    out.append(S.len_l(t.arg(0)) >= 0)
                    out.append(S.is_nil(t) == S.is_nil(t.arg(0))) if not (
                        t.decl().name().startswith("comp!") and
                        self._comp_has_filter(t.decl().name())) else None
                    continue
                if isinstance(a, tuple) and a[0] == "all":
                    continue
                if isinstance(a, tuple) and a[0] == "rev":
                    # Lean: length_reverseAux'' / reverseAux_nil_iff
                    t = a[1]
                    if ("r", t.get_id()) in seen:
                        continue
                    seen.add(("r", t.get_id()))
                    x, y = t.arg(0), t.arg(1)
                    out.append(S.len_l(t) == S.len_l(x) + S.len_l(y))
                    out.append(S.len_l(x) >= 0)
                    out.append(S.len_l(y) >= 0)
                    out.append(S.is_nil(t) == z3.And(S.is_nil(x), S.is_nil(y)))
                    continue
                if isinstance(a, tuple) and a[0] == "nth":
                    # all_list P l  and  0 <= i < len l   ==>   P (nth l i)   for P = grammar
                    # well-formedness of a list field (Lean: all_nth in FuncAdlLemmas.lean)
                    t = a[1]
                    if ("n", t.get_id()) in seen:
                        continue
                    seen.add(("n", t.get_id()))
                    l, i = t.arg(0), t.arg(1)
                    wfs = getattr(self, "wf", None)
                    if wfs is not None:
                        for ty, g in list(wfs.lists.items()):
                            inner = wfs.typefact(ty, t)
                            if S._is_node_type(ty):
                                inner = z3.And(inner, wfs.f(t))
                            out.append(z3.Implies(z3.And(g(l), i >= 0, i < S.len_l(l)), inner))
                    continue
                if isinstance(a, tuple):
                    t = a[1]
                    if ("c", t.get_id()) in seen:
                        continue
                    seen.add(("c", t.get_id()))
                    x, y = t.arg(0), t.arg(1)
                    out.append(S.len_l(t) == S.len_l(x) + S.len_l(y))
                    out.append(S.len_l(x) >= 0)
                    out.append(S.len_l(y) >= 0)
                    out.append(S.is_nil(x) == (S.len_l(x) == 0))
                    out.append(S.is_nil(y) == (S.len_l(y) == 0))
                    # Lean: head_append'' / nil_append''
                    out.append(z3.Implies(S.is_cons(x), S.head(t) == S.head(x)))
                    out.append(z3.Implies(S.is_nil(x), t == y))
                    if z3.is_app(x) and x.decl().name() == "concat":
                        out.append(t == S.concat(x.arg(0), S.concat(x.arg(1), y)))
                    if z3.is_app(y) and y.decl().name() == "nil":
                        out.append(t == x)
                    else:
                        out.append(z3.Implies(S.is_nil(y), t == x))     # append_nil, guarded
                    continue
                if a.get_id() in seen:
                    continue
                seen.add(a.get_id())
                out.append(S.is_nil(a) == (S.len_l(a) == 0))
                for _ in range(depth + 1):
                    out.append(S.len_l(a) >= 0)
                    # definition of length on a cons cell (Lean: List.length_cons)
                    out.append(z3.Implies(S.is_cons(a), S.len_l(a) == 1 + S.len_l(S.tail(a))))
                    a = S.tail(a)
        return out

    def _comp_has_filter(self, name):
        d = self.defs.get(name)
        if d is None:
            return False
        body = d[2]          # If(is_nil(l), nil, step)
        step = body.arg(2)
        return z3.is_app(step) and step.decl().kind() == z3.Z3_OP_ITE

    def fresh_name(self, base):
        return f"{base}!{next(self._fresh)}"

    def opaque(self, name):
        if name not in self.opaque_ids:
            self.opaque_ids[name] = len(self.opaque_ids) + 1
        return self.S.Py.PObj(z3.IntVal(self.opaque_ids[name]))

    def ufun(self, name, *sorts):
        if name not in self.uf:
            self.uf[name] = z3.Function(name, *sorts)
        return self.uf[name]


def default_value(ex, dnode):
    """The value of a parameter default.  Defaults are evaluated ONCE, when the function is
    defined: a mutable default (list / dict / set display, a call) is an object that exists before
    every call and is shared by all of them - it is never fresh."""
    v = ex.ev(dnode, {})
    if isinstance(dnode, (ast.List, ast.Dict, ast.Set, ast.Call, ast.ListComp, ast.DictComp, ast.SetComp)):
        from .contracts import set_fresh
        set_fresh(v, "no")
        if isinstance(v, Obj):
            v.fresh = "no"
    return v


# decorators that leave the decorated function's call behaviour as written in its body
TRANSPARENT_DECORATORS = {"staticmethod", "classmethod", "property", "abstractmethod", "overload"}


def check_decorators(fnode):
    """A decorated function is whatever the decorator returns (a cache, a wrapper …), not its
    body: the engine refuses it (`unsupported`) instead of silently verifying the body."""
    for d in getattr(fnode, "decorator_list", []):
        name = d.id if isinstance(d, ast.Name) else d.attr if isinstance(d, ast.Attribute) else None
        if name not in TRANSPARENT_DECORATORS:
            raise Unsupported(f"{fnode.name} is decorated (@{ast.unparse(d)}): its behaviour is the "
                              "decorator's, not the body's")


class Ctx:
    """State of one path."""

    def __init__(self, world, trace, worklist):
        self.world = world
        self.trace = trace
        self.taken = []
        self.worklist = worklist
        self.pc = []
        self.known = {}       # z3 ast id of a Py term -> node class known on this path
        self.ghost_calls = []  # (callee term, [arg terms], result term) of opaque calls
        self.obligations = []
        self.notes = []

    def choose(self, n, feasible=None):
        """Pick one of n alternatives; feasible is a list of bools (pruned ones skipped)."""
        opts = [i for i in range(n) if feasible is None or feasible[i]]
        if not opts:
            raise PathPruned()
        if len(opts) == 1:
            return opts[0]
        idx = len(self.taken)
        if idx < len(self.trace):
            c = self.trace[idx]
        else:
            c = opts[0]
            for o in opts[1:]:
                self.worklist.append(self.taken + [o])
        self.taken.append(c)
        return c


class Exec:
    def __init__(self, world, fn_key, fn_node, contract, module_tree, self_obj=None,
                 spec_mode=False):
        self.w = world
        self.S = world.S
        self.fn_key = fn_key
        self.fn = fn_node
        self.contract = contract or {}
        self.module_tree = module_tree
        self.spec_mode = spec_mode
        self.ctx = None
        self.closure_env = {}
        self.imports = {}
        self.mod_consts = {}
        if module_tree is not None:
            from . import extract
            self.imports = extract.module_imports(module_tree)
            self.mod_consts = extract.module_constants(module_tree)

    # ------------------------------------------------------------------ utilities
    @property
    def P(self):
        return self.S.Py

    def assume(self, c):
        self.ctx.pc.append(c)
        self.learn(c)

    def learn(self, c):
        """Record recogniser facts  is_C(t)  from an assumed condition."""
        stack = [c]
        while stack:
            x = stack.pop()
            if not z3.is_app(x):
                continue
            if z3.is_and(x):
                stack.extend(x.children())
            elif x.decl().kind() == z3.Z3_OP_DT_IS and x.num_args() == 1:
                try:
                    self.ctx.known[x.arg(0).get_id()] = x.decl().params()[0].name()
                except Exception:
                    pass

    def known_class(self, v):
        t = v.t
        if v.known_cls:
            return v.known_cls
        if z3.is_app(t) and t.decl().kind() == z3.Z3_OP_DT_CONSTRUCTOR:
            return t.decl().name()
        return self.ctx.known.get(t.get_id())

    def feasible(self, extra):
        """Is pc ∧ extra satisfiable?  unknown counts as feasible."""
        key = (tuple(c.get_id() for c in self.ctx.pc), extra.get_id())
        cache = self.w.feas_cache
        if key in cache:
            return cache[key]
        s = z3.Solver()
        s.set("timeout", FEAS_TIMEOUT_MS)
        for a in self.w.axioms:
            s.add(a)
        for c in self.ctx.pc:
            s.add(c)
        s.add(extra)
        from .specs import unfold
        eqs = unfold(self.w, [extra], fuel=1, facts=list(self.ctx.pc))
        for q in eqs:
            s.add(q)
        for g in self.w.ground_len_facts(self.ctx.pc + [extra] + eqs):
            s.add(g)
        r = s.check() != z3.unsat
        cache[key] = r
        return r

    def entails(self, c):
        return not self.feasible(z3.Not(c))

    def entails_strong(self, c, timeout_ms=3000):
        """Entailment through the full proving pipeline (used to settle the class of a node
        before an attribute access).  Only `proved` counts."""
        if self.entails(c):
            return True
        key = ("strong", tuple(x.get_id() for x in self.ctx.pc), c.get_id())
        cache = self.w.feas_cache
        if key not in cache:
            from . import solve
            ob = Obligation(self.fn_key, "internal", "class-of-node", list(self.ctx.pc), c, None)
            for k_ in ("fuel", "facts_fuel"):
                if k_ in (self.contract or {}):
                    setattr(ob, k_, self.contract[k_])
            solve.discharge(self.w, ob, timeout_ms)
            cache[key] = ob.status == "proved"
        return cache[key]

    def oblige(self, kind, name, goal, line=None, note=""):
        if self.spec_mode and kind == "safety":
            kind = "specwf"
        if kind == "safety" and getattr(self, "assuming", 0) > 0:
            # evaluating a formula that is being ASSUMED (a callee's postcondition, a visitor
            # hypothesis): partial operations inside it were justified where it was proved; here
            # they neither need a proof nor may they add facts
            return None
        ob = Obligation(self.fn_key, kind, name, self.ctx.pc, goal, line, note)
        self.ctx.obligations.append(ob)
        self.assume(goal)
        return ob

    def oblige_trivial(self, kind, name, ok, line=None, note=""):
        ob = Obligation(self.fn_key, kind, name, self.ctx.pc,
                        z3.BoolVal(bool(ok)), line, note)
        ob.trivial = bool(ok)
        self.ctx.obligations.append(ob)
        return ob

    def branch(self, cond):
        """Fork on a z3 Bool; returns True/False for the side taken on this path."""
        cond = z3.simplify(cond)
        if z3.is_true(cond):
            return True
        if z3.is_false(cond):
            return False
        if self.spec_mode:
            ft = ff = True
        else:
            ft = self.feasible(cond)
            ff = self.feasible(z3.Not(cond))
        c = self.ctx.choose(2, [ft, ff])
        if c == 0:
            self.assume(cond)
            return True
        self.assume(z3.Not(cond))
        return False

    def fresh(self, base, sort):
        return z3.Const(self.w.fresh_name(base), sort)

    # ------------------------------------------------------------------ conversions
    def is_z(self, v, sort=None):
        return isinstance(v, Z) and (sort is None or v.t.sort() == sort)

    def to_py(self, v):
        S, P = self.S, self.P
        if isinstance(v, Z):
            s = v.t.sort()
            if s == S.Py:
                return v.t
            if s == S.PyList:
                return P.PList(v.t)
            if s == z3.BoolSort():
                return P.PBool(v.t)
            if s == z3.IntSort():
                return P.PInt(v.t)
            if s == z3.StringSort():
                return P.PStr(v.t)
            if s == z3.RealSort():
                return P.PFloat(v.t)
        if isinstance(v, Tup):
            return P.PTuple(S.pylist([self.to_py(i) for i in v.items]))
        if isinstance(v, CList):
            return P.PList(S.pylist([self.to_py(i) for i in v.items]))
        if isinstance(v, Ref):
            return self.w.opaque(f"{v.kind}:{v.name}")
        if v is None:
            return P.PNone
        if isinstance(v, Bound) and v.name == "__type__":
            # type(x) as a value: an uninterpreted function of x
            return self.w.ufun("type_of", S.Py, S.Py)(self.to_py(v.obj))
        if isinstance(v, Obj) and v.cls == "dict":
            # a dictionary as an opaque Py value: the empty one exactly, any other only "a dict"
            # (its contents are not carried across the injection)
            d0 = v.attrs.get("dom")
            if d0 is not None and z3.is_K(d0) and z3.is_false(d0.arg(0)):
                return P.PDict(S.nil, S.nil)
            t = self.fresh("a_dict", S.Py)
            self.assume(P.is_PDict(t))
            return t
        raise Unsupported(f"cannot inject {v!r} into Py")

    def to_list(self, v, line=None):
        S = self.S
        if isinstance(v, Z):
            if v.t.sort() == S.PyList:
                return v.t
            if v.t.sort() == S.Py:
                self.oblige("safety", "TypeError:not-a-list", S.P_is_seq(v.t) if False else
                            z3.Or(self.P.is_PList(v.t), self.P.is_PTuple(v.t)), line)
                return z3.If(self.P.is_PList(v.t), self.P.items(v.t), self.P.titems(v.t))
        if isinstance(v, CList) or isinstance(v, Tup):
            return S.pylist([self.to_py(i) for i in v.items])
        raise Unsupported(f"not a list: {v!r}")

    def truthy_py(self, t):
        P, S = self.P, self.S
        return z3.If(P.is_PNone(t), False,
               z3.If(P.is_PBool(t), P.b(t),
               z3.If(P.is_PInt(t), P.i(t) != 0,
               z3.If(P.is_PStr(t), z3.Length(P.s(t)) > 0,
               z3.If(P.is_PBytes(t), z3.Length(P.by(t)) > 0,
               z3.If(P.is_PFloat(t), P.f(t) != 0,
               z3.If(P.is_PList(t), S.is_cons(P.items(t)),
               z3.If(P.is_PTuple(t), S.is_cons(P.titems(t)),
               z3.If(P.is_PDict(t), S.is_cons(P.dkeys(t)), True)))))))))

    def to_bool(self, v):
        S = self.S
        if isinstance(v, Z):
            s = v.t.sort()
            if s == z3.BoolSort():
                return v.t
            if s == S.Py:
                return self.truthy_py(v.t)
            if s == S.PyList:
                return S.is_cons(v.t)
            if s == z3.IntSort():
                return v.t != 0
            if s == z3.StringSort():
                return z3.Length(v.t) > 0
        if isinstance(v, (Tup, CList)):
            return z3.BoolVal(len(v.items) > 0)
        if isinstance(v, (Ref, Obj, Bound)):
            return z3.BoolVal(True)
        if v is None:
            return z3.BoolVal(False)
        raise Unsupported(f"truth value of {v!r}")

    def to_int(self, v, line=None, what="int"):
        P = self.P
        if isinstance(v, Z):
            s = v.t.sort()
            if s == z3.IntSort():
                return v.t
            if s == z3.BoolSort():
                return z3.If(v.t, 1, 0)
            if s == self.S.Py:
                self.oblige("safety", f"TypeError:{what}-expected",
                            z3.Or(P.is_PInt(v.t), P.is_PBool(v.t)), line)
                return z3.If(P.is_PInt(v.t), P.i(v.t), z3.If(P.b(v.t), 1, 0))
        raise Unsupported(f"int of {v!r}")

    def to_str(self, v, line=None):
        P = self.P
        if isinstance(v, Z):
            if v.t.sort() == z3.StringSort():
                return v.t
            if v.t.sort() == self.S.Py:
                self.oblige("safety", "TypeError:str-expected", P.is_PStr(v.t), line)
                return P.s(v.t)
        raise Unsupported(f"str of {v!r}")

    def py_eq(self, a, b):
        """Python == on two Py terms in term view (structural; numeric cross-type)."""
        P = self.P

        def maybe_num(t):
            if z3.is_app(t) and t.decl().kind() == z3.Z3_OP_DT_CONSTRUCTOR:
                return t.decl().name() in ("PInt", "PBool", "PFloat")
            return True
        if not (maybe_num(a) and maybe_num(b)):
            return a == b

        def isnum(t):
            return z3.Or(P.is_PInt(t), P.is_PBool(t), P.is_PFloat(t))

        def num(t):
            return z3.If(P.is_PInt(t), z3.ToReal(P.i(t)),
                         z3.If(P.is_PBool(t), z3.If(P.b(t), z3.RealVal(1), z3.RealVal(0)),
                               P.f(t)))
        return z3.Or(a == b, z3.And(isnum(a), isnum(b), num(a) == num(b)))

    def eq(self, a, b, line=None):
        for x, y in ((a, b), (b, a)):
            if isinstance(x, Bound) and x.name == "__type__" and isinstance(y, Ref):
                return self.isinstance_(x.obj, y)
        if isinstance(a, Ref) or isinstance(b, Ref):
            if isinstance(a, Ref) and isinstance(b, Ref):
                return z3.BoolVal(a.kind == b.kind and a.name == b.name)
            other = b if isinstance(a, Ref) else a
            if isinstance(other, Z):
                return self.to_py(a) == self.to_py(b)
            return z3.BoolVal(False)
        if isinstance(a, Tup) and isinstance(b, Tup):
            if len(a.items) != len(b.items):
                return z3.BoolVal(False)
            return z3.And([self.eq(x, y) for x, y in zip(a.items, b.items)] or [z3.BoolVal(True)])
        if a is None or b is None:
            a = Z(self.P.PNone) if a is None else a
            b = Z(self.P.PNone) if b is None else b
        if isinstance(a, Z) and isinstance(b, Z):
            if a.t.sort() == b.t.sort() and a.t.sort() != self.S.Py:
                return a.t == b.t
            return self.py_eq(self.to_py(a), self.to_py(b))
        if isinstance(a, (Z, Tup, CList)) and isinstance(b, (Z, Tup, CList)):
            return self.to_py(a) == self.to_py(b)
        raise Unsupported(f"== between {a!r} and {b!r}")

    # ------------------------------------------------------------------ node fields
    def all_fields(self, cls):
        return [f[0] for f in self.S.classes[cls]["fields"]]

    def get_field(self, v, name, line=None):
        """v.name where v is a Py term."""
        S = self.S
        t = v.t
        if name == "empty":
            return Z(self.w.opaque("inspect.Parameter.empty"))
        owners = S.owners.get(name, [])
        if not owners:
            if name in ("ctx", "kind", "type_comment", "lineno", "col_offset"):
                raise Unsupported(f"read of dropped field {name}")
            return self.get_ghost_attr(v, name, line)
        known = self.known_class(v)
        if known is not None and known not in owners:
            if known in S.classes or known in ("PNone", "PBool", "PInt", "PStr", "PFloat",
                                               "PBytes", "PList", "PTuple", "PDict", "PObj"):
                # the class is known and does not have this attribute
                self.oblige("safety", f"AttributeError:.{name}", z3.BoolVal(False), line,
                            note=f"{known} has no attribute {name}")
                raise PathPruned()
            known = None
        if known is None and not self.spec_mode:
            sorts_ = {S.field_is_list(c, name) for c in owners}
            if len(sorts_) > 1 or len(owners) <= 3:
                ent = [c for c in owners if self.entails_strong(S.rec(c)(t))]
                if len(ent) >= 1:
                    known = ent[0]
                    self.assume(S.rec(known)(t))       # proved: keep it as a fact of the path
        if known is not None:
            a = S.acc(known, name)(t)
            if not self.spec_mode and known in S.fields:
                fty = [(ft, q) for fn_, ft, q in S.fields[known] if fn_ == name]
                if fty and fty[0] == ("identifier", "") and not (
                        z3.is_app(t) and t.decl().kind() == z3.Z3_OP_DT_CONSTRUCTOR):
                    # grammar: an identifier field holds a str whenever the node is well-formed
                    if self.entails_strong(self.P.is_PStr(a)):
                        self.assume(self.P.is_PStr(a))
            return Z(a, fresh="deep" if v.fresh == "deep" else "no",
                     origin=f"{v.origin or '?'}.{name}")
        sorts = {S.field_is_list(c, name) for c in owners}
        cond = z3.Or([S.rec(c)(t) for c in owners])
        self.oblige("safety", f"AttributeError:.{name}", cond, line,
                    note=f"attribute {name} exists only on {owners}")
        if len(sorts) == 1:
            r = None
            for c in reversed(owners):
                a = S.acc(c, name)(t)
                r = a if r is None else z3.If(S.rec(c)(t), a, r)
            return Z(r, fresh="deep" if v.fresh == "deep" else "no",
                     origin=f"{v.origin or '?'}.{name}")
        feas = [True if self.spec_mode else self.feasible(S.rec(c)(t)) for c in owners]
        k = self.ctx.choose(len(owners), feas)
        c = owners[k]
        self.assume(S.rec(c)(t))
        return Z(S.acc(c, name)(t), fresh="deep" if v.fresh == "deep" else "no",
                 origin=f"{v.origin or '?'}.{name}")

    def get_ghost_attr(self, v, name, line, default=None, has_default=False):
        """Non-field attribute (e.g. _q_metadata, _func_adl_executor, _old_ast) in term view:
        uninterpreted functions of the node term (stated abstraction)."""
        S = self.S
        has = self.w.ufun(f"hasattr__{name}", S.Py, z3.BoolSort())
        val = self.w.ufun(f"attr__{name}", S.Py, S.Py)
        if name == "_fields" and "all_str" in self.w.specs:
            # TRUSTED library fact: the `_fields` of a named-tuple class is a tuple of strings
            self.assume(z3.Implies(has(v.t), z3.And(
                self.P.is_PTuple(val(v.t)), self.w.specs["all_str"].f(self.P.titems(val(v.t))))))
        if has_default:
            return Z(z3.If(has(v.t), val(v.t), self.to_py(default)))
        self.oblige("safety", f"AttributeError:.{name}", has(v.t), line)
        return Z(val(v.t))

    def has_attr(self, v, name):
        S = self.S
        if isinstance(v, Z) and v.t.sort() == S.Py:
            owners = S.owners.get(name, [])
            if owners:
                return z3.Or([S.rec(c)(v.t) for c in owners])
            has = self.w.ufun(f"hasattr__{name}", S.Py, z3.BoolSort())
            return has(v.t)
        if isinstance(v, Obj):
            return z3.BoolVal(name in v.attrs)
        raise Unsupported(f"hasattr on {v!r}")

    def construct(self, cls, args, kwargs, line=None):
        S = self.S
        if cls not in S.classes:
            raise Unsupported(f"constructor ast.{cls} outside modelled grammar")
        full = self.w.full_fields[cls]
        given = {}
        if len(args) > len(full):
            raise Unsupported(f"too many positional args for ast.{cls}")
        for name, a in zip(full, args):
            given[name] = a
        for k, a in kwargs.items():
            given[k] = a
        vals = []
        for fname, fty, q in S.fields[cls]:
            if fname in given:
                a = given[fname]
                if q == "*":
                    vals.append(self.to_list(a, line))
                else:
                    vals.append(self.to_py(a))
            else:
                vals.append(S.nil if q == "*" else self.P.PNone)
        lists_fresh = True
        for fname, fty, q in S.fields[cls]:
            if q == "*" and fname in given:
                a = given[fname]
                if isinstance(a, Z) and a.fresh == "no":
                    lists_fresh = False
        return Z(S.mk(cls, vals), fresh="shallow" if lists_fresh else "node",
                 origin=f"ast.{cls}(...)", known_cls=cls)

    def isinstance_(self, v, c):
        S, P = self.S, self.P
        if isinstance(c, Tup):
            return z3.Or([self.isinstance_(v, x) for x in c.items])
        if not isinstance(c, Ref):
            raise Unsupported(f"isinstance against {c!r}")
        if isinstance(v, Z) and v.t.sort() == S.Py and c.kind == "builtin" and c.name == "type":
            # isinstance(v, type): "v is a class object" - an uninterpreted predicate of the value
            return self.w.ufun("is_class_object", S.Py, z3.BoolSort())(v.t)
        if isinstance(v, Z):
            s = v.t.sort()
            if c.kind == "astclass":
                if s != S.Py:
                    return z3.BoolVal(False)
                if c.name == "AST":
                    return S.is_node(v.t)
                if c.name in ("expr", "stmt", "operator", "unaryop", "boolop", "cmpop"):
                    return S.is_base(c.name, v.t)
                if c.name in S.classes:
                    return S.rec(c.name)(v.t)
                return z3.BoolVal(False) if c.name in self.w.known_unmodelled else \
                    self._unsup(f"isinstance against unmodelled ast.{c.name}")
            if c.kind == "type":
                n = c.name
                if s == z3.StringSort():
                    return z3.BoolVal(n == "str")
                if s == z3.IntSort():
                    return z3.BoolVal(n in ("int",))
                if s == z3.BoolSort():
                    return z3.BoolVal(n in ("bool", "int"))
                if s == S.PyList:
                    return z3.BoolVal(n == "list")
                t = v.t
                return {"str": P.is_PStr(t), "int": z3.Or(P.is_PInt(t), P.is_PBool(t)),
                        "bool": P.is_PBool(t), "float": P.is_PFloat(t),
                        "list": P.is_PList(t), "tuple": P.is_PTuple(t),
                        "dict": P.is_PDict(t), "bytes": P.is_PBytes(t),
                        "NoneType": P.is_PNone(t),
                        "complex": self.w.ufun("is_complex", S.Py, z3.BoolSort())(t),
                        "ModuleType": self.w.ufun("is_module", S.Py, z3.BoolSort())(t)}.get(n) if n in (
                    "str", "int", "bool", "float", "list", "tuple", "dict", "bytes",
                    "NoneType", "complex", "ModuleType") else self._unsup(f"isinstance type {n}")
        if isinstance(v, (Tup,)):
            return z3.BoolVal(c.kind == "type" and c.name == "tuple")
        if isinstance(v, CList):
            return z3.BoolVal(c.kind == "type" and c.name == "list")
        if v is None:
            return z3.BoolVal(c.kind == "type" and c.name == "NoneType")
        raise Unsupported(f"isinstance({v!r}, {c!r})")

    def _unsup(self, msg):
        raise Unsupported(msg)

    # ------------------------------------------------------------------ name resolution
    def global_value(self, name, env):
        """A module-level variable the function declares `global`: mutable state, not a constant.
        Its value at entry is an unknown of the sort of its module-level literal."""
        g = self.ctx.__dict__.setdefault("globals_now", {})
        if name not in g:
            init = self.mod_consts.get(name)
            if isinstance(init, bool):
                v = Z(self.fresh(f"global.{name}", z3.BoolSort()))
            elif isinstance(init, int):
                v = Z(self.fresh(f"global.{name}", z3.IntSort()))
            elif isinstance(init, str):
                v = Z(self.fresh(f"global.{name}", z3.StringSort()))
            else:
                v = Z(self.fresh(f"global.{name}", self.S.Py))
            g[name] = v
            self.ctx.__dict__.setdefault("globals_old", {})[name] = v
        return g[name]

    def lookup(self, name, env):
        if name in env.get("__globals__", ()) or name in self.contract.get("globals", []):
            return self.global_value(name, env)
        if name in env:
            return env[name]
        if name in self.mod_consts:
            return self.lift_const(self.mod_consts[name])
        if self.module_tree is not None:
            # module-level NAME = (type, type, ...) tuples (used with isinstance)
            for s_ in self.module_tree.body:
                if isinstance(s_, ast.Assign) and len(s_.targets) == 1 and \
                        isinstance(s_.targets[0], ast.Name) and s_.targets[0].id == name and \
                        isinstance(s_.value, ast.Tuple):
                    items = []
                    for el in s_.value.elts:
                        if isinstance(el, ast.Name):
                            items.append(self.lookup(el.id, {}))
                        elif isinstance(el, ast.Call) and isinstance(el.func, ast.Name) and \
                                el.func.id == "type" and len(el.args) == 1 and \
                                isinstance(el.args[0], ast.Constant) and el.args[0].value is None:
                            items.append(Ref("type", "NoneType"))
                        else:
                            raise Unsupported(f"module constant {name}: element form")
                    return Tup(items)
        if self.module_tree is not None and not self.spec_mode:
            for s_ in self.module_tree.body:
                tgt = val = None
                if isinstance(s_, ast.Assign) and len(s_.targets) == 1 and isinstance(s_.targets[0], ast.Name):
                    tgt, val = s_.targets[0].id, s_.value
                elif isinstance(s_, ast.AnnAssign) and isinstance(s_.target, ast.Name):
                    tgt, val = s_.target.id, s_.value
                if tgt == name and isinstance(val, ast.Dict) and not val.keys:
                    # a module-level registry (mutable dict): arbitrary contents at call time,
                    # the same object every time it is looked at on this path
                    from .contracts import sym_for
                    reg = self.ctx.__dict__.setdefault("registries", {})
                    if name not in reg:
                        reg[name] = sym_for(self, f"global.{name}", "dict")
                    return reg[name]
        if name in self.imports:
            imp = self.imports[name]
            if imp[0] == "module":
                return Ref("module", imp[1])
            mod, attr = imp[1], imp[2]
            for cand in (f"{mod}.{attr}", f"{mod.lstrip('.')}.{attr}",
                         f"func_adl.{mod.lstrip('.')}.{attr}"):
                if cand in self.w.libfuncs:
                    return Ref("libfunc", cand)
            if mod == "types" and attr == "ModuleType":
                return Ref("type", "ModuleType")
            if mod == "typing":
                if attr == "get_type_hints":
                    return Ref("libfunc", "typing.get_type_hints")
                return Ref("typing", attr)
            return self.resolve_global(attr, frm=mod)
        return self.resolve_global(name)

    def resolve_global(self, name, frm=None):
        if name == "__name__":
            return Z(z3.StringVal("module"))
        if name in self.w.by_name:
            return Ref("func", self.w.by_name[name])
        if name in self.w.class_by_name:
            return Ref("class", self.w.class_by_name[name])
        if name in self.w.specs:
            return Ref("spec", name)
        if name in _BUILTIN_EXC:
            return Ref("exc", name)
        if name in ("str", "int", "bool", "float", "list", "tuple", "dict", "bytes", "complex"):
            return Ref("type", name)
        if name in self.w.builtins:
            return Ref("builtin", name)
        if name == "ast":
            return Ref("module", "ast")
        # a helper of the same module that carries no contract: executed inline (it is then
        # verified as part of every caller)
        if self.module_tree is not None and frm is None:
            for s_ in self.module_tree.body:
                if isinstance(s_, ast.FunctionDef) and s_.name == name:
                    return Ref("inline", name, extra=s_)
                if isinstance(s_, ast.ClassDef) and s_.name == name:
                    return Ref("class", f"opaque::{name}")
        if name in ("Any", "Optional", "Union", "List", "Dict", "Callable", "Type", "Iterable"):
            return Ref("typing", name)
        if frm is not None:
            # a literal constant imported from another module of the package: read from the
            # CURRENT source of that module
            from . import extract as _x
            rel = frm.lstrip(".").replace(".", "/")
            for cand in (f"func_adl/{rel}.py", f"{rel}.py", f"func_adl/ast/{rel}.py"):
                try:
                    _, tree_ = _x.module_ast(cand)
                except _x.ExtractError:
                    continue
                consts = _x.module_constants(tree_)
                if name in consts and isinstance(consts[name], (str, int, bool, type(None))):
                    return self.lift_const(consts[name])
        raise Unsupported(f"unresolved name {name!r} (from {frm})")

    def lift_const(self, c):
        if isinstance(c, bool):
            return Z(z3.BoolVal(c))
        if isinstance(c, int):
            return Z(z3.IntVal(c))
        if isinstance(c, str):
            return Z(z3.StringVal(c))
        if c is None:
            return Z(self.P.PNone)
        if isinstance(c, float):
            return Z(z3.RealVal(repr(c)))
        if isinstance(c, (list, tuple)):
            items = [self.lift_const(x) for x in c]
            return CList(items) if isinstance(c, list) else Tup(items)
        raise Unsupported(f"constant {c!r}")

    # ------------------------------------------------------------------ expressions
    def ev(self, e, env):
        m = getattr(self, "ev_" + type(e).__name__, None)
        if m is None:
            raise Unsupported(f"expression form {type(e).__name__} (line {getattr(e, 'lineno', '?')})")
        return m(e, env)

    def ev_Constant(self, e, env):
        if e.value is Ellipsis:
            return Opaque("...")
        return self.lift_const(e.value)

    def ev_Name(self, e, env):
        return self.lookup(e.id, env)

    def ev_NamedExpr(self, e, env):
        v = self.ev(e.value, env)
        env[e.target.id] = v
        return v

    def ev_Tuple(self, e, env):
        return Tup([self.ev(x, env) for x in e.elts])

    def ev_List(self, e, env):
        items = [self.ev(x, env) for x in e.elts]
        try:
            return Z(self.S.pylist([self.to_py(i) for i in items]), fresh="shallow",
                     origin="list literal")
        except Unsupported:
            return CList(items)

    def ev_JoinedStr(self, e, env):
        parts = []
        for v in e.values:
            if isinstance(v, ast.Constant):
                parts.append(z3.StringVal(v.value))
            else:
                x = self.ev(v.value, env)
                if isinstance(x, Z) and x.t.sort() == z3.StringSort() and v.conversion == -1 \
                        and v.format_spec is None:
                    parts.append(x.t)
                else:
                    f = self.w.ufun("str_of", self.S.Py, z3.StringSort())
                    tx = self.to_py(x)
                    parts.append(z3.If(self.P.is_PStr(tx), self.P.s(tx), f(tx)))
        r = parts[0] if parts else z3.StringVal("")
        for p in parts[1:]:
            r = z3.Concat(r, p)
        return Z(r)

    def ev_Attribute(self, e, env):
        v = self.ev(e.value, env)
        return self.getattr_(v, e.attr, e.lineno)

    def getattr_(self, v, name, line=None):
        if isinstance(v, Ref):
            if v.kind == "module":
                if v.name == "ast":
                    if name in self.S.classes or name in ("AST", "expr", "stmt", "operator",
                                                          "unaryop", "boolop", "cmpop") \
                            or name in self.w.known_unmodelled or name in ("Load", "Store", "Del"):
                        return Ref("astclass", name)
                    return Ref("libfunc", f"ast.{name}")
                return Ref("libfunc", f"{v.name}.{name}")
            if v.kind == "class":
                return Ref("classattr", (v.name, name))
            raise Unsupported(f"attribute {name} of {v!r}")
        if isinstance(v, Obj):
            if name in v.attrs:
                return v.attrs[name]
            cc = self.w.classes.get(v.cls, {})
            if name in cc.get("property_of", {}):
                return v.attrs[cc["property_of"][name]]
            return Bound(v, name)
        if isinstance(v, Z):
            s = v.t.sort()
            if s == self.S.Py:
                if name in ("lower", "strip", "format") and self.known_class(v) == "PStr":
                    # a str method that shares its name with a node field (Slice.lower)
                    return Bound(v, name)
                if name in ("keys", "values") and not self.spec_mode and \
                        self.known_class(v) not in self.S.classes and \
                        self.entails(self.P.is_PDict(v.t)):
                    # a dict method that shares its name with a node field (Dict.keys)
                    return Bound(v, name)
                if name in self.S.owners or name.startswith("_") or name == "empty":
                    return self.get_field(v, name, line)
                return Bound(v, name)
            return Bound(v, name)
        if isinstance(v, (CList, Tup)):
            return Bound(v, name)
        if isinstance(v, Bound) and isinstance(v.obj, Ref):
            raise Unsupported(f"attribute chain {v!r}.{name}")
        raise Unsupported(f"attribute {name} of {v!r}")

    def ev_Subscript(self, e, env):
        v = self.ev(e.value, env)
        if isinstance(v, Ref) and v.kind in ("typing", "class"):
            return v      # Generic[...] subscription
        if isinstance(e.slice, ast.Slice):
            lo = self.ev(e.slice.lower, env) if e.slice.lower is not None else None
            hi = self.ev(e.slice.upper, env) if e.slice.upper is not None else None
            if e.slice.step is not None:
                raise Unsupported("slice step")
            return self.slice_(v, lo, hi, e.lineno)
        i = self.ev(e.slice, env)
        return self.index_(v, i, e.lineno)

    def index_(self, v, i, line=None):
        S = self.S
        if isinstance(v, (Tup, CList)):
            if isinstance(i, Z) and z3.is_int_value(z3.simplify(i.t)):
                k = z3.simplify(i.t).as_long()
                if -len(v.items) <= k < len(v.items):
                    return v.items[k]
                raise RaiseSig("IndexError", line, implicit=True)
            raise Unsupported("symbolic index into concrete tuple")
        if isinstance(v, Obj) and v.cls == "dict":
            return self.map_get(v, i, line)
        if isinstance(v, Z) and v.t.sort() == S.Py and self.entails(self.P.is_PDict(v.t)):
            # d[k] on a dict value: KeyError unless the key is present
            k = self.to_py(i)
            self.oblige("safety", "KeyError:key-present", S.contains(self.P.dkeys(v.t), k), line)
            return Z(S.assoc(self.P.dkeys(v.t), self.P.dvals(v.t), k), origin="dict lookup")
        if isinstance(v, Z) and v.t.sort() == S.Py:
            if v.fresh != "deep":
                pass
            v = Z(self.to_list(v, line), fresh=v.fresh)
        if isinstance(v, Z) and v.t.sort() == S.PyList:
            idx = self.to_int(i, line, "index")
            n = S.len_l(v.t)
            self.oblige("safety", "IndexError:index-in-range",
                        z3.And(idx >= -n, idx < n), line)
            k = z3.simplify(idx)
            if z3.is_int_value(k) and k.as_long() >= 0:
                t = v.t
                for _ in range(k.as_long()):
                    t = S.tail(t)
                r = S.head(t)
            else:
                r = S.nth(v.t, z3.If(idx < 0, idx + n, idx))
            return Z(r, fresh="deep" if v.fresh == "deep" else "no",
                     origin=f"{v.origin or '?'}[…]")
        raise Unsupported(f"subscript of {v!r}")

    def slice_(self, v, lo, hi, line=None):
        S = self.S
        if isinstance(v, Z) and (v.t.sort() == z3.StringSort() or (
                v.t.sort() == S.Py and self.entails(self.P.is_PStr(v.t)))):
            # s[lo:hi] of a string (non-negative constant bounds)
            sv = v.t if v.t.sort() == z3.StringSort() else self.P.s(v.t)
            n = z3.Length(sv)

            def bound(x, default):
                if x is None:
                    return default
                k = z3.simplify(self.to_int(x, line, "slice"))
                if not (z3.is_int_value(k) and k.as_long() >= 0):
                    raise Unsupported("string slice with a symbolic or negative bound")
                return z3.If(k > n, n, k)
            a, b_ = bound(lo, z3.IntVal(0)), bound(hi, n)
            return Z(z3.SubString(sv, a, z3.If(b_ > a, b_ - a, 0)), origin="string slice")
        if isinstance(v, (Z, CList, Tup)):
            l = self.to_list(v, line)
            n = S.len_l(l)

            def norm(x):
                k = self.to_int(x, line, "slice")
                k = z3.If(k < 0, k + n, k)
                return z3.If(k < 0, 0, z3.If(k > n, n, k))
            r = l
            if hi is not None:
                r = S.take(r, norm(hi))
            if lo is not None:
                r = S.drop(r, norm(lo))
            return Z(r, fresh="shallow", origin="slice")
        raise Unsupported(f"slice of {v!r}")

    def ev_BoolOp(self, e, env):
        is_and = isinstance(e.op, ast.And)
        # evaluate left to right; later operands under the guard of the earlier ones
        saved = len(self.ctx.pc)
        saved_known = dict(self.ctx.known)
        vals = []
        guards = []
        for k, sub in enumerate(e.values):
            v = self.ev(sub, env)
            b = self.to_bool(v)
            vals.append((v, b))
            if k < len(e.values) - 1:
                g = b if is_and else z3.Not(b)
                guards.append(g)
                self.ctx.pc.append(g)
                self.learn(g)
        # obligations created under guards keep their guarded pc; now drop the guards
        extra = self.ctx.pc[saved:]
        del self.ctx.pc[saved:]
        self.ctx.known = saved_known
        # keep non-guard assumptions (e.g. safety facts) in guarded form
        gset = {g.get_id() for g in guards}
        seen_guards = []
        for c in extra:
            if c.get_id() in gset:
                seen_guards.append(c)
            else:
                self.ctx.pc.append(z3.Implies(z3.And(seen_guards), c) if seen_guards else c)
        allbool = all(isinstance(v, Z) and v.t.sort() == z3.BoolSort() for v, _ in vals)
        if allbool:
            bs = [b for _, b in vals]
            return Z(z3.And(bs) if is_and else z3.Or(bs))
        # value semantics: result is first falsy (and) / truthy (or) operand, else the last
        try:
            r = self.to_py(vals[-1][0])
            for v, b in reversed(vals[:-1]):
                r = z3.If(b, r, self.to_py(v)) if is_and else z3.If(b, self.to_py(v), r)
            return Z(r)
        except Unsupported:
            bs = [b for _, b in vals]
            return Z(z3.And(bs) if is_and else z3.Or(bs))

    def ev_UnaryOp(self, e, env):
        v = self.ev(e.operand, env)
        if isinstance(e.op, ast.Not):
            return Z(z3.Not(self.to_bool(v)))
        if isinstance(e.op, ast.USub):
            return Z(-self.to_int(v, e.lineno))
        raise Unsupported("unary op")

    def ev_BinOp(self, e, env):
        a = self.ev(e.left, env)
        b = self.ev(e.right, env)
        S = self.S
        if isinstance(e.op, ast.Add):
            if self._listy(a) or self._listy(b):
                return Z(S.concat(self.to_list(a, e.lineno), self.to_list(b, e.lineno)),
                         fresh="shallow", origin="list +")
            if self._stry(a) or self._stry(b):
                return Z(z3.Concat(self.to_str(a, e.lineno), self.to_str(b, e.lineno)))
            return Z(self.to_int(a, e.lineno) + self.to_int(b, e.lineno))
        if isinstance(e.op, ast.Sub):
            return Z(self.to_int(a, e.lineno) - self.to_int(b, e.lineno))
        if isinstance(e.op, ast.Mult):
            return Z(self.to_int(a, e.lineno) * self.to_int(b, e.lineno))
        if isinstance(e.op, ast.BitOr):
            raise Unsupported("| operator")
        raise Unsupported(f"binary op {type(e.op).__name__}")

    def _listy(self, v):
        return isinstance(v, CList) or (isinstance(v, Z) and v.t.sort() == self.S.PyList)

    def _stry(self, v):
        return isinstance(v, Z) and v.t.sort() == z3.StringSort()

    def ev_IfExp(self, e, env):
        c = self.to_bool(self.ev(e.test, env))
        if self.branch(c):
            return self.ev(e.body, env)
        return self.ev(e.orelse, env)

    def ev_Compare(self, e, env):
        left = self.ev(e.left, env)
        res = []
        for op, rhs in zip(e.ops, e.comparators):
            right = self.ev(rhs, env)
            res.append(self.compare(op, left, right, e.lineno))
            left = right
        return Z(z3.And(res) if len(res) > 1 else res[0])

    def compare(self, op, a, b, line):
        S, P = self.S, self.P
        if isinstance(op, (ast.Eq, ast.NotEq)):
            r = self.eq(a, b, line)
            return r if isinstance(op, ast.Eq) else z3.Not(r)
        if isinstance(op, (ast.Is, ast.IsNot)):
            r = self.is_(a, b, line)
            return r if isinstance(op, ast.Is) else z3.Not(r)
        if isinstance(op, (ast.In, ast.NotIn)):
            r = self.contains_(b, a, line)
            return r if isinstance(op, ast.In) else z3.Not(r)
        # ordering: ints only (str/other -> TypeError obligation)
        x = self.to_int(a, line, "ordering-operand")
        y = self.to_int(b, line, "ordering-operand")
        return {ast.Lt: x < y, ast.LtE: x <= y, ast.Gt: x > y, ast.GtE: x >= y}[type(op)]

    def is_(self, a, b, line):
        # type(x) is C
        for x, y in ((a, b), (b, a)):
            if isinstance(x, Bound) and x.name == "__type__" and isinstance(y, Ref):
                return self.isinstance_(x.obj, y)
        # type(x) is type(y): classes are unique objects, so identity of the two is equality of the
        # (uninterpreted) type_of values
        if isinstance(a, Bound) and a.name == "__type__" and isinstance(b, Bound) and b.name == "__type__":
            return self.to_py(a) == self.to_py(b)
        # identity: only meaningful for singletons / classes in term view
        if isinstance(a, Ref) and isinstance(b, Ref):
            return z3.BoolVal(a.kind == b.kind and a.name == b.name)
        for x, y in ((a, b), (b, a)):
            if isinstance(y, Z) and y.t.sort() == self.S.Py and isinstance(x, Z):
                ys = z3.simplify(y.t)
                if z3.is_app(ys) and ys.decl().name() in ("PNone",):
                    return self.to_py(x) == ys
            if isinstance(y, Z) and y.t.sort() == z3.BoolSort() and isinstance(x, Z) \
                    and (z3.is_true(y.t) or z3.is_false(y.t)):
                return self.to_py(x) == self.P.PBool(y.t)
            if y is None and isinstance(x, Z):
                return self.to_py(x) == self.P.PNone
        if isinstance(a, Z) and isinstance(b, Z) and a.t.sort() == b.t.sort() == self.S.Py:
            if a.t.eq(b.t):
                return z3.BoolVal(True)
            for y in (a, b):
                ys = z3.simplify(y.t)
                if z3.is_app(ys) and ys.decl().name() == "PObj" and z3.is_int_value(ys.arg(0)):
                    return a.t == b.t     # identity against a unique marker object
            # identity of two arbitrary objects is not expressible in term view: an unknown that
            # can only hold when the terms are equal
            f = self.w.ufun("same_object", self.S.Py, self.S.Py, z3.BoolSort())
            self.ctx.notes.append("object identity (`is`) abstracted to an uninterpreted predicate")
            return z3.And(f(a.t, b.t), a.t == b.t)
        if isinstance(a, Ref) or isinstance(b, Ref):
            return z3.BoolVal(False)
        for x, y in ((a, b), (b, a)):
            if isinstance(x, (Bound, Obj)) and (y is None or (
                    isinstance(y, Z) and y.t.sort() == self.S.Py and z3.is_app(z3.simplify(y.t))
                    and z3.simplify(y.t).decl().name() == "PNone")):
                return z3.BoolVal(False)        # a bound method / object is not None
        raise Unsupported(f"`is` between {a!r} and {b!r}")

    def contains_(self, container, item, line):
        S = self.S
        if isinstance(container, (Tup, CList)):
            return z3.Or([self.eq(item, x, line) for x in container.items] or [z3.BoolVal(False)])
        if isinstance(container, Obj) and container.cls == "dict":
            return self.map_has(container, item, line)
        if isinstance(container, Obj) and container.cls == "pyset":
            f = self.w.ufun("set_member", self.S.Py, self.S.Py, z3.BoolSort())
            return f(container.attrs["id"].t, self.to_py(item))
        if isinstance(container, Z):
            if container.t.sort() == S.PyList:
                return S.contains(container.t, self.to_py(item))
            if container.t.sort() == z3.StringSort():
                return z3.Contains(container.t, self.to_str(item, line))
            if container.t.sort() == S.Py:
                P = self.P
                t = container.t
                self.oblige("safety", "TypeError:not-iterable-in",
                            z3.Or(P.is_PList(t), P.is_PTuple(t), P.is_PDict(t), P.is_PStr(t)), line)
                it = self.to_py(item)
                return z3.If(P.is_PList(t), S.contains(P.items(t), it),
                             z3.If(P.is_PTuple(t), S.contains(P.titems(t), it),
                                   z3.If(P.is_PDict(t), S.contains(P.dkeys(t), it),
                                         z3.And(P.is_PStr(it), z3.Contains(P.s(t), P.s(it))))))
        raise Unsupported(f"`in` on {container!r}")

    def ev_Call(self, e, env):
        f = self.ev(e.func, env)
        args = []
        for a in e.args:
            if isinstance(a, ast.Starred):
                raise Unsupported("*args at call site")
            args.append(a)
        if isinstance(f, Ref) and f.kind == "typing" and f.name == "cast":
            return self.ev(args[1], env)
        if isinstance(f, Ref) and f.kind == "builtin" and f.name == "implies" and len(args) == 2:
            # guarded evaluation: the consequent is evaluated under the antecedent
            a = self.to_bool(self.ev(args[0], env))
            saved = len(self.ctx.pc)
            saved_known = dict(self.ctx.known)
            self.ctx.pc.append(a)
            self.learn(a)
            b = self.to_bool(self.ev(args[1], env))
            extra = self.ctx.pc[saved + 1:]
            del self.ctx.pc[saved:]
            self.ctx.known = saved_known
            for c in extra:
                self.ctx.pc.append(z3.Implies(a, c))
            return Z(z3.Implies(a, b))
        if isinstance(f, Ref) and f.kind == "builtin" and f.name == "old" and len(args) == 1:
            oe = env.get("__old__")
            if oe is None:
                raise Unsupported("old() outside a postcondition")
            e2 = dict(env)
            e2.update({k: v for k, v in oe.items() if v is not None})
            return self.ev(args[0], e2)
        # a few builtins need unevaluated generator arguments
        if isinstance(f, Ref) and f.kind == "builtin" and f.name in ("any", "all", "next") \
                and args and isinstance(args[0], (ast.GeneratorExp, ast.ListComp)):
            return self.w.builtins[f.name](self, [args[0]] + [self.ev(a, env) for a in args[1:]],
                                           {}, e, env)
        if isinstance(f, Bound) and isinstance(f.obj, Obj) and f.obj.cls == "logger":
            return Z(self.P.PNone)       # logging calls are dropped (their arguments too)
        if isinstance(e.func, ast.Attribute) and e.func.attr in (
                "append", "remove", "pop", "extend", "insert", "clear") and not e.keywords:
            r = self.list_mutation(e, env)
            if r is not NotImplemented:
                return r
        argv = [self.ev(a, env) for a in args]
        kw = {}
        for k in e.keywords:
            if k.arg is None:
                kw["**"] = self.ev(k.value, env)
            else:
                kw[k.arg] = self.ev(k.value, env)
        self._inplace_generic = False
        r = self.call(f, argv, kw, e, env)
        if getattr(self, "_inplace_generic", False) and isinstance(e.func, ast.Attribute) and \
                e.func.attr == "generic_visit" and e.args and isinstance(e.args[-1], ast.Name) \
                and e.args[-1].id in env and isinstance(r, Z):
            # NodeTransformer.generic_visit mutates its argument in place and returns that same
            # object: the caller's variable now denotes the visited node as well
            env[e.args[-1].id] = r
        self._inplace_generic = False
        return r

    def list_mutation(self, e, env):
        """x.append(v) & co. on a Python list: functional update of the location holding it
        (local name, attribute of an executor object, or field of a node — the latter is a heap
        write and produces a frame obligation)."""
        S = self.S
        base = e.func.value
        cur = self.ev(base, env)
        if not (isinstance(cur, Z) and cur.t.sort() == S.PyList) and not isinstance(cur, CList):
            if isinstance(cur, Z) and cur.t.sort() == S.Py:
                return NotImplemented
            return NotImplemented
        op = e.func.attr
        args = [self.ev(a, env) for a in e.args]
        line = e.lineno
        if isinstance(cur, CList):
            if op == "append":
                new = CList(cur.items + [args[0]])
                self.store_to(base, new, env, line)
                return Z(self.P.PNone)
            return NotImplemented
        l = cur.t
        ret = Z(self.P.PNone)
        if op == "append":
            new = S.concat(l, S.cons(self.to_py(args[0]), S.nil))
        elif op == "extend":
            new = S.concat(l, self.to_list(args[0], line))
        elif op == "remove":
            x = self.to_py(args[0])
            self.oblige("safety", "ValueError:list.remove(x)-x-not-in-list", S.contains(l, x), line)
            new = S.remove_first(l, x)
        elif op == "pop" and not args:
            self.oblige("safety", "IndexError:pop-from-empty-list", S.is_cons(l), line)
            n = S.len_l(l)
            new = S.take(l, n - 1)
            ret = Z(S.nth(l, n - 1))
        elif op == "clear":
            new = S.nil
        else:
            return NotImplemented
        if cur.fresh == "no":
            self.frame_write(cur, f"list.{op} on a list that was not allocated here", line)
        self.store_to(base, Z(new, fresh=cur.fresh, origin=cur.origin), env, line)
        return ret

    def store_to(self, target_expr, value, env, line):
        if isinstance(target_expr, ast.Name):
            old = env.get(target_expr.id)
            env[target_expr.id] = value
            # aliases of the same list term see the mutation too
            if isinstance(old, Z) and isinstance(value, Z):
                for k, v in list(env.items()):
                    if k == "_out0":
                        continue      # ghost snapshot (a copy) made by the comprehension rule
                    if k != target_expr.id and isinstance(v, Z) and v.t.sort() == old.t.sort() \
                            and v.t.eq(old.t):
                        env[k] = value
            return
        if isinstance(target_expr, ast.Attribute):
            b = self.ev(target_expr.value, env)
            if isinstance(b, Obj):
                b.attrs[target_expr.attr] = value
                return
            if isinstance(b, Z) and b.t.sort() == self.S.Py:
                newt = self.update_field(b, target_expr.attr, value, line)
                self.rebind_aliases(b, newt, env)
                return
        raise Unsupported(f"in-place list update through {ast.dump(target_expr)[:60]}")

    def ev_Lambda(self, e, env):
        return Opaque("lambda")

    def ev_Await(self, e, env):
        # TRUSTED model: awaiting a call runs it to completion once and yields its result
        return self.ev(e.value, env)

    def ev_ListComp(self, e, env):
        return self.comprehension(e, env)

    def ev_GeneratorExp(self, e, env):
        return self.comprehension(e, env)

    def ev_Dict(self, e, env):
        if not e.keys:
            return self.new_map()
        if all(isinstance(k, ast.Constant) and isinstance(k.value, str) for k in e.keys):
            # a dict display with literal string keys: kept concrete (used for **kwargs)
            o = Obj("cdict", {}, fresh="shallow")
            for k, v in zip(e.keys, e.values):
                o.attrs[k.value] = self.ev(v, env)
            return o
        raise Unsupported("non-empty dict literal")

    def ev_DictComp(self, e, env):
        from . import loops
        r = loops.run_dict_comprehension(self, e, env)
        if r is None:
            raise Unsupported("dict comprehension without a sidecar invariant (dictcomps)")
        return r

    def comprehension(self, e, env):
        if len(e.generators) == 2:
            g1, g2 = e.generators
            if isinstance(g1.target, ast.Name) and isinstance(g2.iter, ast.Name) and \
                    g2.iter.id == g1.target.id and not g1.ifs and not g1.is_async and not g2.is_async:
                # [elt for X in S for a in X ...]  ==  [elt for a in flat(S) ...]: one generator
                # over the concatenation of the inner sequences (X itself must not occur in elt)
                used = {n.id for n in ast.walk(e.elt) if isinstance(n, ast.Name)} | \
                    {n.id for c in g2.ifs for n in ast.walk(c) if isinstance(n, ast.Name)}
                if g1.target.id not in used:
                    flat = ast.Call(ast.Name("flat", ast.Load()), [g1.iter], [])
                    e2 = type(e)(e.elt, [ast.comprehension(g2.target, flat, g2.ifs, 0)])
                    ast.copy_location(e2, e)
                    ast.fix_missing_locations(e2)
                    self._comp_alias = getattr(self, "_comp_alias", {})
                    self._comp_alias[id(e2)] = e
                    return self.comprehension(e2, env)
            if self.contract.get("comps"):
                from . import loops
                r = loops.run_comprehension(self, e, env)
                if r is not None:
                    return r
        if len(e.generators) != 1:
            raise Unsupported("multi-generator comprehension")
        if self.contract.get("comps"):
            from . import loops
            r = loops.run_comprehension(self, e, env)
            if r is not None:
                return r
        g = e.generators[0]
        seq = self.ev(g.iter, env)
        if isinstance(seq, (CList, Tup)):
            out = []
            for it in seq.items:
                env2 = dict(env)
                self.bind_target(g.target, it, env2)
                ok = True
                for c in g.ifs:
                    if not self.branch(self.to_bool(self.ev(c, env2))):
                        ok = False
                        break
                if ok:
                    out.append(self.ev(e.elt, env2))
            try:
                return Z(self.S.pylist([self.to_py(i) for i in out]), fresh="shallow",
                         origin="comprehension")
            except Unsupported:
                return CList(out)
        if isinstance(seq, Z) and seq.t.sort() == self.S.PyList and isinstance(g.target, ast.Name):
            # map patterns over a symbolic list
            h = self.w.comprehension_hook
            r = h(self, e, g, seq, env) if h else None
            if r is not None:
                return r
        if isinstance(seq, Z) and seq.t.sort() == self.S.Py and isinstance(g.target, ast.Name):
            seq = Z(self.to_list(seq, e.lineno), fresh=seq.fresh, origin=seq.origin)
            r = self.w.comprehension_hook(self, e, g, seq, env)
            if r is not None:
                return r
        raise Unsupported(f"comprehension over symbolic sequence (line {e.lineno})")

    def bind_target(self, target, value, env):
        if isinstance(target, ast.Name):
            env[target.id] = value
        elif isinstance(target, (ast.Tuple, ast.List)):
            if isinstance(value, (Tup, CList)):
                if len(value.items) != len(target.elts):
                    raise RaiseSig("ValueError", getattr(target, "lineno", None), implicit=True)
                for t, v in zip(target.elts, value.items):
                    self.bind_target(t, v, env)
            elif isinstance(value, Z) and value.t.sort() == self.S.Py:
                # an element of a symbolic sequence: must be a tuple / list of that many items
                self.bind_target_assign(target, value, env, getattr(target, "lineno", None))
            else:
                raise Unsupported("unpacking a symbolic value")
        else:
            raise Unsupported(f"assignment target {type(target).__name__}")

    # ------------------------------------------------------------------ calls
    def call(self, f, args, kw, e, env):
        line = getattr(e, "lineno", None)
        if isinstance(f, Ref):
            if f.kind == "builtin":
                return self.w.builtins[f.name](self, args, kw, e, env)
            if f.kind == "astclass":
                if f.name in ("Load", "Store", "Del"):
                    return Z(self.w.opaque("ctx"))
                if "**" in kw:
                    d = kw.pop("**")
                    if not (isinstance(d, Obj) and d.cls == "cdict"):
                        raise Unsupported("**kwargs of a non-literal dict")
                    for k_, v_ in d.attrs.items():
                        if k_ not in self.all_fields(f.name):
                            # ast constructors accept unknown keywords as plain attributes;
                            # nothing in the node model can hold them
                            raise Unsupported(f"ast.{f.name}(**{{{k_!r}: …}}): not a field")
                        kw[k_] = v_
                return self.construct(f.name, args, kw, line)
            if f.kind == "libfunc":
                h = self.w.libfuncs.get(f.name)
                if h is None:
                    raise Unsupported(f"library function {f.name} not modelled")
                return h(self, args, kw, e, env)
            if f.kind == "func":
                if f.name in self.contract.get("inline", []):
                    # the caller's contract asks for the callee's BODY here (its contract is too
                    # weak for what the caller must show, e.g. aliasing of a default argument)
                    from . import extract as _x
                    fnode_, _, _, _ = _x.find(self.w.contracts[f.name].get("source", f.name))
                    return self.inline_call(fnode_, None, args, kw, line)
                return self.apply_contract(f.name, None, args, kw, line)
            if f.kind == "inline":
                return self.inline_call(f.extra, None, args, kw, line,
                                        closure=getattr(f, "closure", None))
            if f.kind == "spec":
                return self.w.specs[f.name].apply(self, args)
            if f.kind == "exc":
                return Ref("excinst", f.name)
            if f.kind == "type":
                return self.w.builtins[f.name](self, args, kw, e, env)
            if f.kind == "class":
                h = self.w.class_ctor.get(f.name)
                if h:
                    return h(self, args, kw, e, env)
                cc = self.w.classes.get(f.name)
                if cc is not None and cc.get("ctor_runs_init"):
                    # the real __init__ of the class is executed on a new object
                    o = Obj(f.name, {}, fresh="shallow")
                    self.call_method(o, "__init__", args, kw, line)
                    return o
                if cc is not None and ((not args and not kw) or cc.get("ctor_any_args")):
                    from .contracts import eval_spec_expr
                    o = Obj(f.name, {}, fresh="shallow")
                    for a_, text in cc.get("init_state", {}).items():
                        o.attrs[a_] = eval_spec_expr(self, text, {})
                    # an instance of a class nested in the running function sees its locals
                    o.closure_env = {k_: v_ for k_, v_ in env.items() if k_ in cc.get("closure_names", [])}
                    return o
                raise Unsupported(f"instantiating {f.name}")
            if f.kind == "classattr":
                cls, meth = f.name
                # explicit base-class call  Base.method(self, ...)
                if args and isinstance(args[0], Obj):
                    return self.call_method(args[0], meth, args[1:], kw, line, cls_override=cls)
            raise Unsupported(f"call of {f!r}")
        if isinstance(f, Bound):
            if isinstance(f.obj, Obj) and f.obj.cls not in ("dict", "cdict"):
                return self.call_method(f.obj, f.name, args, kw, line, via_super=f.via_super)
            return self.w.value_methods(self, f.obj, f.name, args, kw, line)
        if isinstance(f, Opaque):
            raise Unsupported(f"call of opaque {f.what}")
        if isinstance(f, Z) and f.t.sort() == self.S.Py:
            # call of an opaque callable value (executor, callback): recorded in the ghost call
            # log; its result is an unconstrained fresh value
            if kw:
                raise Unsupported("keyword arguments in a call of a symbolic callable")
            r = Z(self.fresh("call_result", self.S.Py), origin="result of an opaque call")
            self.ctx.ghost_calls.append((f.t, [self.to_py(a) for a in args], r.t))
            # the protocol the opaque callable is ASSUMED to follow (stated in the contract)
            for text in self.contract.get("opaque_call_assumes", []):
                from .contracts import eval_spec_expr
                self.assume(self.to_bool(eval_spec_expr(self, text, {"call_result": r})))
            return r
        if isinstance(f, Z):
            raise Unsupported("call of a symbolic value")
        raise Unsupported(f"call of {f!r}")

    def call_method(self, obj, name, args, kw, line, via_super=False, cls_override=None):
        h = self.w.obj_methods.get((obj.cls if cls_override is None else cls_override, name)) \
            or self.w.obj_methods.get(("*", name))
        ckey = cls_override or obj.cls
        cc = self.w.classes.get(obj.cls)
        if cc is not None:
            r = self.w.visitor_call(self, obj, cc, name, args, kw, line, via_super, cls_override)
            if r is not NotImplemented:
                return r
        if h:
            return h(self, obj, args, kw, line)
        mkey = self.w.method_key(ckey, name)
        if mkey in self.w.contracts:
            return self.apply_contract(mkey, obj, args, kw, line)
        # a method of the class that carries no contract: inline it
        try:
            from . import extract
            cnode, _, _, _ = extract.find(ckey)
            for s_ in cnode.body:
                if isinstance(s_, ast.FunctionDef) and s_.name == name:
                    return self.inline_call(s_, obj, args, kw, line)
        except extract.ExtractError:
            pass
        raise Unsupported(f"method {ckey}.{name} has no contract/model")

    def inline_call(self, fnode, self_obj, args, kw, line, closure=None):
        check_decorators(fnode)
        depth = getattr(self, "_inline_depth", 0)
        if depth > 3:
            raise Unsupported(f"inlining depth exceeded at {fnode.name}")
        params = [a.arg for a in fnode.args.args]
        env = {}
        if self_obj is not None:
            env[params[0]] = self_obj
            params = params[1:]
        if len(args) > len(params) or fnode.args.vararg or fnode.args.kwarg:
            raise Unsupported(f"inline call of {fnode.name}: argument shape")
        for p, a in zip(params, args):
            env[p] = a
        for k, a in kw.items():
            if k not in params:
                raise Unsupported(f"inline call of {fnode.name}: unknown keyword {k}")
            env[k] = a
        nd = len(fnode.args.defaults)
        allp = [a.arg for a in fnode.args.args]
        for i, p in enumerate(allp):
            if p in env:
                continue
            di = i - (len(allp) - nd)
            if di < 0:
                raise Unsupported(f"inline call of {fnode.name}: missing argument {p}")
            env[p] = default_value(self, fnode.args.defaults[di])
        if closure:
            # the locals of the defining function are visible (parameters shadow them)
            env = dict({k: v for k, v in closure.items() if k not in env}, **env)
        saved_fn = self.fn
        self._inline_depth = depth + 1
        self.fn = fnode
        try:
            self.run_block(fnode.body, env)
            return Z(self.P.PNone)
        except ReturnSig as r:
            return r.value
        finally:
            self.fn = saved_fn
            self._inline_depth = depth

    def apply_contract(self, key, self_obj, args, kw, line):
        from .contracts import apply_contract
        return apply_contract(self, key, self_obj, args, kw, line)

    # ------------------------------------------------------------------ dict model
    def new_map(self):
        """Python dict[str|Py -> Py] as z3 arrays (domain + values) in an executor record."""
        S = self.S
        dom = z3.K(S.Py, z3.BoolVal(False))
        val = z3.K(S.Py, self.P.PNone)
        return Obj("dict", {"dom": dom, "val": val, "n": z3.IntVal(0)}, fresh="shallow")

    def map_has(self, m, k, line=None):
        return z3.Select(m.attrs["dom"], self.to_py(k))

    def map_get(self, m, k, line=None):
        kk = self.to_py(k)
        self.oblige("safety", "KeyError:key-present", z3.Select(m.attrs["dom"], kk), line)
        return Z(z3.Select(m.attrs["val"], kk))

    def map_set(self, m, k, v, line=None):
        kk = self.to_py(k)
        m.attrs["n"] = z3.If(z3.Select(m.attrs["dom"], kk), m.attrs["n"], m.attrs["n"] + 1)
        m.attrs["dom"] = z3.Store(m.attrs["dom"], kk, z3.BoolVal(True))
        m.attrs["val"] = z3.Store(m.attrs["val"], kk, self.to_py(v))

    # ------------------------------------------------------------------ statements
    def run_block(self, stmts, env):
        for s in stmts:
            m = getattr(self, "st_" + type(s).__name__, None)
            if m is None:
                raise Unsupported(f"statement {type(s).__name__} (line {s.lineno})")
            m(s, env)

    def st_Expr(self, s, env):
        if isinstance(s.value, ast.Constant):
            return      # docstring
        self.ev(s.value, env)

    def st_Pass(self, s, env):
        pass

    def st_Return(self, s, env):
        raise ReturnSig(self.ev(s.value, env) if s.value is not None else Z(self.P.PNone))

    def st_Assert(self, s, env):
        c = self.to_bool(self.ev(s.test, env))
        allowed = self.contract.get("raises", {}).get("AssertionError")
        if allowed is not None:
            if not self.branch(c):
                raise RaiseSig("AssertionError", s.lineno)
            return
        self.oblige("safety", "AssertionError:assert", c, s.lineno)

    def st_Raise(self, s, env):
        if s.exc is None:
            raise Unsupported("bare raise")
        ex = s.exc
        name = None
        if isinstance(ex, ast.Call) and isinstance(ex.func, ast.Name):
            name = ex.func.id
        elif isinstance(ex, ast.Name):
            name = ex.id
        if name is None:
            raise Unsupported("raise of computed exception")
        raise RaiseSig(name, s.lineno)

    def st_Assign(self, s, env):
        v = self.ev(s.value, env)
        for t in s.targets:
            self.assign(t, v, env, s.lineno)

    def st_AnnAssign(self, s, env):
        if s.value is not None:
            self.assign(s.target, self.ev(s.value, env), env, s.lineno)

    def st_AugAssign(self, s, env):
        cur = self.ev(s.target, env)
        rhs = self.ev(s.value, env)
        fake = ast.BinOp(left=ast.Constant(0), op=s.op, right=ast.Constant(0))
        saved = self.ev
        vals = iter([cur, rhs])

        def ev_once(e, env_):
            return next(vals)
        self.ev = ev_once
        try:
            fake.lineno = s.lineno
            r = self.ev_BinOp(fake, env)
        finally:
            self.ev = saved
        if self._listy(cur) and isinstance(cur, Z):
            self.frame_write(cur, f"augmented assignment to list", s.lineno)
        self.assign(s.target, r, env, s.lineno)

    def assign(self, target, v, env, line):
        if isinstance(target, ast.Name):
            if target.id in env.get("__globals__", ()):
                self.global_value(target.id, env)
                self.ctx.globals_now[target.id] = v
                # a write to module state is a write to something that existed before the call
                mods = self.contract.get("modifies", [])
                if "*" not in mods and f"global.{target.id}" not in mods:
                    self.oblige_trivial("frame", f"write:global {target.id}", False, line,
                                        note=f"assignment to the module variable {target.id}")
                return
            env[target.id] = v
            return
        if isinstance(target, (ast.Tuple, ast.List)):
            self.bind_target_assign(target, v, env, line)
            return
        if isinstance(target, ast.Attribute):
            base = self.ev(target.value, env)
            if isinstance(base, Z) and base.t.sort() == self.S.Py and target.attr in self.S.owners \
                    and isinstance(target.value, (ast.Attribute, ast.Subscript)):
                # x.f.g = v: the node x.f is not held by a variable of its own, so the functional
                # update has to be written back into x as well (x.f := x.f[g := v])
                self.frame_write(base, f"store to .{target.attr}", line)
                newt = self.update_field(base, target.attr, v, line)
                self.assign(target.value, newt, env, line)
                return
            self.setattr_(base, target.attr, v, env, target.value, line)
            return
        if isinstance(target, ast.Subscript):
            base = self.ev(target.value, env)
            if isinstance(base, Obj) and base.cls == "dict":
                k = self.ev(target.slice, env)
                self.map_set(base, k, v, line)
                return
            if isinstance(base, Obj) and base.cls == "cdict" and \
                    isinstance(target.slice, ast.Constant) and isinstance(target.slice.value, str):
                base.attrs[target.slice.value] = v
                return
            h = self.w.subscript_store
            if h and h(self, target, base, v, env, line):
                return
            raise Unsupported(f"subscript store (line {line})")
        raise Unsupported(f"assign to {type(target).__name__}")

    def bind_target_assign(self, target, v, env, line):
        if isinstance(v, (Tup, CList)):
            if len(v.items) != len(target.elts):
                raise RaiseSig("ValueError", line, implicit=True)
            for t, x in zip(target.elts, v.items):
                self.assign(t, x, env, line)
            return
        if isinstance(v, Z) and v.t.sort() == self.S.Py:
            # unpacking an opaque value (e.g. what a callback returned): it must be a tuple or
            # list of exactly that many items
            P, S = self.P, self.S
            n = len(target.elts)
            items = z3.If(P.is_PTuple(v.t), P.titems(v.t), P.items(v.t))
            self.oblige("safety", "TypeError/ValueError:unpack", z3.And(
                z3.Or(P.is_PTuple(v.t), P.is_PList(v.t)), S.len_l(items) == n), line,
                note=f"unpacking into {n} targets")
            cur = items
            for t_ in target.elts:
                self.assign(t_, Z(S.head(cur), origin="unpacked item"), env, line)
                cur = S.tail(cur)
            return
        raise Unsupported(f"unpacking symbolic value (line {line})")

    def setattr_(self, base, attr, v, env, base_expr, line):
        if isinstance(base, Obj):
            base.attrs[attr] = v
            if base.fresh == "no" and base.cls != "self":
                self.frame_write_obj(base, attr, line)
            return
        if isinstance(base, Z) and base.t.sort() == self.S.Py:
            # in-place store on a node: functional update of every local alias of that term
            self.frame_write(base, f"store to .{attr}", line)
            if isinstance(attr, str) and attr not in self.S.owners and not attr.startswith("_"):
                raise Unsupported(f"store to unknown attribute {attr}")
            newt = self.update_field(base, attr, v, line)
            self.rebind_aliases(base, newt, env)
            return
        raise Unsupported(f"attribute store on {base!r}")

    def update_field(self, base, attr, v, line):
        S = self.S
        owners = S.owners.get(attr, [])
        if not owners:
            # ghost (non-field) attribute: recorded as a ghost fact on the new term
            return Z(base.t, fresh=base.fresh, origin=base.origin, known_cls=base.known_cls)
        cls = self.known_class(base)
        if cls is None or cls not in owners:
            ent = [c for c in owners if self.entails(S.rec(c)(base.t))]
            if not ent:
                raise Unsupported(f"store to .{attr} on node of unknown class")
            cls = ent[0]
        vals = []
        ff = set(base.fresh_fields)
        for fname, fty, q in S.fields[cls]:
            if fname == attr:
                vals.append(self.to_list(v, line) if q == "*" else self.to_py(v))
                if q == "*" and isinstance(v, Z) and v.fresh in ("shallow", "deep", "node"):
                    ff.add(fname)
                elif q == "*" and isinstance(v, CList):
                    ff.add(fname)
                elif q == "*":
                    ff.discard(fname)
            else:
                vals.append(S.acc(cls, fname)(base.t))
        fr = base.fresh
        if fr == "node" and all(f in ff for f, _, q in S.fields[cls] if q == "*"):
            fr = "shallow"
        return Z(S.mk(cls, vals), fresh=fr, origin=base.origin, known_cls=cls,
                 fresh_fields=tuple(sorted(ff)))

    def rebind_aliases(self, old, new, env):
        for k, val in list(env.items()):
            if isinstance(val, Z) and val.t.sort() == old.t.sort() and val.t.eq(old.t) \
                    and val.fresh == old.fresh:
                env[k] = Z(new.t, fresh=new.fresh, origin=val.origin, known_cls=new.known_cls,
                           fresh_fields=new.fresh_fields)

    def frame_write(self, v, what, line, need_lists=False):
        """Frame obligation: a write is allowed only on an object allocated during this call
        (or listed in the contract's `modifies`).  need_lists: the write also rewrites the
        object's child lists in place (NodeTransformer.generic_visit)."""
        if self.spec_mode:
            return
        mods = self.contract.get("modifies", [])
        if "*" in mods:
            return
        if v.origin is not None and v.origin in mods and v.origin.startswith("self."):
            return          # the object held in a field of self that the contract's frame names
        ok = v.fresh in ("shallow", "deep") or (v.fresh == "node" and not need_lists)
        if not ok and v.fresh == "node" and need_lists:
            cls = self.known_class(v)
            if cls in self.S.classes and all(f in v.fresh_fields
                                             for f, _, q in self.S.fields[cls] if q == "*"):
                ok = True
        self.oblige_trivial("frame", f"write:{what}", ok, line,
                            note=f"{what} on {'fresh' if ok else 'NON-FRESH'} object "
                                 f"({v.origin or 'unknown origin'})")

    def frame_write_obj(self, obj, attr, line):
        mods = self.contract.get("modifies", [])
        if "*" in mods or f"self.{attr}" in mods:
            return          # declared in the contract's frame
        self.oblige_trivial("frame", f"write:{obj.cls}.{attr}", obj.fresh != "no", line)

    def st_If(self, s, env):
        c = self.to_bool(self.ev(s.test, env))
        if self.branch(c):
            self.note_isinstance(s.test, env, True)
            self.run_block(s.body, env)
        else:
            self.note_isinstance(s.test, env, False)
            self.run_block(s.orelse, env)

    def note_isinstance(self, test, env, truth):
        pass

    def st_For(self, s, env):
        from .loops import run_for
        run_for(self, s, env)

    def st_While(self, s, env):
        from .loops import run_while
        run_while(self, s, env)

    def st_Break(self, s, env):
        raise BreakSig()

    def st_Continue(self, s, env):
        raise ContinueSig()

    def st_With(self, s, env):
        if len(s.items) != 1:
            raise Unsupported("multi-item with")
        mgr = self.ev(s.items[0].context_expr, env)
        if isinstance(mgr, Obj) and mgr.cls not in self.w.with_models and \
                self.w.has_method(mgr.cls, "__enter__") and self.w.has_method(mgr.cls, "__exit__"):
            # a context manager of the repository: its real __enter__ / __exit__ run (an exit
            # that returns a false value does not swallow exceptions; a true one is refused)
            none = Z(self.P.PNone)

            def enter(ex, m, line):
                ex.call_method(m, "__enter__", [], {}, line)

            def exit_(ex, m, line):
                r = ex.call_method(m, "__exit__", [none, none, none], {}, line)
                ex.oblige("safety", "with:__exit__ returns a false value (exceptions propagate)",
                          z3.Not(ex.to_bool(r)), line)
        elif not (isinstance(mgr, Obj) and mgr.cls in self.w.with_models):
            raise Unsupported(f"with over {mgr!r}")
        else:
            enter, exit_ = self.w.with_models[mgr.cls]
        enter(self, mgr, s.lineno)
        try:
            self.run_block(s.body, env)
        except (ReturnSig, RaiseSig, BreakSig, ContinueSig):
            exit_(self, mgr, s.lineno)
            raise
        exit_(self, mgr, s.lineno)

    def st_Try(self, s, env):
        if s.finalbody:
            # try/finally: the final block runs on every way out of the protected part (normal
            # end, return, raise, break, continue) and the way out is then resumed; an abandoned
            # path (PathPruned) stays abandoned
            try:
                self._try_core(s, env)
            except (ReturnSig, RaiseSig, BreakSig, ContinueSig):
                self.run_block(s.finalbody, env)
                raise
            self.run_block(s.finalbody, env)
            return
        self._try_core(s, env)

    def _try_core(self, s, env):
        try:
            self.run_block(s.body, env)
        except RaiseSig as r:
            for h in s.handlers:
                names = []
                if h.type is None:
                    names = None
                elif isinstance(h.type, ast.Name):
                    names = [h.type.id]
                elif isinstance(h.type, ast.Tuple):
                    names = [x.id for x in h.type.elts if isinstance(x, ast.Name)]
                if names is None or r.exc in names or "Exception" in names or "BaseException" in names:
                    if h.name:
                        env[h.name] = Ref("excinst", r.exc)
                    self.run_block(h.body, env)
                    return
            raise
        else:
            self.run_block(s.orelse, env)

    def st_FunctionDef(self, s, env):
        # a function defined inside the function under verification: executed inline where it is
        # called, in the environment of its definition (closure: read-only use of the outer locals)
        if s.decorator_list or s.args.vararg or s.args.kwarg:
            env[s.name] = Opaque(f"nested def {s.name}")
        else:
            r = Ref("inline", s.name, extra=s)
            r.closure = env
            env[s.name] = r

    def st_ClassDef(self, s, env):
        env[s.name] = Ref("class", self.w.nested_class_key(self.fn_key, s.name))

    def st_Import(self, s, env):
        for a in s.names:
            env[a.asname or a.name.split(".")[0]] = Ref("module", a.name)

    def st_ImportFrom(self, s, env):
        for a in s.names:
            try:
                env[a.asname or a.name] = self.resolve_global(a.name, frm=s.module)
            except Unsupported:
                env[a.asname or a.name] = Opaque(f"import {a.name}")

    def st_Global(self, s, env):
        for n in s.names:
            env.setdefault("__globals__", set()).add(n)

    def st_Delete(self, s, env):
        for t in s.targets:
            h = self.w.delete_hook
            if not (h and h(self, t, env, s.lineno)):
                raise Unsupported(f"del (line {s.lineno})")
