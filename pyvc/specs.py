"""Spec functions: ONE Python source text (in /verif/spec/*.py, restricted to the executor's
subset) that is (a) executed natively on real ast nodes by engine B / replay and (b) symbolically
executed here, path by path, into a z3 RecFunction definition.
"""
import ast
import z3

from .values import Z
from . import symex


def _sort_of(w, ann):
    S = w.S
    return {"Py": S.Py, "L": S.PyList, "B": z3.BoolSort(), "I": z3.IntSort(),
            "S": z3.StringSort()}[ann]


class SpecFn:
    def __init__(self, w, name, fnode, module_tree):
        self.w = w
        self.name = name
        self.fnode = fnode
        self.module_tree = module_tree
        self.params = []
        for a in fnode.args.args:
            ann = a.annotation.id if isinstance(a.annotation, ast.Name) else "Py"
            self.params.append((a.arg, ann))
        self.ret = fnode.returns.id if isinstance(fnode.returns, ast.Name) else "Py"
        sorts = [_sort_of(w, a) for _, a in self.params] + [_sort_of(w, self.ret)]
        self.f = z3.Function(name, *sorts)
        self._list = None
        self._flist = None
        self.defined = False
        self.wf_obligations = []

    def apply(self, ex, args):
        ts = []
        for (pn, ann), a in zip(self.params, args):
            ts.append(coerce(ex, a, ann))
        if len(ts) != len(self.params):
            raise symex.Unsupported(f"spec {self.name}: arity")
        return Z(self.f(*ts))

    # list lift  F__list(l) = [F(x) for x in l]   (extra params passed through)
    def list_lift(self):
        if self._list is None:
            S = self.w.S
            extra = [_sort_of(self.w, a) for _, a in self.params[1:]]
            g = z3.Function(self.name + "__list", S.PyList, *extra, S.PyList)
            l = z3.Const("l", S.PyList)
            ev = [z3.Const(f"e{i}", s) for i, s in enumerate(extra)]
            self.w.defs[g.name()] = (g, [l] + ev,
                                     z3.If(S.is_nil(l), S.nil,
                                           S.cons(self.f(S.head(l), *ev), g(S.tail(l), *ev))),
                                     True)
            self._list = g
        return self._list

    # fold lift  G__cat(l) = concat of G(x) for x in l     (G : Py -> PyList)
    def cat_lift(self):
        if self._flist is None:
            S = self.w.S
            extra = [_sort_of(self.w, a) for _, a in self.params[1:]]
            g = z3.Function(self.name + "__cat", S.PyList, *extra, S.PyList)
            l = z3.Const("l", S.PyList)
            ev = [z3.Const(f"e{i}", s) for i, s in enumerate(extra)]
            self.w.defs[g.name()] = (g, [l] + ev,
                                     z3.If(S.is_nil(l), S.nil,
                                           S.concat(self.f(S.head(l), *ev), g(S.tail(l), *ev))),
                                     True)
            self._flist = g
        return self._flist

    def child_op(self, kind):
        """Uninterpreted  F__mapc / G__foldc / P__allc : (Py, extra...) -> …, unfolded lazily at
        terms whose node class is known (class-directed definitional instances)."""
        key = "_co_" + kind
        if getattr(self, key, None) is None:
            S = self.w.S
            extra = [_sort_of(self.w, a) for _, a in self.params[1:]]
            rs = {"mapc": S.Py, "foldc": S.PyList, "allc": z3.BoolSort()}[kind]
            g = z3.Function(f"{self.name}__{kind}", S.Py, *extra, rs)
            self.w.lazy[g.name()] = (kind, self)
            setattr(self, key, g)
        return getattr(self, key)

    def child_inst(self, kind, t, extra, cls):
        S = self.w.S
        if kind == "mapc":
            lift = self.list_lift()
            if cls not in S.classes:
                return t
            return S.mapc_at(cls, t, lambda u: self.f(u, *extra), lambda l: lift(l, *extra))
        if kind == "foldc":
            lift = self.cat_lift()
            if cls not in S.classes:
                return S.nil
            return S.foldc_at(cls, t, lambda u: self.f(u, *extra), lambda l: lift(l, *extra))
        lift = self.all_lift()
        if cls not in S.classes:
            return z3.BoolVal(True)
        return S.allc_at(cls, t, lambda u: self.f(u, *extra), lambda l: lift(l, *extra))

    # all lift  P__all(l) = all(P(x) for x in l)            (P : Py -> Bool)
    def all_lift(self):
        if getattr(self, "_all", None) is None:
            S = self.w.S
            extra = [_sort_of(self.w, a) for _, a in self.params[1:]]
            g = z3.Function(self.name + "__all", S.PyList, *extra, z3.BoolSort())
            l = z3.Const("l", S.PyList)
            ev = [z3.Const(f"e{i}", s) for i, s in enumerate(extra)]
            self.w.defs[g.name()] = (g, [l] + ev,
                                     z3.If(S.is_nil(l), z3.BoolVal(True),
                                           z3.And(self.f(S.head(l), *ev), g(S.tail(l), *ev))),
                                     True)
            self._all = g
        return self._all


def coerce(ex, v, ann):
    S = ex.S
    if ann == "Py":
        return ex.to_py(v)
    if ann == "L":
        return ex.to_list(v)
    if ann == "B":
        return ex.to_bool(v)
    if ann == "I":
        return ex.to_int(v)
    if ann == "S":
        return ex.to_str(v)
    raise symex.Unsupported(f"spec sort {ann}")


def wrap_result(ex, v, ann):
    return coerce(ex, v, ann)


def load_spec_module(w, path):
    """Declare every top-level function of a spec file (two-phase: declare, then define)."""
    src = open(path).read()
    tree = ast.parse(src)
    fns = []
    for s in tree.body:
        if isinstance(s, ast.FunctionDef) and not s.name.startswith("_"):
            deco = [d.id for d in s.decorator_list if isinstance(d, ast.Name)]
            if "native_only" in deco:
                continue
            sf = SpecFn(w, s.name, s, tree)
            w.specs[s.name] = sf
            fns.append(sf)
    return fns


def _mentions(w, body, sf):
    """Is the definition (possibly mutually) recursive?  Conservative: mentions any spec symbol
    that is not a plain non-recursive helper defined earlier."""
    seen = set()
    stack = [body]
    while stack:
        t = stack.pop()
        if t.get_id() in seen:
            continue
        seen.add(t.get_id())
        if z3.is_app(t):
            n = t.decl().name()
            if n == sf.f.name() or n in w.lazy or n.endswith("__list") or n.endswith("__cat") \
                    or n.endswith("__all"):
                return True
            if n in w.defs and w.defs[n][3]:
                return True
            if n in w.specs and n not in w.defs and n != sf.f.name():
                return True    # forward reference: treat as recursive
            stack.extend(t.children())
    return False


def define_spec(w, sf):
    """Symbolically execute the spec body on symbolic parameters, merge paths into an ite."""
    S = w.S
    params = [z3.Const(f"{sf.name}.{pn}", _sort_of(w, ann)) for pn, ann in sf.params]
    worklist = [[]]
    paths = []
    while worklist:
        trace = worklist.pop()
        ctx = symex.Ctx(w, trace, worklist)
        ex = symex.Exec(w, f"spec::{sf.name}", sf.fnode, {}, sf.module_tree, spec_mode=True)
        ex.ctx = ctx
        env = {pn: Z(p) for (pn, _), p in zip(sf.params, params)}
        try:
            ex.run_block(sf.fnode.body, env)
            raise symex.Unsupported(f"spec {sf.name}: path falls off the end")
        except symex.ReturnSig as r:
            paths.append((list(ctx.pc), wrap_result(ex, r.value, sf.ret)))
            sf.wf_obligations.extend(ctx.obligations)
        except symex.PathPruned:
            continue
        except symex.RaiseSig as r:
            raise symex.Unsupported(f"spec {sf.name}: raises {r.exc}")
    if not paths:
        raise symex.Unsupported(f"spec {sf.name}: no path")
    body = paths[-1][1]
    for pc, r in reversed(paths[:-1]):
        body = z3.If(z3.And(pc) if pc else z3.BoolVal(True), r, body)
    w.defs[sf.f.name()] = (sf.f, params, body, _mentions(w, body, sf))
    sf.defined = True
    sf.npaths = len(paths)


def _known_classes(S, formulas):
    """term id -> class from positive recogniser conjuncts of the formulas."""
    known = {}
    stack = list(formulas)
    while stack:
        x = stack.pop()
        if not z3.is_app(x):
            continue
        if z3.is_and(x):
            stack.extend(x.children())
        elif x.decl().kind() == z3.Z3_OP_DT_IS and x.num_args() == 1:
            try:
                known[x.arg(0).get_id()] = x.decl().params()[0].name()
            except Exception:
                pass
    return known


def _spec_apps(w, formulas, visited):
    out = []
    stack = list(formulas)
    while stack:
        t = stack.pop()
        i = t.get_id()
        if i in visited:
            continue
        visited.add(i)
        if z3.is_quantifier(t):
            stack.append(t.body())
            continue
        if z3.is_app(t) and t.num_args() > 0:
            n = t.decl().name()
            if n in w.defs or n in w.lazy:
                out.append(t)
            stack.extend(t.children())
    return out


class WfSym:
    """wf(t): every field of node t (recursively) holds a value of the sort the grammar demands.
    Lazily unfolded, class-directed, as GUARDED instances  is_C(t) -> wf(t) == …"""

    def __init__(self, w):
        self.w = w
        S = w.S
        self.f = z3.Function("wf", S.Py, z3.BoolSort())
        w.lazy["wf"] = ("wf", self)
        self.lists = {}

    def typefact(self, ty, a):
        S = self.w.S
        P = S.Py
        if ty == "expr":
            return S.is_expr(a)
        if ty in ("arguments", "arg", "keyword", "comprehension"):
            return S.rec(ty)(a)
        if ty in ("operator", "unaryop", "boolop", "cmpop"):
            return S.is_base(ty, a)
        if ty == "stmt":
            return S.is_base("stmt", a)
        if ty in ("identifier", "string"):
            return P.is_PStr(a)
        if ty == "int":
            return z3.Or(P.is_PInt(a), P.is_PBool(a))
        return z3.BoolVal(True)       # constant: any Python value

    def list_fn(self, ty):
        if ty not in self.lists:
            S = self.w.S
            g = z3.Function(f"wf_list__{ty}", S.PyList, z3.BoolSort())
            l = z3.Const("l", S.PyList)
            h = S.head(l)
            body = z3.If(S.is_nil(l), z3.BoolVal(True),
                         z3.And(self.typefact(ty, h),
                                self.f(h) if S._is_node_type(ty) else z3.BoolVal(True),
                                g(S.tail(l))))
            self.w.defs[g.name()] = (g, [l], body, True)
            self.lists[ty] = g
        return self.lists[ty]

    def child_inst(self, kind, t, extra, cls):
        S = self.w.S
        if cls not in S.classes:
            return z3.BoolVal(True)
        parts = []
        for fname, fty, q in S.fields[cls]:
            a = S.acc(cls, fname)(t)
            if q == "*":
                parts.append(self.list_fn(fty)(a))
            elif q == "?":
                inner = self.typefact(fty, a)
                if S._is_node_type(fty):
                    inner = z3.And(inner, self.f(a))
                parts.append(z3.Or(S.Py.is_PNone(a), inner))
            else:
                parts.append(self.typefact(fty, a))
                if S._is_node_type(fty):
                    parts.append(self.f(a))
        return z3.And(parts) if parts else z3.BoolVal(True)


def _field_class(S, t):
    """If t is an accessor application whose grammar type is ONE concrete class, that class."""
    if z3.is_app(t) and t.decl().kind() == z3.Z3_OP_DT_ACCESSOR:
        n = t.decl().name()
        if "__" in n:
            cls, fname = n.split("__", 1)
            for f, fty, q in S.fields.get(cls, []):
                if f == fname and q != "*" and fty in ("arguments", "arg", "keyword",
                                                       "comprehension"):
                    return fty
    return None


def _collect1(w, f):
    """(spec apps, recogniser candidates) of ONE formula, cached by ast id."""
    cache = w.__dict__.setdefault("_collect_cache", {})
    k = f.get_id()
    if k in cache:
        return cache[k][1], cache[k][2]
    apps = []
    cands = []
    lens = []
    seen = set()
    stack = [f]
    while stack:
        t = stack.pop()
        i = t.get_id()
        if i in seen:
            continue
        seen.add(i)
        if z3.is_quantifier(t):
            stack.append(t.body())
            continue
        if z3.is_app(t) and t.num_args() > 0:
            d = t.decl()
            if d.kind() == z3.Z3_OP_DT_IS and t.num_args() == 1:
                try:
                    cands.append((t.arg(0).get_id(), d.params()[0].name()))
                except Exception:
                    pass
            else:
                n = d.name()
                if n in w.defs or n in w.lazy:
                    apps.append(t)
                elif n == "len_l" and t.num_args() == 1:
                    lens.append(t.arg(0))
                elif n == "concat" and t.num_args() == 2:
                    lens.append(("concat", t))
                elif n == "nth" and t.num_args() == 2:
                    lens.append(("nth", t))
                elif n == "reverse_acc" and t.num_args() == 2:
                    lens.append(("rev", t))
                if n.endswith("__all") and t.num_args() >= 1:
                    lens.append(("all", t))
                elif (n.endswith("__list") or n.startswith("comp!")) and t.num_args() >= 1:
                    lens.append(("map", t))
            stack.extend(t.children())
    cache[k] = (f, apps, cands, lens, frozenset(seen))      # keep f alive so the id stays valid
    return apps, cands


def subterm_ids(w, f):
    _collect1(w, f)
    return w._collect_cache[f.get_id()][4]


def len_args(w, f):
    _collect1(w, f)
    return w._collect_cache[f.get_id()][3]


def _collect(w, formulas, visited, cands):
    out = []
    for f in formulas:
        apps, cs = _collect1(w, f)
        for a in apps:
            if a.get_id() not in visited:
                visited.add(a.get_id())
                out.append(a)
        if cands is not None:
            for tid, c in cs:
                cands.setdefault(tid, set()).add(c)
    return out


def _inst(w, app, cls):
    cache = w.__dict__.setdefault("_inst_cache", {})
    k = (app.get_id(), cls)
    if k not in cache:
        n = app.decl().name()
        if n in w.lazy:
            kind, sf = w.lazy[n]
            inst = sf.child_inst(kind, app.arg(0),
                                 [app.arg(i) for i in range(1, app.num_args())], cls)
        else:
            f, params, body, recursive = w.defs[n]
            inst = z3.substitute(body, *list(zip(params, app.children())))
        if any(z3.is_app(c) and c.decl().kind() == z3.Z3_OP_DT_CONSTRUCTOR and c.num_args() > 0
               for c in app.children()):
            inst = z3.simplify(inst)       # accessor-of-constructor, is_nil(cons …) reduce
        cache[k] = (app, inst)
    return cache[k][1]


def _def_edges(w, n):
    """Spec / lazy symbols mentioned by the definition of n."""
    cache = w.__dict__.setdefault("_edge_cache", {})
    if n in cache:
        return cache[n]
    out = set()
    seen = set()
    stack = [w.defs[n][2]]
    while stack:
        t = stack.pop()
        if t.get_id() in seen:
            continue
        seen.add(t.get_id())
        if z3.is_app(t):
            m = t.decl().name()
            if m in w.defs:
                out.add(m)
            elif m in w.lazy:
                sf = w.lazy[m][1]
                out.add(sf.f.name() if hasattr(sf, "f") and hasattr(sf, "params") else m)
                out.add("<lazy>")
            else:
                for suf in ("__list", "__cat", "__all"):
                    if m.endswith(suf) and m[:-len(suf)] in w.defs:
                        out.add(m[:-len(suf)])
                        out.add("<lazy>")
            stack.extend(t.children())
    cache[n] = out
    return out


def _on_cycle(w, n):
    """Does the definition of n (transitively) mention n itself, or any lazily defined child
    combinator / list lift (those are recursive by construction)?"""
    cache = w.__dict__.setdefault("_cycle_cache", {})
    if n in cache:
        return cache[n]
    if w.defs[n][3] and n.startswith(("wf_list__", "comp!", "all!", "any!")):
        cache[n] = True
        return True
    seen = set()
    stack = list(_def_edges(w, n))
    res = False
    while stack:
        m = stack.pop()
        if m == n:
            res = True
            break
        if m in seen or m not in w.defs:
            continue
        seen.add(m)
        stack.extend(_def_edges(w, m))
    cache[n] = res
    return res


def _structural_on_first(n):
    """Definitions generated by the engine that recurse structurally on their first (list)
    argument: evaluating them on a concrete cons/nil spine terminates."""
    return n.startswith(("comp!", "all!", "any!", "wf_list__")) or \
        n.endswith(("__list", "__all", "__cat"))


def inline_rec_once(w, f, times=1):
    """Unfold the applications of RECURSIVE spec functions occurring in f `times` times (defining
    equation used as a rewrite) and simplify: accessors are pushed through the if-then-else of the
    definition, so the node class of each branch becomes visible.  Equivalence preserving."""
    g = f
    for _ in range(times):
        apps = [a for a in _collect1(w, g)[0] if a.decl().name() in w.defs
                and _on_cycle(w, a.decl().name()) and not a.decl().name().startswith(
                    ("wf_list__", "comp!", "all!", "any!"))]
        if not apps:
            break
        g = z3.simplify(z3.substitute(g, *[(a, _inst(w, a, None)) for a in apps]))
    return g


def inline_nonrec(w, f, depth=10):
    """Replace applications of NON-recursive spec functions by their definitions (the defining
    equation, applied as a rewrite) and simplify, so that accessor-of-constructor terms reduce and
    node classes become syntactically visible.  Equivalence preserving."""
    cache = w.__dict__.setdefault("_inline_cache", {})
    k = f.get_id()
    if k in cache:
        return cache[k][1]
    g = f
    for _ in range(depth):
        apps = [a for a in _collect1(w, g)[0]
                if a.decl().name() in w.defs and (
                    not _on_cycle(w, a.decl().name()) or
                    (_structural_on_first(a.decl().name()) and a.num_args() > 0
                     and _is_ctor(a.arg(0))))]
        if not apps:
            break
        g = z3.substitute(g, *[(a, _inst(w, a, None)) for a in apps])
    if g is not f:
        g = z3.simplify(g)
    cache[k] = (f, g)
    return g


def _is_ctor(t):
    return z3.is_app(t) and t.decl().kind() == z3.Z3_OP_DT_CONSTRUCTOR


def unfold(w, formulas, fuel=2, facts=None, allclass_budget=0, facts_fuel=3):
    """Definitional equations  F(t) == body[t]  for the spec-function applications occurring in
    `formulas`.  Recursive spec functions are unfolded `fuel` levels; the lazily defined child
    combinators (F__mapc …, wf) as GUARDED instances  is_C(t) -> F__mapc(t) == C(…)  for every
    class C for which a recogniser atom is_C(t) occurs in the formulas or in the unfolded spec
    bodies (a guarded instance is sound whatever the polarity of that atom), or that follows from
    the grammar.  Quantifier free, always sound."""
    S = w.S
    eqs = []
    visited = set()
    done = set()
    cands = {}
    pending = []          # lazy apps waiting for a class candidate
    known = _known_classes(S, list(facts) if facts is not None else [])   # FACTS only
    for f_ in (facts or []):
        if z3.is_not(f_) and z3.is_app(f_.arg(0)) and f_.arg(0).decl().name() == "is_node_p":
            known[f_.arg(0).arg(0).get_id()] = "<nonnode>"
    keep = {}           # keeps terms alive so ids stay valid

    def class_of(t):
        if z3.is_app(t) and t.decl().kind() == z3.Z3_OP_DT_CONSTRUCTOR and t.sort() == S.Py:
            nm = t.decl().name()
            return nm if nm in S.classes else "<nonnode>"
        return known.get(t.get_id())

    def specialise(inst, args):
        subs = []
        for a in args:
            if a.sort() != S.Py:
                continue
            c = class_of(a)
            if c is None:
                continue
            if c == "<nonnode>":
                for d in S.node_classes:
                    subs.append((getattr(S.Py, "is_" + d)(a), z3.BoolVal(False)))
                continue
            for d in S.all_py_constructors:
                subs.append((getattr(S.Py, "is_" + d)(a), z3.BoolVal(d == c)))
        if not subs:
            return inst
        return z3.simplify(z3.substitute(inst, *subs))
    links = []          # (app, inst) equations between Py terms, for class propagation

    def propagate():
        changed = True
        while changed:
            changed = False
            for a_, i_ in links:
                if a_.get_id() not in known:
                    c = class_of(i_)
                    if c is not None:
                        known[a_.get_id()] = c
                        changed = True
    # deep unfolding (beyond the fuel) only at terms the formulas themselves mention
    relevant = set()
    for f_ in list(formulas) + list(facts or []):
        relevant |= subterm_ids(w, f_)
    deep = fuel + 8
    # the goal gets the full fuel; the assumptions at most `facts_fuel` levels
    frontier = [(a, 0) for a in _collect(w, list(formulas), visited, cands)]
    f0 = max(0, fuel - facts_fuel)
    frontier += [(a, f0) for a in _collect(w, list(facts or []), visited, cands)]
    budget = 30000
    while budget > 0:
        while frontier and budget > 0:
            budget -= 1
            app, lvl = frontier.pop()
            n = app.decl().name()
            if n in w.lazy:
                t = app.arg(0)
                ctor = _is_ctor(t)      # structural recursion on a concrete constructor: free
                if lvl > fuel and not ctor and not (lvl <= deep and t.get_id() in relevant):
                    continue
                if class_of(t) == "<nonnode>":
                    kind_, sf_ = w.lazy[n]
                    dflt = {"mapc": t, "foldc": S.nil, "allc": z3.BoolVal(True),
                            "wf": z3.BoolVal(True)}[kind_]
                    if (app.get_id(), "nonnode") not in done:
                        done.add((app.get_id(), "nonnode"))
                        eqs.append(app == dflt)
                    continue
                if class_of(t) is not None:
                    classes = [(class_of(t), False)]
                else:
                    cs = set(cands.get(t.get_id(), ()))
                    fc = _field_class(S, t)
                    if fc:
                        cs.add(fc)
                    classes = [(c, True) for c in sorted(cs)]
                if not classes or (classes[0][1] and t.get_id() not in known):
                    pending.append((app, lvl))
                for cls, guarded in classes:
                    if (app.get_id(), cls) in done:
                        continue
                    done.add((app.get_id(), cls))
                    if guarded and cls not in S.all_py_constructors:
                        continue
                    inst = _inst(w, app, cls)
                    eq = app == inst
                    if guarded:
                        eq = z3.Implies(getattr(S.Py, "is_" + cls)(t), eq)
                    elif app.sort() == S.Py:
                        links.append((app, inst))
                    eqs.append(eq)
                    frontier.extend((a, lvl if ctor else lvl + 1)
                                    for a in _collect(w, [inst], visited, None))
            else:
                if app.get_id() in done:
                    continue
                recursive = w.defs[n][3]
                concrete = recursive and all(
                    _is_ctor(c) for c in app.children() if c.sort() in (S.Py, S.PyList))
                if recursive and lvl >= fuel and not concrete and not (
                        lvl < deep and app.num_args() > 0 and app.arg(0).get_id() in relevant):
                    continue
                done.add(app.get_id())
                inst = specialise(_inst(w, app, None), app.children())
                keep[inst.get_id()] = inst
                eqs.append(app == inst)
                if app.sort() == S.Py:
                    links.append((app, inst))
                nl = lvl + 1 if (recursive and not concrete) else lvl
                frontier.extend((a, nl) for a in _collect(w, [inst], visited, cands))
        if not pending:
            break
        propagate()
        still = []
        for app2, lvl2 in pending:
            cs2 = set(cands.get(app2.arg(0).get_id(), ()))
            if class_of(app2.arg(0)) is not None:
                cs2.add(class_of(app2.arg(0)))
            if any((app2.get_id(), c) not in done for c in cs2):
                frontier.append((app2, lvl2))
            else:
                still.append((app2, lvl2))
        pending = still
        if not frontier:
            break
    # class still unknown: a bounded number of full case splits (guarded instance per node class),
    # children of those instances are not unfolded further
    n_all = 0
    for app2, lvl2 in sorted(pending, key=lambda x: x[1]):
        if lvl2 > 2 or n_all >= allclass_budget or (app2.get_id(), "*") in done:
            continue
        done.add((app2.get_id(), "*"))
        n_all += 1
        kind, sf = w.lazy[app2.decl().name()]
        t = app2.arg(0)
        extra = [app2.arg(i) for i in range(1, app2.num_args())]
        for c2 in S.node_classes:
            eqs.append(z3.Implies(S.rec(c2)(t), app2 == _inst(w, app2, c2)))
        dflt = {"mapc": t, "foldc": S.nil, "allc": z3.BoolVal(True), "wf": z3.BoolVal(True)}[kind]
        eqs.append(z3.Implies(z3.Not(S.is_node(t)), app2 == dflt))
    return eqs
