"""Solver driver: one obligation = one query; z3 (python API) with a hard timeout; anything
other than `unsat` is NOT proved.  Counter-models are rendered as Python source."""
import time
import z3

DEFAULT_TIMEOUT_MS = 20000


def discharge(w, ob, timeout_ms=DEFAULT_TIMEOUT_MS, fuel=3):
    from .specs import unfold
    t0 = time.time()
    if ob.trivial is not None:
        ob.status = "proved" if ob.trivial else "refuted"
        ob.backend = "pyvc-frame"
        ob.time = 0.0
        return ob
    s = z3.Solver()
    s.set("timeout", timeout_ms)
    for a in w.axioms:
        s.add(a)
    for c in ob.pc:
        s.add(c)
    s.add(z3.Not(ob.goal))
    eqs = unfold(w, list(ob.pc) + [ob.goal], fuel=getattr(ob, "fuel", fuel))
    for q in eqs:
        s.add(q)
    for g in w.ground_len_facts(list(ob.pc) + [ob.goal] + eqs):
        s.add(g)
    try:
        r = s.check()
    except z3.Z3Exception as e:
        ob.status = "undecided"
        ob.backend = f"z3-{z3.get_version_string()} (exception {e})"
        ob.time = time.time() - t0
        return ob
    ob.backend = f"z3-{z3.get_version_string()}"
    if r == z3.unsat:
        ob.status = "proved"
    elif r == z3.sat:
        ob.status = "refuted"
        try:
            ob.model = s.model()
        except z3.Z3Exception:
            ob.model = None
    else:
        ob.status = "undecided"
        ob.reason = s.reason_unknown()
    ob.time = time.time() - t0
    return ob


def smt2_of(w, ob):
    s = z3.Solver()
    for a in w.axioms:
        s.add(a)
    for c in ob.pc:
        s.add(c)
    s.add(z3.Not(ob.goal))
    return s.to_smt2()


# ---- rendering model values as Python source --------------------------------------------
def term_to_source(S, t, depth=0):
    """A z3 VALUE of sort Py/PyList -> Python expression text that rebuilds it with real `ast`
    constructors (used by replay under /venv/bin/python)."""
    if depth > 40:
        return "None"
    srt = t.sort()
    if srt == S.PyList:
        items = []
        cur = t
        while z3.is_app(cur) and cur.decl().name() == "cons":
            items.append(term_to_source(S, cur.arg(0), depth + 1))
            cur = cur.arg(1)
        return "[" + ", ".join(items) + "]"
    if srt == z3.IntSort():
        return str(t.as_long()) if z3.is_int_value(t) else "0"
    if srt == z3.BoolSort():
        return "True" if z3.is_true(t) else "False"
    if srt == z3.StringSort():
        return repr(t.as_string()) if z3.is_string_value(t) else "''"
    if srt == z3.RealSort():
        try:
            return repr(float(t.as_fraction()))
        except Exception:
            return "0.0"
    if srt != S.Py or not z3.is_app(t):
        return "None"
    name = t.decl().name()
    args = [t.arg(i) for i in range(t.num_args())]
    if name == "PNone":
        return "None"
    if name in ("PBool", "PInt", "PStr", "PFloat"):
        return term_to_source(S, args[0], depth + 1)
    if name == "PBytes":
        return "b" + term_to_source(S, args[0], depth + 1)
    if name == "PList":
        return term_to_source(S, args[0], depth + 1)
    if name == "PTuple":
        inner = term_to_source(S, args[0], depth + 1)
        return "tuple(" + inner + ")"
    if name == "PDict":
        return "dict(zip(%s, %s))" % (term_to_source(S, args[0], depth + 1),
                                      term_to_source(S, args[1], depth + 1))
    if name == "PObj":
        return f"OPAQUE({term_to_source(S, args[0], depth + 1)})"
    if name in S.classes:
        parts = []
        for (fname, fty, q), a in zip(S.fields[name], args):
            parts.append(f"{fname}={term_to_source(S, a, depth + 1)}")
        return f"ast.{name}(" + ", ".join(parts) + ")"
    return "None"


def model_bindings(w, ob, names):
    """Values of the symbolic parameters (consts called '<name>!k') in the counter-model."""
    out = {}
    if ob.model is None:
        return out
    S = w.S
    for d in ob.model.decls():
        n = d.name()
        base = n.split("!")[0]
        if base in names and d.arity() == 0:
            try:
                v = ob.model.get_interp(d)
                out[base] = term_to_source(S, v)
            except Exception:
                pass
    return out
