"""Solver driver: one obligation = one query; z3 (python API) with a hard timeout; anything
other than `unsat` is NOT proved.  Counter-models are rendered as Python source."""
import time
import z3

DEFAULT_TIMEOUT_MS = 60000


def discharge(w, ob, timeout_ms=DEFAULT_TIMEOUT_MS, fuel=3):
    from .specs import unfold
    t0 = time.time()
    if ob.trivial is not None:
        ob.status = "proved" if ob.trivial else "refuted"
        ob.backend = "pyvc-frame"
        ob.time = 0.0
        return ob
    from .specs import inline_nonrec
    s = z3.Solver()
    s.set("timeout", timeout_ms)
    for a in w.axioms:
        s.add(a)
    pc, goal = eliminate_defs(w, propagate_units(list(ob.pc)), ob.goal)
    pc = [inline_nonrec(w, c) for c in pc]
    goal = inline_nonrec(w, goal)
    pc, goal = eliminate_defs(w, propagate_units(pc), goal)
    pc, goal = eliminate_defs(w, propagate_units(pc), goal)
    k_inl = getattr(ob, "inline_goal", 0)
    if k_inl:
        from .specs import inline_rec_once
        goal = inline_nonrec(w, inline_rec_once(w, goal, k_inl))
    for c in pc:
        s.add(c)
    s.add(z3.Not(goal))
    eqs = unfold(w, [goal], fuel=getattr(ob, "fuel", fuel), facts=pc,
                 allclass_budget=getattr(ob, "allclass", 8),
                 facts_fuel=getattr(ob, "facts_fuel", 3))
    for q in eqs:
        s.add(q)
    for g in w.ground_len_facts(pc + [goal] + eqs):
        s.add(g)
    try:
        r = s.check()
    except z3.Z3Exception as e:
        ob.status = "undecided"
        ob.backend = f"z3-{z3.get_version_string()} (exception {e})"
        ob.time = time.time() - t0
        return ob
    ob.backend = f"z3-{z3.get_version_string()}"
    if r == z3.unsat:
        ob.status = "proved"
    elif r == z3.sat:
        ob.status = "refuted"
        try:
            ob.model = s.model()
        except z3.Z3Exception:
            ob.model = None
    else:
        ob.status = "undecided"
        ob.reason = s.reason_unknown()
    ob.time = time.time() - t0
    return ob


def _contains(t, c):
    seen = set()
    stack = [t]
    while stack:
        x = stack.pop()
        if x.get_id() in seen:
            continue
        seen.add(x.get_id())
        if x.eq(c):
            return True
        if z3.is_app(x):
            stack.extend(x.children())
    return False


def propagate_units(pc, rounds=4):
    """Cheap unit propagation over the path condition: conjunctions are flattened;
    Implies(A, B) with every conjunct of A among the facts contributes B;  a disjunction whose other
    members are refuted by the facts contributes the remaining one.  Only consequences are added."""
    def flat(f, out):
        if z3.is_and(f):
            for c in f.children():
                flat(c, out)
        else:
            out.append(f)
    facts = []
    for f in pc:
        flat(f, facts)
    for _ in range(rounds):
        true_ids = {f.get_id() for f in facts}
        false_ids = {f.arg(0).get_id() for f in facts if z3.is_not(f)}

        def holds(a):
            if z3.is_and(a):
                return all(holds(c) for c in a.children())
            if z3.is_true(a):
                return True
            if z3.is_not(a) and a.arg(0).get_id() in false_ids:
                return True
            return a.get_id() in true_ids

        def refuted(a):
            if z3.is_false(a):
                return True
            if z3.is_not(a):
                return holds(a.arg(0))
            return a.get_id() in false_ids
        new = []
        for f in facts:
            if z3.is_implies(f) and holds(f.arg(0)):
                flat(f.arg(1), new)
            elif z3.is_or(f):
                rest = [c for c in f.children() if not refuted(c)]
                if len(rest) == 1:
                    flat(rest[0], new)
            elif z3.is_app(f) and f.decl().kind() == z3.Z3_OP_ITE and f.sort() == z3.BoolSort():
                if holds(f.arg(0)):
                    flat(f.arg(1), new)
                elif refuted(f.arg(0)):
                    flat(f.arg(2), new)
        new = [n for n in new if n.get_id() not in true_ids]
        if not new:
            break
        facts.extend(new)
    return facts


def eliminate_defs(w, pc, goal, rounds=6):
    """Path conditions of the form  v == t  (v an uninterpreted constant of sort Py / PyList, t a
    constructor term not mentioning v) are used as rewrites v -> t in all other formulas, so that
    results of callees whose contract gives the term become syntactically concrete.  The equation
    itself stays in the path condition.  Equivalence preserving."""
    S = w.S
    for _ in range(rounds):
        sub = None
        for f in pc:
            if z3.is_eq(f):
                a, b = f.arg(0), f.arg(1)
                for v, t in ((a, b), (b, a)):
                    if z3.is_const(v) and v.decl().kind() == z3.Z3_OP_UNINTERPRETED \
                            and v.sort() in (S.Py, S.PyList) and z3.is_app(t) \
                            and t.decl().kind() == z3.Z3_OP_DT_CONSTRUCTOR and t.num_args() > 0 \
                            and not _contains(t, v):
                        sub = (f, v, t)
                        break
            if sub:
                break
        if not sub:
            break
        f0, v, t = sub
        npc = []
        for f in pc:
            if f is f0:
                continue
            g = z3.substitute(f, (v, t))
            npc.append(g if g.eq(f) else z3.simplify(g))
        g = z3.substitute(goal, (v, t))
        goal = g if g.eq(goal) else z3.simplify(g)
        pc = npc
    return pc, goal


def smt2_of(w, ob):
    s = z3.Solver()
    for a in w.axioms:
        s.add(a)
    for c in ob.pc:
        s.add(c)
    s.add(z3.Not(ob.goal))
    return s.to_smt2()


# ---- rendering model values as Python source --------------------------------------------
def term_to_source(S, t, depth=0):
    """A z3 VALUE of sort Py/PyList -> Python expression text that rebuilds it with real `ast`
    constructors (used by replay under /venv/bin/python)."""
    if depth > 40:
        return "None"
    srt = t.sort()
    if srt == S.PyList:
        items = []
        cur = t
        while z3.is_app(cur) and cur.decl().name() == "cons":
            items.append(term_to_source(S, cur.arg(0), depth + 1))
            cur = cur.arg(1)
        return "[" + ", ".join(items) + "]"
    if srt == z3.IntSort():
        return str(t.as_long()) if z3.is_int_value(t) else "0"
    if srt == z3.BoolSort():
        return "True" if z3.is_true(t) else "False"
    if srt == z3.StringSort():
        return repr(t.as_string()) if z3.is_string_value(t) else "''"
    if srt == z3.RealSort():
        try:
            return repr(float(t.as_fraction()))
        except Exception:
            return "0.0"
    if srt != S.Py or not z3.is_app(t):
        return "None"
    name = t.decl().name()
    args = [t.arg(i) for i in range(t.num_args())]
    if name == "PNone":
        return "None"
    if name in ("PBool", "PInt", "PStr", "PFloat"):
        return term_to_source(S, args[0], depth + 1)
    if name == "PBytes":
        return "b" + term_to_source(S, args[0], depth + 1)
    if name == "PList":
        return term_to_source(S, args[0], depth + 1)
    if name == "PTuple":
        inner = term_to_source(S, args[0], depth + 1)
        return "tuple(" + inner + ")"
    if name == "PDict":
        return "dict(zip(%s, %s))" % (term_to_source(S, args[0], depth + 1),
                                      term_to_source(S, args[1], depth + 1))
    if name == "PObj":
        return f"OPAQUE({term_to_source(S, args[0], depth + 1)})"
    if name in S.classes:
        parts = []
        for (fname, fty, q), a in zip(S.fields[name], args):
            parts.append(f"{fname}={term_to_source(S, a, depth + 1)}")
        return f"ast.{name}(" + ", ".join(parts) + ")"
    return "None"


class _Repair:
    """Render a model value as WELL-FORMED ast source: sub-terms the solver left arbitrary (wrong
    sort for their grammar position) are replaced by fresh placeholder leaves."""

    def __init__(self, S):
        self.S = S
        self.k = 0

    def fresh(self, p):
        self.k += 1
        return f"{p}{self.k}"

    def cname(self, t):
        return t.decl().name() if z3.is_app(t) else None

    def scalar(self, t):
        n = self.cname(t)
        if n in ("PInt", "PBool", "PStr", "PFloat"):
            return term_to_source(self.S, t)
        if n == "PNone":
            return "None"
        return None

    def items(self, l):
        out = []
        cur = l
        while z3.is_app(cur) and cur.decl().name() == "cons":
            out.append(cur.arg(0))
            cur = cur.arg(1)
        return out

    def node(self, t, ty, opt=False, depth=0):
        S = self.S
        n = self.cname(t)
        if opt and n == "PNone":
            return "None"
        if depth > 25:
            n = None
        if ty == "expr":
            if n in S.expr_classes:
                return self.build(t, n, depth)
            return f"ast.Name(id={self.fresh('v')!r})"
        if ty in ("arguments", "arg", "keyword", "comprehension"):
            if n == ty:
                return self.build(t, n, depth)
            return {"arguments": "ast.arguments(posonlyargs=[], args=[], vararg=None, kwonlyargs=[], "
                                 "kw_defaults=[], kwarg=None, defaults=[])",
                    "arg": f"ast.arg(arg={self.fresh('a')!r}, annotation=None)",
                    "keyword": f"ast.keyword(arg={self.fresh('k')!r}, value=ast.Name(id={self.fresh('v')!r}))",
                    "comprehension": f"ast.comprehension(target=ast.Name(id={self.fresh('t')!r}), "
                                     f"iter=ast.Name(id={self.fresh('v')!r}), ifs=[], is_async=0)"}[ty]
        if ty in ("operator", "unaryop", "boolop", "cmpop"):
            if n in S.classes and S.classes[n]["base"] == ty:
                return f"ast.{n}()"
            return {"operator": "ast.Add()", "unaryop": "ast.USub()", "boolop": "ast.And()",
                    "cmpop": "ast.Eq()"}[ty]
        if ty in ("identifier", "string"):
            if n == "PStr":
                v = t.arg(0)
                if z3.is_string_value(v) and v.as_string().isidentifier():
                    return repr(v.as_string())
            return repr(self.fresh("n"))
        if ty == "int":
            if n == "PInt" and z3.is_int_value(t.arg(0)):
                return str(t.arg(0).as_long())
            return "0"
        if ty == "constant":
            sc = self.scalar(t)
            return sc if sc is not None else "0"
        if ty == "stmt":
            if n in ("Expr", "Return"):
                return self.build(t, n, depth)
            return f"ast.Expr(value=ast.Name(id={self.fresh('v')!r}))"
        if ty == "py":
            if n in S.classes:
                base = S.classes[n]["base"]
                return self.build(t, n, depth)
            return term_to_source(S, t)
        return term_to_source(S, t)

    def build(self, t, cls, depth):
        S = self.S
        parts = []
        for (fname, fty, q), a in zip(S.fields[cls], [t.arg(i) for i in range(t.num_args())]):
            if q == "*":
                parts.append(f"{fname}=[" + ", ".join(self.node(x, fty, False, depth + 1)
                                                     for x in self.items(a)) + "]")
            else:
                parts.append(f"{fname}={self.node(a, fty, q == '?', depth + 1)}")
        return f"ast.{cls}(" + ", ".join(parts) + ")"


def model_bindings(w, ob, names):
    """Values of the symbolic parameters (consts called '<name>!k') in the counter-model, rendered
    as well-formed Python/ast source."""
    out = {}
    if ob.model is None:
        return out
    S = w.S
    for d in ob.model.decls():
        n = d.name()
        base = n.split("!")[0]
        if base in names and d.arity() == 0:
            try:
                v = ob.model.get_interp(d)
                if v.sort() == S.Py:
                    out[base] = _Repair(S).node(v, "py")
                elif v.sort() == S.PyList:
                    r = _Repair(S)
                    out[base] = "[" + ", ".join(r.node(x, "py") for x in r.items(v)) + "]"
                else:
                    out[base] = term_to_source(S, v)
            except Exception:
                pass
    return out
