"""z3 sorts for Python values and ast nodes, GENERATED from the ast grammar dumped by the
interpreter the library runs on (pyvc/dump_grammar.py).

One universal sort `Py` (any Python object the verified functions handle) and `PyList`
(Python lists of such objects; every `T*` field of the grammar has this sort).

Dropped from the node model (stated in DESIGN.md / evidence): expr_context (`ctx`), `kind`,
`type_comment`, `type_ignores`, `type_params`, source positions, and every non-field attribute
(those are handled by the frame/freshness layer, not by the term model).
"""
import json
import os
import subprocess
import z3

DROP_FIELDS = {"ctx", "kind", "type_comment", "type_ignores", "type_params"}
KEEP_STMT = {"Expr", "Return", "FunctionDef", "Module"}
KEEP_AST = {"keyword", "arguments", "arg", "comprehension"}
OP_BASES = {"operator", "unaryop", "boolop", "cmpop"}

VENV_PY = os.environ.get("VERIF_VENV_PY", "/venv/bin/python")
HERE = os.path.dirname(os.path.abspath(__file__))


def load_grammar():
    out = subprocess.run([VENV_PY, os.path.join(HERE, "dump_grammar.py")], check=True,
                         capture_output=True, text=True).stdout
    g = json.loads(out)
    classes = {}
    for name, c in g["classes"].items():
        b = c["base"]
        if b == "expr" or b in OP_BASES or name in KEEP_STMT or name in KEEP_AST:
            fields = [f for f in c["fields"] if f[0] not in DROP_FIELDS]
            classes[name] = {"base": b, "fields": fields}
    return g["python"], classes


class Sorts:
    """Holds the datatypes, constructors, recognisers, accessors and basic rec-functions."""

    def __init__(self, grammar=None):
        if grammar is None:
            self.pyver, self.classes = load_grammar()
        else:
            self.pyver, self.classes = grammar
        Py = z3.Datatype("Py")
        PyList = z3.Datatype("PyList")
        Py.declare("PNone")
        Py.declare("PBool", ("b", z3.BoolSort()))
        Py.declare("PInt", ("i", z3.IntSort()))
        Py.declare("PStr", ("s", z3.StringSort()))
        Py.declare("PFloat", ("f", z3.RealSort()))
        Py.declare("PBytes", ("by", z3.StringSort()))
        Py.declare("PList", ("items", PyList))
        Py.declare("PTuple", ("titems", PyList))
        Py.declare("PDict", ("dkeys", PyList), ("dvals", PyList))
        Py.declare("PObj", ("oid", z3.IntSort()))      # opaque object (callable, type, module…)
        for name in sorted(self.classes):
            fs = [(f"{name}__{f[0]}", PyList if f[2] == "*" else Py)
                  for f in self.classes[name]["fields"]]
            Py.declare(name, *fs)
        # non-ast records of library models (inspect.Parameter: name, default or the EMPTY marker)
        self.records = {"Param": [("name", "identifier", ""), ("default", "constant", "")]}
        for name, fl in self.records.items():
            Py.declare(name, *[(f"{name}__{f}", Py) for f, _, _ in fl])
        PyList.declare("nil")
        PyList.declare("cons", ("head", Py), ("tail", PyList))
        self.Py, self.PyList = z3.CreateDatatypes(Py, PyList)
        P, L = self.Py, self.PyList
        self.nil, self.cons, self.head, self.tail = L.nil, L.cons, L.head, L.tail
        self.is_nil, self.is_cons = L.is_nil, L.is_cons
        self.node_classes = sorted(self.classes)
        self.expr_classes = [n for n in self.node_classes if self.classes[n]["base"] == "expr"]
        self.fields = {n: [(f[0], f[1], f[2]) for f in self.classes[n]["fields"]]
                       for n in self.node_classes}
        # field name -> list of classes owning it
        self.owners = {}
        for n in self.node_classes:
            for f, _, _ in self.fields[n]:
                self.owners.setdefault(f, []).append(n)
        for n, fl in self.records.items():
            self.fields[n] = list(fl)
            for f, _, _ in fl:
                self.owners.setdefault(f, []).append(n)
        self._preds = {}
        self.all_py_constructors = ["PNone", "PBool", "PInt", "PStr", "PFloat", "PBytes", "PList",
                                    "PTuple", "PDict", "PObj"] + self.node_classes + \
            list(self.records)
        self._mk_recfuns()

    # -- constructors / recognisers / accessors -------------------------------------
    def con(self, name):
        return getattr(self.Py, name)

    def mk(self, name, vals):
        c = getattr(self.Py, name)
        return c(*vals) if vals else c

    def rec(self, name):
        return getattr(self.Py, "is_" + name)

    def acc(self, cls, field):
        return getattr(self.Py, f"{cls}__{field}")

    def field_is_list(self, cls, field):
        for f, _, q in self.fields[cls]:
            if f == field:
                return q == "*"
        raise KeyError(field)

    def _pred(self, name, classes):
        """A defined (macro) predicate  name(t) := is_C1(t) or is_C2(t) …  — keeps terms small."""
        if name not in self._preds:
            f = z3.RecFunction(name, self.Py, z3.BoolSort())
            x = z3.Const("x!p", self.Py)
            z3.RecAddDefinition(f, [x], z3.Or([self.rec(n)(x) for n in classes])
                                if classes else z3.BoolVal(False))
            self._preds[name] = f
        return self._preds[name]

    def is_node(self, t):
        return self._pred("is_node_p", self.node_classes)(t)

    def is_expr(self, t):
        return self._pred("is_expr_p", self.expr_classes)(t)

    def is_base(self, base, t):
        cs = [n for n in self.node_classes if self.classes[n]["base"] == base]
        return self._pred(f"is_{base}_p", cs)(t)

    def pylist(self, items):
        r = self.nil
        for it in reversed(list(items)):
            r = self.cons(it, r)
        return r

    def pstr(self, s):
        return self.Py.PStr(z3.StringVal(s))

    def pint(self, i):
        return self.Py.PInt(z3.IntVal(i))

    # -- recursive helper functions --------------------------------------------------
    def _mk_recfuns(self):
        P, L = self.Py, self.PyList
        I = z3.IntSort()
        l, m = z3.Const("l", L), z3.Const("m", L)
        n = z3.Int("n")
        x = z3.Const("x", P)
        self.len_l = z3.RecFunction("len_l", L, I)
        z3.RecAddDefinition(self.len_l, [l],
                            z3.If(L.is_nil(l), z3.IntVal(0), 1 + self.len_l(L.tail(l))))
        self.nth = z3.RecFunction("nth", L, I, P)
        z3.RecAddDefinition(self.nth, [l, n],
                            z3.If(L.is_nil(l), P.PNone,
                                  z3.If(n <= 0, L.head(l), self.nth(L.tail(l), n - 1))))
        self.concat = z3.RecFunction("concat", L, L, L)
        z3.RecAddDefinition(self.concat, [l, m],
                            z3.If(L.is_nil(l), m, L.cons(L.head(l), self.concat(L.tail(l), m))))
        self.drop = z3.RecFunction("drop", L, I, L)
        z3.RecAddDefinition(self.drop, [l, n],
                            z3.If(z3.Or(n <= 0, L.is_nil(l)), l, self.drop(L.tail(l), n - 1)))
        self.take = z3.RecFunction("take", L, I, L)
        z3.RecAddDefinition(self.take, [l, n],
                            z3.If(z3.Or(n <= 0, L.is_nil(l)), L.nil,
                                  L.cons(L.head(l), self.take(L.tail(l), n - 1))))
        self.reverse_acc = z3.RecFunction("reverse_acc", L, L, L)
        z3.RecAddDefinition(self.reverse_acc, [l, m],
                            z3.If(L.is_nil(l), m,
                                  self.reverse_acc(L.tail(l), L.cons(L.head(l), m))))
        # remove first element structurally equal to x (list.remove in term view)
        self.remove_first = z3.RecFunction("remove_first", L, P, L)
        z3.RecAddDefinition(self.remove_first, [l, x],
                            z3.If(L.is_nil(l), L.nil,
                                  z3.If(L.head(l) == x, L.tail(l),
                                        L.cons(L.head(l), self.remove_first(L.tail(l), x)))))
        # value stored under key x in a dict given as parallel key / value lists (None if absent)
        self.assoc = z3.RecFunction("assoc", L, L, P, P)
        m2 = z3.Const("m2", L)
        z3.RecAddDefinition(self.assoc, [l, m2, x],
                            z3.If(z3.Or(L.is_nil(l), L.is_nil(m2)), P.PNone,
                                  z3.If(L.head(l) == x, L.head(m2),
                                        self.assoc(L.tail(l), L.tail(m2), x))))
        self.contains = z3.RecFunction("contains", L, P, z3.BoolSort())
        z3.RecAddDefinition(self.contains, [l, x],
                            z3.If(L.is_nil(l), z3.BoolVal(False),
                                  z3.Or(L.head(l) == x, self.contains(L.tail(l), x))))

    # -- generic child maps generated from the grammar ------------------------------
    def make_map_children(self, name, f_py, f_list):
        """Return a z3 expression builder  t -> rebuild(t) with f_py applied to every
        node-valued field and f_list to every list field, identity on scalars.
        f_py / f_list are z3 functions Py->Py and PyList->PyList."""
        P = self.Py

        def build(t):
            r = t
            for cls in reversed(self.node_classes):
                fs = self.fields[cls]
                if not fs:
                    continue
                args = []
                for fname, fty, q in fs:
                    a = self.acc(cls, fname)(t)
                    if q == "*":
                        args.append(f_list(a) if self._list_holds_nodes(fty) else a)
                    elif self._is_node_type(fty):
                        args.append(f_py(a))
                    else:
                        args.append(a)
                r = z3.If(self.rec(cls)(t), self.con(cls)(*args), r)
            return r
        return build

    def mapc_at(self, cls, t, f_py, f_list):
        """rebuild(t) for t of KNOWN class cls."""
        fs = self.fields[cls]
        if not fs:
            return t
        args = []
        for fname, fty, q in fs:
            a = self.acc(cls, fname)(t)
            if q == "*":
                args.append(f_list(a) if self._list_holds_nodes(fty) else a)
            elif self._is_node_type(fty):
                args.append(f_py(a))
            else:
                args.append(a)
        return self.con(cls)(*args)

    def foldc_at(self, cls, t, g_py, g_list):
        parts = []
        for fname, fty, q in self.fields[cls]:
            a = self.acc(cls, fname)(t)
            if q == "*":
                if self._list_holds_nodes(fty):
                    parts.append(g_list(a))
            elif self._is_node_type(fty):
                parts.append(g_py(a))
        if not parts:
            return self.nil
        acc = parts[-1]
        for p in reversed(parts[:-1]):
            acc = self.concat(p, acc)
        return acc

    def allc_at(self, cls, t, p_py, p_list):
        parts = []
        for fname, fty, q in self.fields[cls]:
            a = self.acc(cls, fname)(t)
            if q == "*":
                if self._list_holds_nodes(fty):
                    parts.append(p_list(a))
            elif self._is_node_type(fty):
                parts.append(p_py(a))
        return z3.And(parts) if parts else z3.BoolVal(True)

    def make_fold_children(self, g_py, g_list):
        """t -> concatenation, in field order, of g over every node-valued child
        (g_py: Py->PyList, g_list: PyList->PyList)."""
        def build(t):
            r = self.nil
            for cls in reversed(self.node_classes):
                fs = self.fields[cls]
                parts = []
                for fname, fty, q in fs:
                    a = self.acc(cls, fname)(t)
                    if q == "*":
                        if self._list_holds_nodes(fty):
                            parts.append(g_list(a))
                    elif self._is_node_type(fty):
                        parts.append(g_py(a))
                if not parts:
                    continue
                acc = parts[-1]
                for p in reversed(parts[:-1]):
                    acc = self.concat(p, acc)
                r = z3.If(self.rec(cls)(t), acc, r)
            return r
        return build

    @staticmethod
    def _is_node_type(ty):
        return ty in ("expr", "arguments", "arg", "keyword", "comprehension", "stmt",
                      "operator", "unaryop", "boolop", "cmpop")

    @staticmethod
    def _list_holds_nodes(ty):
        return ty in ("expr", "arg", "keyword", "comprehension", "stmt", "cmpop")
