"""Assemble the verification world: sorts, library models, spec functions, sidecar contracts."""
import glob
import importlib.util
import os

from .sorts import Sorts
from .symex import World
from . import lib, contracts, specs

ROOT = os.path.dirname(os.path.dirname(os.path.abspath(__file__)))


def build(spec_files=None, contract_files=None):
    S = Sorts()
    w = World(S)
    lib.install(w)
    from . import stores
    stores.install(w)
    contracts.install(w)
    w.spec_errors = {}
    w.wf = specs.WfSym(w)
    if spec_files is None:
        spec_files = sorted(glob.glob(os.path.join(ROOT, "spec", "*.py")))
    all_specs = []
    for f in spec_files:
        if os.path.basename(f).startswith("_"):
            continue
        all_specs.extend(specs.load_spec_module(w, f))
    # contracts first (spec bodies may not call contracts, but class tables are needed)
    if contract_files is None:
        contract_files = sorted(glob.glob(os.path.join(ROOT, "contracts", "*.py")))
    mods = []
    for f in contract_files:
        if os.path.basename(f).startswith("_"):
            continue
        spec = importlib.util.spec_from_file_location("contracts_" + os.path.basename(f)[:-3], f)
        m = importlib.util.module_from_spec(spec)
        spec.loader.exec_module(m)
        mods.append(m)
    for sf in all_specs:
        try:
            specs.define_spec(w, sf)
        except Exception as e:   # a spec that cannot be compiled poisons only its users
            w.spec_errors[sf.name] = f"{type(e).__name__}: {e}"
    for m in mods:
        m.register(w)
    w.contract_modules = mods
    return w
