"""Mechanical extraction of functions from the repository's CURRENT source text.

A function is addressed as "<relative file>::<qualified.path>" where the qualified path may go
through classes and enclosing functions, e.g.
  func_adl/ast/meta_data.py::remove_empty_metadata._cleaner.visit_Call
Nothing is cached between runs; the evidence records the sha256 of each extracted segment.
"""
import ast
import hashlib
import os

REPO = os.environ.get("VERIF_REPO", "/repo")


class ExtractError(Exception):
    pass


_cache = {}


def module_ast(relfile, repo=None):
    repo = repo or REPO
    key = (repo, relfile)
    if key not in _cache:
        path = os.path.join(repo, relfile)
        try:
            src = open(path, encoding="utf-8").read()
        except OSError as e:
            raise ExtractError(f"cannot read {path}: {e}")
        try:
            tree = ast.parse(src)
        except SyntaxError as e:
            raise ExtractError(f"cannot parse {path}: {e}")
        _cache[key] = (src, tree)
    return _cache[key]


def find(key, repo=None):
    """Return (FunctionDef|ClassDef node, source segment, sha256, module tree)."""
    relfile, qual = key.split("::")
    src, tree = module_ast(relfile, repo)
    node = tree
    for part in qual.split("."):
        nxt = None
        for child in _body_defs(node):
            if isinstance(child, (ast.FunctionDef, ast.AsyncFunctionDef, ast.ClassDef)) \
                    and child.name == part:
                nxt = child
                break
        if nxt is None:
            raise ExtractError(f"{key}: no definition named {part!r} in {relfile} "
                               f"(renamed or removed?)")
        node = nxt
    seg = ast.get_source_segment(src, node) or ""
    return node, seg, hashlib.sha256(seg.encode()).hexdigest(), tree


def _body_defs(node):
    """Definitions directly inside node's body, looking through if/try/with blocks but not into
    nested defs (so `def f(): class C: def m()` is addressed f.C.m)."""
    out = []
    stack = list(getattr(node, "body", []))
    while stack:
        s = stack.pop(0)
        if isinstance(s, (ast.FunctionDef, ast.AsyncFunctionDef, ast.ClassDef)):
            out.append(s)
        else:
            for fld in ("body", "orelse", "finalbody", "handlers"):
                stack.extend(getattr(s, fld, []) or [])
    return out


def module_imports(tree):
    """name -> ("module", modname) | ("from", modname, attr)"""
    out = {}
    for s in tree.body:
        if isinstance(s, ast.Import):
            for a in s.names:
                out[a.asname or a.name.split(".")[0]] = ("module", a.name)
        elif isinstance(s, ast.ImportFrom):
            for a in s.names:
                out[a.asname or a.name] = ("from", "." * s.level + (s.module or ""), a.name)
    return out


def module_constants(tree):
    """Module-level `NAME = <literal>` assignments (used for e.g. default_list_of_functions)."""
    out = {}
    for s in tree.body:
        if isinstance(s, ast.Assign) and len(s.targets) == 1 and isinstance(s.targets[0], ast.Name):
            try:
                out[s.targets[0].id] = ast.literal_eval(s.value)
            except Exception:
                pass
    return out
