#!/bin/sh
# Offline setup: check the tools the checks need; compile the Lean lemma file if lean is present.
cd "$(dirname "$0")" || exit 1
python3-vt -c "import z3; assert z3.get_version_string().startswith('5.')" || { echo "z3-solver 5.x missing in python3-vt"; exit 1; }
/venv/bin/python -c "import ast, sys; assert sys.version_info[:2] >= (3, 9)" || exit 1
mkdir -p build evidence replays
if [ -f lean/FuncAdlLemmas.lean ] && command -v lean >/dev/null 2>&1; then
  ( cd lean && timeout 900 lean FuncAdlLemmas.lean > ../build/lean.log 2>&1 && echo ok > ../build/lean.ok ) || { echo "lean lemma file failed"; cat build/lean.log; rm -f build/lean.ok; }
fi
exit 0
