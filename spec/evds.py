# Spec functions for find_EventDataset (C12): the dataset calls a query contains.
import ast
from specrt import *   # noqa


def is_ds_call(n: Py) -> B:
    return isinstance(n, ast.Call) and isinstance(n.func, ast.Name) and n.func.id == "EventDataset"


def ds_calls(n: Py) -> L:
    """The EventDataset(...) calls of a query, in visiting order; the finder does not look inside
    an EventDataset call it has found."""
    if is_ds_call(n):
        return [n]
    return fold_children(ds_calls, n)


def lem_ds_head(n: Py) -> B:
    """Whatever ds_calls finds first is a dataset call (in particular it is a node, not None)."""
    return implies(not is_empty(ds_calls(n)), is_ds_call(head(ds_calls(n))))


def lem_ds_head_list(l: L) -> B:
    return implies(all_list(lem_ds_head, l),
                   implies(not is_empty(cat_list(ds_calls, l)),
                           is_ds_call(head(cat_list(ds_calls, l)))))
