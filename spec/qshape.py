# Query-shape invariant of the simplifier (C18): what simplify_chained_calls relies on, and
# re-establishes, about the calls of the three stream operators and of First.
import ast
from specrt import *   # noqa


def op_lambda(l: Py) -> B:
    """The function argument of an operator call: a plain Lambda with at least one parameter."""
    return isinstance(l, ast.Lambda) and len(l.args.args) >= 1


def qs_local(n: Py) -> B:
    if isinstance(n, ast.Call) and isinstance(n.func, ast.Name):
        if n.func.id == "Select" or n.func.id == "SelectMany" or n.func.id == "Where":
            return len(n.args) == 2 and op_lambda(n.args[1])
        if n.func.id == "First":
            return len(n.args) >= 1
    if isinstance(n, ast.Dict):
        return len(n.keys) == len(n.values)      # what Python's parser builds
    return True


def qs(n: Py) -> B:
    """Query shape, at every depth: Select/SelectMany/Where(source, lambda) have exactly two
    arguments, the second a Lambda with a parameter; First(...) has an argument; a dictionary
    display has as many keys as values."""
    return qs_local(n) and all_children(qs, n)


def good(n: Py) -> B:
    """A well-formed expression of query shape."""
    return is_expr(n) and wf(n) and qs(n)


def same_kind(a: Py, b: Py) -> B:
    """What visit() preserves: expressions stay expressions, a Lambda stays a Lambda with the same
    number of positional parameters."""
    return implies(is_expr(a), is_expr(b)) and \
        implies(isinstance(a, ast.Lambda),
                isinstance(b, ast.Lambda) and len(b.args.args) == len(a.args.args))


def same_class(a: Py, b: Py) -> B:
    """b is a node of the very class of a (what NodeTransformer.generic_visit returns: the node it
    was given); stated for the classes the contracts need."""
    return implies(isinstance(a, ast.UnaryOp), isinstance(b, ast.UnaryOp)) and \
        implies(isinstance(a, ast.BinOp), isinstance(b, ast.BinOp)) and \
        implies(isinstance(a, ast.BoolOp), isinstance(b, ast.BoolOp)) and \
        implies(isinstance(a, ast.Compare), isinstance(b, ast.Compare)) and \
        implies(isinstance(a, ast.IfExp), isinstance(b, ast.IfExp)) and \
        implies(isinstance(a, ast.Subscript), isinstance(b, ast.Subscript)) and \
        implies(isinstance(a, ast.Attribute), isinstance(b, ast.Attribute)) and \
        implies(isinstance(a, ast.Dict), isinstance(b, ast.Dict)) and \
        implies(isinstance(a, ast.Call), isinstance(b, ast.Call))
