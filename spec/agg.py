# Spec functions for C19 (aggregate shortcuts).  Restricted Python: executed natively on real
# ast nodes (engine B, replay) and compiled to z3 RecFunctions (engine P).
import ast
from specrt import *   # noqa  (native runtime: map_children, fold_lambda, ...)


def agg_lower(n: Py) -> Py:
    """len(s)/Count(s)/Sum(s)/Max(s)/Min(s) with exactly one positional argument -> Aggregate fold
    seeded with 0; every other node rebuilt homomorphically (property C19)."""
    if isinstance(n, ast.Call) and isinstance(n.func, ast.Name) and len(n.args) == 1:
        if n.func.id == "len" or n.func.id == "Count":
            return agg_call(agg_lower(n.args[0]), "count")
        if n.func.id == "Sum":
            return agg_call(agg_lower(n.args[0]), "sum")
        if n.func.id == "Max":
            return agg_call(agg_lower(n.args[0]), "max")
        if n.func.id == "Min":
            return agg_call(agg_lower(n.args[0]), "min")
    return map_children(agg_lower, n)


def agg_call(seq: Py, kind: S) -> Py:
    return ast.Call(ast.Name("Aggregate"), [seq, ast.Constant(0), fold_lambda(kind)], [])


def agg_kwfree(n: Py) -> B:
    """Domain restriction (stated in DESIGN C19): calls to the five shortcut names carry no
    keyword arguments — the property is silent about them."""
    if isinstance(n, ast.Call) and isinstance(n.func, ast.Name):
        if n.func.id == "len" or n.func.id == "Count" or n.func.id == "Sum" \
                or n.func.id == "Max" or n.func.id == "Min":
            if len(n.keywords) != 0:
                return False
    return all_children(agg_kwfree, n)
