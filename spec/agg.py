# Spec functions for C19 (aggregate shortcuts).  Restricted Python: executed natively on real
# ast nodes (engine B, replay) and compiled to z3 RecFunctions (engine P).
import ast
from specrt import *   # noqa  (native runtime: map_children, fold_lambda, ...)


def agg_lower(n: Py) -> Py:
    """len(s)/Count(s)/Sum(s)/Max(s)/Min(s) with exactly one argument (one plain positional
    argument, no keyword, not starred) -> Aggregate fold seeded with 0; every other node, calls with
    another argument count included, rebuilt homomorphically (property C19)."""
    if isinstance(n, ast.Call) and isinstance(n.func, ast.Name) and len(n.args) == 1 \
            and len(n.keywords) == 0 and not isinstance(n.args[0], ast.Starred):
        if n.func.id == "len" or n.func.id == "Count":
            return agg_call(agg_lower(n.args[0]), "count")
        if n.func.id == "Sum":
            return agg_call(agg_lower(n.args[0]), "sum")
        if n.func.id == "Max":
            return agg_call(agg_lower(n.args[0]), "max")
        if n.func.id == "Min":
            return agg_call(agg_lower(n.args[0]), "min")
    return map_children(agg_lower, n)


def agg_call(seq: Py, kind: S) -> Py:
    return ast.Call(ast.Name("Aggregate"), [seq, ast.Constant(0), fold_lambda(kind)], [])
