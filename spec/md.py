# Spec functions for C15 (MetaData extraction / empty-metadata removal) and C16 (query metadata).
import ast
from specrt import *   # noqa


def is_md_call(n: Py) -> B:
    if isinstance(n, ast.Call) and isinstance(n.func, ast.Name):
        return n.func.id == "MetaData"
    return False


def lit(n: Py) -> B:
    """Literal expressions (an under-approximation of what ast.literal_eval accepts): constants,
    tuples / lists / sets / dicts of literals, a sign on a literal."""
    if isinstance(n, ast.Constant):
        return True
    if isinstance(n, ast.Tuple) or isinstance(n, ast.List) or isinstance(n, ast.Set):
        return all_list(lit, n.elts)
    if isinstance(n, ast.Dict):
        return all_list(lit, n.keys) and all_list(lit, n.values)
    if isinstance(n, ast.UnaryOp):
        if isinstance(n.op, ast.USub) or isinstance(n.op, ast.UAdd):
            return lit(n.operand)
        return False
    return False


def md_wf(n: Py) -> B:
    """Input invariant (what the library itself emits): every MetaData wrapper has exactly two
    arguments and its second argument is a literal."""
    if is_md_call(n):
        if len(n.args) != 2:
            return False
        if not lit(n.args[1]):
            return False
    if isinstance(n, ast.Call):
        if isinstance(n.func, ast.Call):
            return False      # stated domain restriction: the callee of a call is never itself
                              # the result of a call (in particular never a MetaData wrapper)
    return all_children(md_wf, n)


def strip_metadata(n: Py) -> Py:
    """Every MetaData wrapper, at any depth, replaced by its (stripped) source; nothing else
    changes."""
    if is_md_call(n) and len(n.args) == 2:
        return strip_metadata(n.args[0])
    return map_children(strip_metadata, n)


def collect_metadata(n: Py) -> L:
    """The dictionaries of all wrappers, an outer wrapper before the wrappers inside its source
    (pre-order)."""
    if is_md_call(n) and len(n.args) == 2:
        return cons(literal_value(n.args[1]), collect_metadata(n.args[0]))
    return fold_children(collect_metadata, n)


def is_empty_dict(d: Py) -> B:
    if isinstance(d, dict):
        return len(d) == 0
    return False


def drop_here(n: Py) -> Py:
    """n's children are already cleaned: drop n itself iff it is an empty wrapper."""
    if is_md_call(n) and len(n.args) == 2:
        if is_empty_dict(literal_value(n.args[1])):
            return n.args[0]
    return n


def drop_empty_metadata(n: Py) -> Py:
    """Exactly the wrappers whose dictionary is empty are removed, all others kept in place."""
    return drop_here(map_children(drop_empty_metadata, n))


# ---- lemmas ------------------------------------------------------------------------------------
def lem_lit_fixed_drop(n: Py) -> B:
    """Literals contain no calls: the cleaner leaves them untouched."""
    return implies(lit(n), same(drop_empty_metadata(n), n))


def lem_lit_fixed_drop_list(l: L) -> B:
    return implies(all_list(lem_lit_fixed_drop, l) and all_list(lit, l),
                   same(map_list(drop_empty_metadata, l), l))
