# Spec functions for check_ast (C04, C10, C13): constants that can be transported to a backend.
import ast
from specrt import *   # noqa


def legal_const(v: Py) -> B:
    return isinstance(v, str) or isinstance(v, int) or isinstance(v, float) or isinstance(v, bytes) \
        or v is None or is_complex(v) or is_module(v)


def all_legal(n: Py) -> B:
    """No Constant anywhere in the tree holds a value of a non-transportable type."""
    if isinstance(n, ast.Constant):
        if not legal_const(n.value):
            return False
    return all_children(all_legal, n)
