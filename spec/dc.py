# Spec functions for the data-class / named-tuple lowering of C06
# (syntatic_sugar.py::convert_call_to_dict): a constructor call becomes a dictionary whose keys are
# the field names bound as Python binds positional and keyword arguments.
# R is always the keyword list of the call REVERSED (the last keyword of a name wins, as in the
# dictionary the code builds from the keywords).
import ast
from specrt import *   # noqa
from util import *   # noqa


def kwp_has(kws: L, name: Py) -> B:
    if is_empty(kws):
        return False
    if isinstance(head(kws), ast.keyword):
        if head(kws).arg == name:
            return True
    return kwp_has(tail(kws), name)


def kwp_value(kws: L, name: Py) -> Py:
    """Value of the FIRST keyword called name, None if there is none."""
    if is_empty(kws):
        return None
    if isinstance(head(kws), ast.keyword):
        if head(kws).arg == name:
            return head(kws).value
    return kwp_value(tail(kws), name)


def kwdict_rev(rl: L) -> Py:
    """The dictionary {k.arg: k.value for k in keywords}, from the reversed keyword list."""
    if is_empty(rl):
        return {}
    if isinstance(head(rl), ast.keyword):
        return dict_put(kwdict_rev(tail(rl)), head(rl).arg, head(rl).value)
    return kwdict_rev(tail(rl))


def kw_args(rl: L) -> L:
    if is_empty(rl):
        return []
    if isinstance(head(rl), ast.keyword):
        return cons(head(rl).arg, kw_args(tail(rl)))
    return kw_args(tail(rl))


def sel_names(ns: L, rl: L) -> L:
    """The names of ns that some keyword gives, in the order of ns (declaration order)."""
    if is_empty(ns):
        return []
    if kwp_has(rl, head(ns)):
        return cons(head(ns), sel_names(tail(ns), rl))
    return sel_names(tail(ns), rl)


def sel_vals(ns: L, rl: L) -> L:
    """... and the values given for them."""
    if is_empty(ns):
        return []
    if kwp_has(rl, head(ns)):
        return cons(kwp_value(rl, head(ns)), sel_vals(tail(ns), rl))
    return sel_vals(tail(ns), rl)


def consts(ns: L) -> L:
    if is_empty(ns):
        return []
    return cons(ast.Constant(head(ns)), consts(tail(ns)))


def bad_kw(ks: L, names: L, npos: I) -> B:
    """Some keyword names no field, or a field already bound by position."""
    if is_empty(ks):
        return False
    if not list_contains(names, head(ks)):
        return True
    if list_contains(take(names, npos), head(ks)):
        return True
    return bad_kw(tail(ks), names, npos)


def kws_ok(l: L) -> B:
    """A keyword list as the grammar has it: keyword nodes named by a string (or None for **kw)
    whose values are nodes."""
    if is_empty(l):
        return True
    if not isinstance(head(l), ast.keyword):
        return False
    if not (head(l).arg is None or isinstance(head(l).arg, str)):
        return False
    if not is_node(head(l).value):
        return False
    return kws_ok(tail(l))


# ---- lemmas -------------------------------------------------------------------------------------
def lem_kd(rl: L, n: Py) -> B:
    """Looking a name up in the keyword dictionary is looking it up in the (reversed) keyword list."""
    return implies(kws_ok(rl) and isinstance(n, str),
                   dict_has(kwdict_rev(rl), n) == kwp_has(rl, n) and
                   implies(kwp_has(rl, n), same(dict_get(kwdict_rev(rl), n), kwp_value(rl, n))))


def lem_sel_names_snoc(d: L, x: Py, rl: L) -> B:
    return same(sel_names(concat(d, [x]), rl),
                concat(sel_names(d, rl), [x]) if kwp_has(rl, x) else sel_names(d, rl))


def lem_sel_vals_snoc(d: L, x: Py, rl: L) -> B:
    return same(sel_vals(concat(d, [x]), rl),
                concat(sel_vals(d, rl), [kwp_value(rl, x)]) if kwp_has(rl, x) else sel_vals(d, rl))


def lem_consts_snoc(d: L, x: Py) -> B:
    return same(consts(concat(d, [x])), concat(consts(d), [ast.Constant(x)]))


def lem_consts_cat(a: L, b: L) -> B:
    return same(consts(concat(a, b)), concat(consts(a), consts(b)))


def lem_bad_kw_cat(d: L, r: L, names: L, npos: I) -> B:
    return bad_kw(concat(d, r), names, npos) == (bad_kw(d, names, npos) or bad_kw(r, names, npos))


def lem_allkw_rev(l: L, acc: L) -> B:
    return implies(kws_ok(l) and kws_ok(acc), kws_ok(rev_acc(l, acc)))


def lem_kdict(rl: L) -> B:
    return is_dict(kwdict_rev(rl))


def lem_kkeys(rl: L) -> B:
    return same(dict_keys(kwdict_rev(rl)), kw_args(rl))


def lem_all_str_drop(l: L, n: I) -> B:
    return implies(all_str(l), all_str(drop(l, n)))


def lem_all_str_drop_ih(l: L, n: I) -> B:
    return lem_all_str_drop(tail(l), n - 1)


def lem_cat_assoc(a: L, b: L, c: L) -> B:
    return same(concat(concat(a, b), c), concat(a, concat(b, c)))


# ---- well-formedness of the lowered constructor call ----------------------------------------------
def lem_consts_wf(l: L) -> B:
    return implies(all_str(l), wf_exprs(consts(l)))


def lem_kwval_wf(rl: L, n: Py) -> B:
    return implies(wf_kwlist(rl) and kwp_has(rl, n), wf(kwp_value(rl, n)) and is_expr(kwp_value(rl, n)))


def lem_selvals_wf(ns: L, rl: L) -> B:
    return implies(wf_kwlist(rl), wf_exprs(sel_vals(ns, rl)))


def lem_wfe_cat(a: L, b: L) -> B:
    return implies(wf_exprs(a) and wf_exprs(b), wf_exprs(concat(a, b)))


def lem_wfk_rev(l: L, acc: L) -> B:
    return implies(wf_kwlist(l) and wf_kwlist(acc), wf_kwlist(rev_acc(l, acc)))


def lem_all_str_take(l: L, n: I) -> B:
    return implies(all_str(l), all_str(take(l, n)))


def lem_all_str_take_ih(l: L, n: I) -> B:
    return lem_all_str_take(tail(l), n - 1)


def lem_all_str_cat(a: L, b: L) -> B:
    return implies(all_str(a) and all_str(b), all_str(concat(a, b)))


def lem_selnames_str(ns: L, rl: L) -> B:
    return implies(all_str(ns), all_str(sel_names(ns, rl)))
