# Spec functions for the stream-level contracts (C12, C13, C16).
import ast
from specrt import *   # noqa


def as_column_list(c: Py) -> Py:
    """A single column name becomes a one-element list."""
    if isinstance(c, str):
        return [c]
    return c


def has_executor_on_spine(n: Py) -> B:
    """Some node on the args[0] chain of n carries the executor reference."""
    if has_attr_executor(n):
        return True
    if isinstance(n, ast.Call):
        if len(n.args) >= 1:
            return has_executor_on_spine(n.args[0])
        return False
    return False


def spine_executor(n: Py) -> Py:
    """The executor of the FIRST node on the args[0] chain that carries one."""
    if has_attr_executor(n):
        return attr_executor(n)
    if isinstance(n, ast.Call):
        if len(n.args) >= 1:
            return spine_executor(n.args[0])
        return None
    return None


def md_over(a: Py, base: Py) -> B:
    """a is base under zero or more MetaData(<source>, <dictionary>) wrappers."""
    if a == base:
        return True
    if isinstance(a, ast.Call) and isinstance(a.func, ast.Name) and a.func.id == "MetaData":
        if len(a.args) >= 1:
            return md_over(a.args[0], base)
        return False
    return False
