# Spec functions for the util_ast helpers (C02/C03/C05/C06 building blocks).
import ast
from specrt import *   # noqa


def is_lambda_or_wrapped(lam: Py) -> B:
    """lam is a Lambda, or a Module whose first statement is Expr(Lambda) — the shapes
    lambda_unwrap accepts."""
    if isinstance(lam, ast.Lambda):
        return True
    if isinstance(lam, ast.Module):
        if len(lam.body) >= 1 and isinstance(lam.body[0], ast.Expr):
            return isinstance(lam.body[0].value, ast.Lambda)
        return False
    return False


def unwrap_spec(lam: Py) -> Py:
    if isinstance(lam, ast.Module):
        if len(lam.body) >= 1 and isinstance(lam.body[0], ast.Expr):
            return lam.body[0].value
        return lam
    return lam


def names_of(args: Py) -> L:
    """lambda_build / lambda_call accept one name or a list of names."""
    if isinstance(args, str):
        return [args]
    if isinstance(args, list):
        return args
    return []


def arg_nodes(names: L) -> L:
    if is_empty(names):
        return []
    return cons(ast.arg(head(names), None), arg_nodes(tail(names)))


def name_nodes(names: L) -> L:
    if is_empty(names):
        return []
    return cons(ast.Name(head(names)), name_nodes(tail(names)))


def is_identity_lambda(lam: Py) -> B:
    """A one-parameter lambda (possibly Module-wrapped with exactly one statement) whose body is
    that parameter."""
    if isinstance(lam, ast.Module):
        if len(lam.body) != 1:
            return False
        if not isinstance(lam.body[0], ast.Expr):
            return False
        return is_identity_lambda_core(lam.body[0].value)
    return is_identity_lambda_core(lam)


def is_identity_lambda_core(lb: Py) -> B:
    if not isinstance(lb, ast.Lambda):
        return False
    if not isinstance(lb.args, ast.arguments):
        return False
    if len(lb.args.args) != 1:
        return False
    if not isinstance(lb.body, ast.Name):
        return False
    if not isinstance(lb.args.args[0], ast.arg):
        return False
    return lb.args.args[0].arg == lb.body.id


def is_true_lambda(lam: Py) -> B:
    if isinstance(lam, ast.Module):
        if len(lam.body) != 1:
            return False
        if not isinstance(lam.body[0], ast.Expr):
            return False
        return is_true_lambda_core(lam.body[0].value)
    return is_true_lambda_core(lam)


def is_true_lambda_core(lb: Py) -> B:
    if not isinstance(lb, ast.Lambda):
        return False
    if not isinstance(lb.body, ast.Constant):
        return False
    return lb.body.value is True


def is_docstring_stmt(b: Py) -> B:
    if isinstance(b, ast.Expr):
        return isinstance(b.value, ast.Constant)
    return False


def interesting(body: L) -> L:
    if is_empty(body):
        return []
    if is_docstring_stmt(head(body)):
        return interesting(tail(body))
    return cons(head(body), interesting(tail(body)))


def single_return(f: Py) -> B:
    if not isinstance(f, ast.FunctionDef):
        return False
    if len(interesting(f.body)) != 1:
        return False
    return isinstance(head(interesting(f.body)), ast.Return)


def the_return(f: Py) -> Py:
    return head(interesting(f.body))
