# Spec functions for the util_ast helpers (C02/C03/C05/C06 building blocks).
import ast
from specrt import *   # noqa


def is_lambda_or_wrapped(lam: Py) -> B:
    """lam is a Lambda, or a Module whose first statement is Expr(Lambda) — the shapes
    lambda_unwrap accepts."""
    if isinstance(lam, ast.Lambda):
        return True
    if isinstance(lam, ast.Module):
        if len(lam.body) >= 1 and isinstance(lam.body[0], ast.Expr):
            return isinstance(lam.body[0].value, ast.Lambda)
        return False
    return False


def module_has_stmt(lam: Py) -> B:
    """Input invariant of lambda_unwrap (from its call sites: modules come from ast.parse of a
    lambda's source): a Module is non-empty and starts with an expression statement."""
    if isinstance(lam, ast.Module):
        if len(lam.body) >= 1:
            return isinstance(lam.body[0], ast.Expr)
        return False
    return True


def unwrap_spec(lam: Py) -> Py:
    if isinstance(lam, ast.Module):
        if len(lam.body) >= 1 and isinstance(lam.body[0], ast.Expr):
            return lam.body[0].value
        return lam
    return lam


def names_of(args: Py) -> L:
    """lambda_build / lambda_call accept one name or a list of names."""
    if isinstance(args, str):
        return [args]
    if isinstance(args, list):
        return args
    return []


def wrapped1(lam: Py) -> B:
    """A Lambda, or a Module with EXACTLY one statement that is Expr(Lambda) (what lambda_test
    accepts)."""
    if isinstance(lam, ast.Lambda):
        return True
    if isinstance(lam, ast.Module):
        if len(lam.body) != 1:
            return False
        if not isinstance(lam.body[0], ast.Expr):
            return False
        return isinstance(lam.body[0].value, ast.Lambda)
    return False


def lambda_nargs(lam: Py) -> I:
    """Number of positional parameters of a (possibly wrapped) lambda; -1 if not of that shape."""
    if isinstance(unwrap_spec(lam), ast.Lambda):
        if isinstance(unwrap_spec(lam).args, ast.arguments):
            return len(unwrap_spec(lam).args.args)
    return -1


def lambda_body_of(lam: Py) -> Py:
    if isinstance(unwrap_spec(lam), ast.Lambda):
        return unwrap_spec(lam).body
    return None


def lambda_args_of(lam: Py) -> Py:
    if isinstance(unwrap_spec(lam), ast.Lambda):
        return unwrap_spec(lam).args
    return None


def is_identity_lambda(lam: Py) -> B:
    """A one-parameter lambda (possibly Module-wrapped with exactly one statement) whose body is
    that parameter."""
    if isinstance(lam, ast.Module):
        if len(lam.body) != 1:
            return False
        if not isinstance(lam.body[0], ast.Expr):
            return False
        return is_identity_lambda_core(lam.body[0].value)
    return is_identity_lambda_core(lam)


def is_identity_lambda_core(lb: Py) -> B:
    if not isinstance(lb, ast.Lambda):
        return False
    if not isinstance(lb.args, ast.arguments):
        return False
    if len(lb.args.args) != 1:
        return False
    if not isinstance(lb.body, ast.Name):
        return False
    if not isinstance(lb.args.args[0], ast.arg):
        return False
    return lb.args.args[0].arg == lb.body.id


def is_true_lambda(lam: Py) -> B:
    if isinstance(lam, ast.Module):
        if len(lam.body) != 1:
            return False
        if not isinstance(lam.body[0], ast.Expr):
            return False
        return is_true_lambda_core(lam.body[0].value)
    return is_true_lambda_core(lam)


def is_true_lambda_core(lb: Py) -> B:
    if not isinstance(lb, ast.Lambda):
        return False
    if not isinstance(lb.body, ast.Constant):
        return False
    return lb.body.value is True


def interesting(body: L) -> L:
    """Statements of a function body that are not bare constant expressions (docstrings)."""
    return [b for b in body if not (isinstance(b, ast.Expr) and isinstance(b.value, ast.Constant))]


def single_return(f: Py) -> B:
    if not isinstance(f, ast.FunctionDef):
        return False
    if len(interesting(f.body)) != 1:
        return False
    return isinstance(head(interesting(f.body)), ast.Return)


def the_return(f: Py) -> Py:
    return head(interesting(f.body))


# ---- parameter lists ----------------------------------------------------------------------------
def is_argn(x: Py) -> B:
    """A well-formed `arg` node (a parameter: its name is a string)."""
    return isinstance(x, ast.arg) and wf(x)


def lem_argl(l: L) -> B:
    """The grammar's `arg*` lists hold well-formed arg nodes."""
    return implies(wf_arglist(l), all_list(is_argn, l))


def lem_all_argn_cat(a: L, b: L) -> B:
    return implies(all_list(is_argn, a) and all_list(is_argn, b), all_list(is_argn, concat(a, b)))


def all_str(l: L) -> B:
    if is_empty(l):
        return True
    return isinstance(head(l), str) and all_str(tail(l))


def lem_all_str_snoc(l: L, x: Py) -> B:
    return implies(all_str(l) and isinstance(x, str), all_str(concat(l, [x])))


# ---- keyword lists --------------------------------------------------------------------------------
def is_goodkw(k: Py) -> B:
    """A well-formed keyword argument of query shape."""
    return isinstance(k, ast.keyword) and wf(k) and qs(k)


def lem_kwl_in(l: L) -> B:
    """What well-formedness and query shape of a call say about its keyword list, element-wise."""
    return implies(wf_kwlist(l) and all_list(qs, l), all_list(is_goodkw, l))


def lem_kwl_out(l: L) -> B:
    return implies(all_list(is_goodkw, l), wf_kwlist(l) and all_list(qs, l))


def lem_goodkw_snoc(l: L, x: Py) -> B:
    return implies(all_list(is_goodkw, l) and is_goodkw(x), all_list(is_goodkw, concat(l, [x])))


def lem_all_str_in(l: L, x: Py) -> B:
    return implies(all_str(l) and list_contains(l, x), isinstance(x, str))


def is_nodes(l: L) -> B:
    if is_empty(l):
        return True
    return is_node(head(l)) and wf(head(l)) and is_nodes(tail(l))


# ---- the renaming stack of make_args_unique: a list of (old name, new name) pairs -----------------
def is_str_pair(p: Py) -> B:
    return isinstance(p, tuple) and len(items_of(p)) == 2 and isinstance(nth(items_of(p), 0), str) \
        and isinstance(nth(items_of(p), 1), str)


def pairs_ok(l: L) -> B:
    return all_list(is_str_pair, l)


def lem_pairs_rev(l: L, acc: L) -> B:
    return implies(pairs_ok(l) and pairs_ok(acc), pairs_ok(rev_acc(l, acc)))


def lem_pairs_cat(a: L, b: L) -> B:
    return implies(pairs_ok(a) and pairs_ok(b), pairs_ok(concat(a, b)))


def is_plain_arg(x: Py) -> B:
    """arg(name, annotation=None): what make_args_unique builds."""
    return isinstance(x, ast.arg) and x.annotation is None and isinstance(x.arg, str)


def lem_plain_snoc(l: L, x: Py) -> B:
    return implies(all_list(is_plain_arg, l) and is_plain_arg(x), all_list(is_plain_arg, concat(l, [x])))


def lem_pairs_snoc(l: L, x: Py) -> B:
    return implies(pairs_ok(l) and is_str_pair(x), pairs_ok(concat(l, [x])))


def lem_take_all(l: L) -> B:
    return same(take(l, len(l)), l)


def lem_take_take(l: L, n: I, m: I) -> B:
    """Taking m of the first n is taking m, when m <= n."""
    return implies(0 <= m and m <= n, same(take(take(l, n), m), take(l, m)))


def lem_take_take_ih(l: L, n: I, m: I) -> B:
    return lem_take_take(tail(l), n - 1, m - 1)


def lem_pa1(l: L) -> B:
    return implies(all_list(is_plain_arg, l), wf_arglist(l))


def lem_qs_snoc(l: L, x: Py) -> B:
    return implies(all_list(qs, l) and qs(x), all_list(qs, concat(l, [x])))
