# Spec functions for func_adl/util_ast.py::_rewrite_captured_vars (C04): which names are BOUND at a
# point of the lambda (its own parameters, those of nested lambdas, comprehension targets) and are
# therefore never replaced by captured values.
import ast
from specrt import *   # noqa
from util import *   # noqa


def flat(st: L) -> L:
    """The concatenation of the lists held in the list st (the frames of the ignore stack)."""
    if is_empty(st):
        return []
    return concat(items_of(head(st)), flat(tail(st)))


def all_in(xs: L, ys: L) -> B:
    if is_empty(xs):
        return True
    return list_contains(ys, head(xs)) and all_in(tail(xs), ys)


def arg_names(l: L) -> L:
    if is_empty(l):
        return []
    return cons(head(l).arg, arg_names(tail(l)))


def opt_node(x: Py) -> L:
    """[] for an absent *args / **kw parameter, [the arg node] otherwise."""
    if x is None:
        return []
    return [x]


def param_nodes(a: Py) -> L:
    """Every parameter of a Lambda's `arguments` node: positional-only, plain, keyword-only,
    *args, **kw."""
    return concat(concat(concat(a.posonlyargs, a.args), a.kwonlyargs),
                  concat(opt_node(a.vararg), opt_node(a.kwarg)))


def params_all(a: Py) -> L:
    """... and the names they bind."""
    return arg_names(param_nodes(a))


def name_ids(l: L) -> L:
    if is_empty(l):
        return []
    if isinstance(head(l), ast.Name):
        return cons(head(l).id, name_ids(tail(l)))
    return name_ids(tail(l))


def comp_targets(gens: L) -> L:
    """The names bound by the `for` targets of a comprehension's generators."""
    if is_empty(gens):
        return []
    return concat(name_ids(walk(head(gens).target)), comp_targets(tail(gens)))


def binders_on(n: Py, st: L) -> B:
    """Scoping rule: while the children of a binder node are being visited, every name it binds is
    on the ignore stack."""
    if isinstance(n, ast.Lambda):
        return all_in(params_all(n.args), flat(st))
    if isinstance(n, ast.ListComp) or isinstance(n, ast.GeneratorExp) or isinstance(n, ast.SetComp) \
            or isinstance(n, ast.DictComp):
        return all_in(comp_targets(n.generators), flat(st))
    return True


# ---- lemmas -------------------------------------------------------------------------------------
def lem_flat_snoc(st: L, f: L) -> B:
    return same(flat(concat(st, [f])), concat(flat(st), f))


def lem_all_in_right(xs: L, a: L) -> B:
    """Everything of xs is in a ++ xs."""
    return all_in(xs, concat(a, xs))


def lem_all_in_mono(xs: L, a: L, b: L) -> B:
    return implies(all_in(xs, b), all_in(xs, concat(a, b)))


def lem_contains_cat(a: L, b: L, x: Py) -> B:
    return list_contains(concat(a, b), x) == (list_contains(a, x) or list_contains(b, x))


def lem_arg_names_snoc(d: L, x: Py) -> B:
    return same(arg_names(concat(d, [x])), concat(arg_names(d), [x.arg]))


def lem_all_in_right_ih(xs: L, a: L) -> B:
    return lem_all_in_right(tail(xs), concat(a, [head(xs)]))


def items_or_nil(x: Py) -> L:
    return items_of(x)


def lem_argn_opt(a: Py) -> B:
    """The optional *args / **kw parameters of a well-formed `arguments` node are arg nodes."""
    return implies(isinstance(a, ast.arguments) and wf(a),
                   all_list(is_argn, concat(opt_node(a.vararg), opt_node(a.kwarg))))


def lem_comp_targets_snoc(d: L, g: Py) -> B:
    return same(comp_targets(concat(d, [g])), concat(comp_targets(d), name_ids(walk(g.target))))


def lem_name_ids_snoc(d: L, x: Py) -> B:
    return same(name_ids(concat(d, [x])),
                concat(name_ids(d), [x.id]) if isinstance(x, ast.Name) else name_ids(d))
