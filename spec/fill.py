# Spec functions for C07 (_find_keyword / _fill_in_default_arguments).
import ast
from specrt import *   # noqa


def kw_has(kws: L, name: S) -> B:
    if is_empty(kws):
        return False
    if isinstance(head(kws), ast.keyword):
        if head(kws).arg == name:
            return True
    return kw_has(tail(kws), name)


def kw_value(kws: L, name: S) -> Py:
    """Value of the FIRST keyword called name, None if there is none."""
    if is_empty(kws):
        return None
    if isinstance(head(kws), ast.keyword):
        if head(kws).arg == name:
            return head(kws).value
    return kw_value(tail(kws), name)


def kw_without(kws: L, name: S) -> L:
    """The keyword list minus the first keyword called name (order kept)."""
    if is_empty(kws):
        return []
    if isinstance(head(kws), ast.keyword):
        if head(kws).arg == name:
            return tail(kws)
    return cons(head(kws), kw_without(tail(kws), name))


def all_keywords(kws: L) -> B:
    """Input invariant: a list of keyword nodes whose values are nodes (never None)."""
    if is_empty(kws):
        return True
    if not isinstance(head(kws), ast.keyword):
        return False
    if not is_node(head(kws).value):
        return False
    return all_keywords(tail(kws))


def is_param(p: Py) -> B:
    return is_param_record(p) and isinstance(param_name(p), str)


def all_params(ps: L) -> B:
    if is_empty(ps):
        return True
    return is_param(head(ps)) and all_params(tail(ps))


def nonself(ps: L) -> L:
    if is_empty(ps):
        return []
    if param_name(head(ps)) == "self":
        return nonself(tail(ps))
    return cons(head(ps), nonself(tail(ps)))


def has_default(p: Py) -> B:
    return not is_empty_marker(param_default(p))


def literal_default(p: Py) -> B:
    """The declared default can be written as a literal."""
    d = param_default(p)
    return isinstance(d, str) or isinstance(d, int) or isinstance(d, float) or isinstance(d, bytes) \
        or d is None or is_complex(d)


def bind_tail(ps: L, n: I, kws: L) -> L:
    """Property C07: the values of the parameters ps[n:], in declaration order — the keyword value
    if the user gave one, else the declared default as a literal.  Filling stops at a parameter that
    is missing (ValueError, see fill_missing) or whose default is not a literal."""
    if is_empty(ps):
        return []
    if n > 0:
        return bind_tail(tail(ps), n - 1, kws)
    if kw_has(kws, param_name(head(ps))):
        return cons(kw_value(kws, param_name(head(ps))),
                    bind_tail(tail(ps), 0, kw_without(kws, param_name(head(ps)))))
    if has_default(head(ps)) and literal_default(head(ps)):
        return cons(ast.Constant(param_default(head(ps))), bind_tail(tail(ps), 0, kws))
    return []


def kws_left(ps: L, n: I, kws: L) -> L:
    """The keywords that were NOT consumed, in their original order."""
    if is_empty(ps):
        return kws
    if n > 0:
        return kws_left(tail(ps), n - 1, kws)
    if kw_has(kws, param_name(head(ps))):
        return kws_left(tail(ps), 0, kw_without(kws, param_name(head(ps))))
    if has_default(head(ps)) and literal_default(head(ps)):
        return kws_left(tail(ps), 0, kws)
    return kws


def fill_missing(ps: L, n: I, kws: L) -> B:
    """A parameter beyond the positional ones has neither a keyword nor a default (reached before
    filling stops): the call must raise ValueError."""
    if is_empty(ps):
        return False
    if n > 0:
        return fill_missing(tail(ps), n - 1, kws)
    if kw_has(kws, param_name(head(ps))):
        return fill_missing(tail(ps), 0, kw_without(kws, param_name(head(ps))))
    if has_default(head(ps)):
        if literal_default(head(ps)):
            return fill_missing(tail(ps), 0, kws)
        return False
    return True


# ---- lemmas (list induction over the already scanned prefix d) --------------------------------
def lem_kwv(d: L, r: L, n: S) -> B:
    return implies(not kw_has(d, n), same(kw_value(concat(d, r), n), kw_value(r, n)))


def lem_kww(d: L, r: L, n: S) -> B:
    return implies(not kw_has(d, n), same(kw_without(concat(d, r), n), concat(d, kw_without(r, n))))


def lem_kwh(d: L, r: L, n: S) -> B:
    return implies(not kw_has(d, n), kw_has(concat(d, r), n) == kw_has(r, n))


def lem_rm(d: L, r: L, n: S) -> B:
    """list.remove(kw) removes kw itself when no earlier element is named like it."""
    return implies(not kw_has(d, n) and not is_empty(r) and isinstance(head(r), ast.keyword)
                   and head(r).arg == n and all_keywords(d),
                   same(remove_first(concat(d, r), head(r)), concat(d, tail(r))))


def lem_in(d: L, r: L) -> B:
    return implies(not is_empty(r), list_contains(concat(d, r), head(r)))


def lem_absent(l: L, n: S) -> B:
    return implies(not kw_has(l, n), same(kw_without(l, n), l) and kw_value(l, n) is None)


def lem_allkw_concat(d: L, r: L) -> B:
    return implies(all_keywords(d) and all_keywords(r), all_keywords(concat(d, r)))


def lem_allkw_without(l: L, n: S) -> B:
    return implies(all_keywords(l), all_keywords(kw_without(l, n)))
