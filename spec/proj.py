# Spec functions for the literal projections of simplify_chained_calls (C18, C14).
import ast
from specrt import *   # noqa


def int_const(s: Py) -> B:
    """A constant whose value is an int (Python: bool is an int)."""
    return isinstance(s, ast.Constant) and isinstance(s.value, int)


def seq_pick(elts: L, n: I) -> Py:
    """Python's elts[n] for -len <= n < len."""
    if n >= 0:
        return nth(elts, n)
    return nth(elts, len(elts) + n)


def all_const_keys(keys: L) -> B:
    return all(isinstance(k, ast.Constant) for k in keys)


def key_has(keys: L, s: Py) -> B:
    if is_empty(keys):
        return False
    if isinstance(head(keys), ast.Constant):
        if head(keys).value == s:
            return True
    return key_has(tail(keys), s)


def key_last(keys: L, s: Py) -> I:
    """Position of the LAST constant key equal to s (Python ==): the entry a Python dict display
    keeps when a key is written more than once.  Meaningful when key_has(keys, s)."""
    if is_empty(keys):
        return 0
    if key_has(tail(keys), s):
        return 1 + key_last(tail(keys), s)
    return 0


def dict_lookup(v: Py, s: Py) -> Py:
    """What Python's `{k0: v0, ...}[s]` evaluates to, as an expression: None unless every key is
    a constant and one equals s; then the value written next to the LAST such key."""
    if not all_const_keys(v.keys):
        return None
    if not key_has(v.keys, s):
        return None
    return nth(v.values, key_last(v.keys, s))


def dict_resolves(v: Py, s: Py) -> B:
    return all_const_keys(v.keys) and key_has(v.keys, s)


def lem_kh(d: L, r: L, s: Py) -> B:
    return implies(not key_has(d, s), key_has(concat(d, r), s) == key_has(r, s))


def lem_kha(d: L, r: L, s: Py) -> B:
    return key_has(concat(d, r), s) == (key_has(d, s) or key_has(r, s))


def lem_klr(d: L, r: L, s: Py) -> B:
    return implies(key_has(r, s), key_last(concat(d, r), s) == len(d) + key_last(r, s))


def lem_kld(d: L, r: L, s: Py) -> B:
    return implies(key_has(d, s) and not key_has(r, s), key_last(concat(d, r), s) == key_last(d, s))


def lem_klb(d: L, s: Py) -> B:
    return implies(key_has(d, s), 0 <= key_last(d, s) and key_last(d, s) < len(d))


def lem_ack(d: L, r: L) -> B:
    return implies(all_const_keys(concat(d, r)), all_const_keys(d) and all_const_keys(r))


def key_const(s: Py) -> B:
    return isinstance(s, ast.Constant) and (isinstance(s.value, str) or isinstance(s.value, int))


# ---- lists of positions (type_transformer.visit_Attribute collects the positions of the keys
# ---- that match and uses the last one)
def idx_below(l: L, n: I) -> B:
    """every element of l is an int i with 0 <= i < n"""
    if is_empty(l):
        return True
    if not isinstance(head(l), int):
        return False
    if head(l) < 0 or head(l) >= n:
        return False
    return idx_below(tail(l), n)


def lem_ib_mono(l: L, n: I) -> B:
    return implies(idx_below(l, n), idx_below(l, n + 1))


def lem_ib_snoc(l: L, x: Py, n: I) -> B:
    return idx_below(concat(l, [x]), n) == (idx_below(l, n) and isinstance(x, int) and 0 <= x and x < n)


def last_of(l: L) -> Py:
    """the last element of a non-empty list (recursive form of l[-1])"""
    if is_empty(tail(l)):
        return head(l)
    return last_of(tail(l))


def lem_lo_snoc(l: L, x: Py) -> B:
    return same(last_of(concat(l, [x])), x)


def lem_lo_nth(l: L) -> B:
    return implies(not is_empty(l), same(nth(l, len(l) - 1), last_of(l)))


def lem_ib_lo(l: L, n: I) -> B:
    return implies(idx_below(l, n) and not is_empty(l),
                   isinstance(last_of(l), int) and 0 <= last_of(l) and last_of(l) < n)


# ---- every dictionary display in a tree has as many keys as values (what Python's parser
# ---- builds; ast.Dict itself does not enforce it) — part of the type follower's hypothesis
def dok_local(n: Py) -> B:
    if isinstance(n, ast.Dict):
        return len(n.keys) == len(n.values)
    return True


def dok(n: Py) -> B:
    if not is_node(n):
        return True
    return dok_local(n) and all_children(dok, n)


def is_pair(x: Py) -> B:
    return isinstance(x, tuple) and len(x) == 2


def all_pairs(l: L) -> B:
    if is_empty(l):
        return True
    return is_pair(head(l)) and all_pairs(tail(l))


def lem_ap_cat(d: L, r: L) -> B:
    return implies(all_pairs(concat(d, r)), all_pairs(d) and all_pairs(r))


def lem_ap_snoc(l: L, x: Py) -> B:
    return implies(all_pairs(l) and is_pair(x), all_pairs(concat(l, [x])))
