# Spec functions for the literal projections of simplify_chained_calls (C18, C14).
import ast
from specrt import *   # noqa


def int_const(s: Py) -> B:
    """A constant whose value is an int (Python: bool is an int)."""
    return isinstance(s, ast.Constant) and isinstance(s.value, int)


def seq_pick(elts: L, n: I) -> Py:
    """Python's elts[n] for -len <= n < len."""
    if n >= 0:
        return nth(elts, n)
    return nth(elts, len(elts) + n)


def all_const_keys(keys: L) -> B:
    return all(isinstance(k, ast.Constant) for k in keys)


def key_has(keys: L, s: Py) -> B:
    if is_empty(keys):
        return False
    if isinstance(head(keys), ast.Constant):
        if head(keys).value == s:
            return True
    return key_has(tail(keys), s)


def key_index(keys: L, s: Py) -> I:
    """Position of the FIRST constant key equal to s (Python ==); len(keys) if there is none."""
    if is_empty(keys):
        return 0
    if isinstance(head(keys), ast.Constant):
        if head(keys).value == s:
            return 0
    return 1 + key_index(tail(keys), s)


def dict_lookup(v: Py, s: Py) -> Py:
    """visit_Subscript_Dict_with_value: None unless every key is a constant and one equals s;
    then the value written next to the first such key."""
    if not all_const_keys(v.keys):
        return None
    if not key_has(v.keys, s):
        return None
    return nth(v.values, key_index(v.keys, s))


def dict_resolves(v: Py, s: Py) -> B:
    return all_const_keys(v.keys) and key_has(v.keys, s)


def lem_kh(d: L, r: L, s: Py) -> B:
    return implies(not key_has(d, s), key_has(concat(d, r), s) == key_has(r, s))


def lem_ki(d: L, r: L, s: Py) -> B:
    return implies(not key_has(d, s), key_index(concat(d, r), s) == len(d) + key_index(r, s))


def lem_ack(d: L, r: L) -> B:
    return implies(all_const_keys(concat(d, r)), all_const_keys(d) and all_const_keys(r))


def key_const(s: Py) -> B:
    return isinstance(s, ast.Constant) and (isinstance(s.value, str) or isinstance(s.value, int))
