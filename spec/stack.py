# Spec functions for func_adl/ast/call_stack.py::argument_stack (a list of dictionaries, the
# newest frame last).  Used by C18 / C14 / C02.
import ast
from specrt import *   # noqa


def frame_good(d: Py) -> B:
    """A frame: a dictionary whose values are well-formed expressions of query shape."""
    return is_dict(d) and len(dict_keys(d)) == len(dict_values(d)) and all_list(good, dict_values(d))


def frames_good(fs: L) -> B:
    return all_list(frame_good, fs)


def lookup_rev(rfs: L, name: Py, default: Py) -> Py:
    """Look a name up in frames given NEWEST FIRST: the first frame that defines it wins."""
    if is_empty(rfs):
        return default
    if dict_has(head(rfs), name):
        return dict_get(head(rfs), name)
    return lookup_rev(tail(rfs), name, default)


def lem_fg_take(fs: L, n: I) -> B:
    """Dropping frames from the end keeps the rest good."""
    return implies(frames_good(fs), frames_good(take(fs, n)))


def lem_fg_cat(a: L, b: L) -> B:
    return implies(frames_good(a) and frames_good(b), frames_good(concat(a, b)))


def lem_fg_rev(fs: L, acc: L) -> B:
    return implies(frames_good(fs) and frames_good(acc), frames_good(rev_acc(fs, acc)))


def lem_fg_nth(fs: L, i: I) -> B:
    return implies(frames_good(fs) and 0 <= i and i < len(fs), frame_good(nth(fs, i)))


def lem_lookup_good(rfs: L, name: Py, default: Py) -> B:
    return implies(frames_good(rfs) and good(default), good(lookup_rev(rfs, name, default)))


def lem_assoc_good(ks: L, vs: L, k: Py) -> B:
    return implies(all_list(good, vs) and len(ks) == len(vs) and list_contains(ks, k),
                   good(assoc(ks, vs, k)))


# generalised induction hypotheses (the lemma at the tail with other extra arguments)
def lem_fg_take_ih(fs: L, n: I) -> B:
    return lem_fg_take(tail(fs), n - 1)


def lem_fg_nth_ih(fs: L, i: I) -> B:
    return lem_fg_nth(tail(fs), i - 1)


def lem_assoc_good_ih(ks: L, vs: L, k: Py) -> B:
    return lem_assoc_good(tail(ks), tail(vs), k)


def lem_len_take(l: L, k: I) -> B:
    return implies(0 <= k and k <= len(l), len(take(l, k)) == k)


def lem_len_take_ih(l: L, k: I) -> B:
    return lem_len_take(tail(l), k - 1)


def lem_take_cat(a: L, b: L) -> B:
    """Taking len(a) elements of a ++ b gives a back."""
    return same(take(concat(a, b), len(a)), a)


def lem_rev_snoc(a: L, x: Py, acc: L) -> B:
    """Reversing a ++ [x] puts x first."""
    return same(rev_acc(concat(a, [x]), acc), cons(x, rev_acc(a, acc)))
