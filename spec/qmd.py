# Spec functions for lookup_query_metadata (C16): query-level metadata lives in a `_q_metadata`
# dictionary attached to nodes of the query (not a field: invisible to ast.dump and the hash).
import ast
from specrt import *   # noqa


def qmd_defines(n: Py, key: Py) -> B:
    return has_qmd(n) and qmd(n) is not None and dict_has(qmd(n), key)


def qmd_hits(n: Py, key: Py) -> L:
    """The values found for `key`, in visiting order; the search does not look below a node that
    defines the key."""
    if qmd_defines(n, key):
        return [dict_get(qmd(n), key)]
    return fold_children(qmd_hits, n, key)


def qmd_ok(n: Py) -> B:
    """Input invariant: wherever the attribute exists it is None or a dictionary (QMetaData only
    ever stores dictionaries)."""
    if has_qmd(n) and qmd(n) is not None and not is_dict(qmd(n)):
        return False
    return all_children(qmd_ok, n)
