# Spec functions for resolve_syntatic_sugar (C06): comprehensions lowered to Select / Where chains.
import ast
from specrt import *   # noqa
from dc import *   # noqa
from fill import *   # noqa


def lam1(name: S, body: Py) -> Py:
    return ast.Lambda(ast.arguments([], [ast.arg(name, None)], None, [], [], None, []), body)


def where_chain(src: Py, ifs: L, name: S) -> Py:
    """src.Where(lambda name: if_1).Where(lambda name: if_2)… in the order the ifs are written."""
    if is_empty(ifs):
        return src
    return where_chain(where_step(src, head(ifs), name), tail(ifs), name)


def gen_ok(c: Py) -> B:
    """A generator the lowering accepts: plain name target, not async."""
    return isinstance(c.target, ast.Name) and c.is_async == 0


def all_gens_ok(rgens: L) -> B:
    if is_empty(rgens):
        return True
    return gen_ok(head(rgens)) and all_gens_ok(tail(rgens))


def sel_chain(body: Py, rgens: L) -> Py:
    """rgens = the generators, innermost (last written) first:
    [b for x in X if p for y in Y]  ->  X.Where(x: p).Select(x: Y.Select(y: b))."""
    if is_empty(rgens):
        return body
    return sel_chain(sel_step(head(rgens), body), tail(rgens))


def all_comprehensions(gens: L) -> B:
    if is_empty(gens):
        return True
    return isinstance(head(gens), ast.comprehension) and wf(head(gens)) and all_comprehensions(tail(gens))


def lem_rev_comp(l: L, acc: L) -> B:
    return implies(all_comprehensions(l) and all_comprehensions(acc),
                   all_comprehensions(rev_acc(l, acc)))


def lem_gok(d: L, r: L) -> B:
    return all_gens_ok(concat(d, r)) == (all_gens_ok(d) and all_gens_ok(r))



def lower_comp(a: Py) -> Py:
    """a: a ListComp / GeneratorExp whose children are already lowered."""
    if is_empty(a.generators):
        return a
    return sel_chain(a.elt, rev(a.generators))


def lower_sugar(n: Py) -> Py:
    """resolve_syntatic_sugar: comprehensions become Select/Where chains at every depth.  What
    visit_Call does to a (generically visited) call — dataclass / named-tuple constructors become
    dictionaries, by Python reflection — is left uninterpreted here."""
    if isinstance(n, ast.ListComp) or isinstance(n, ast.GeneratorExp):
        return lower_comp(map_children(lower_sugar, n))
    if isinstance(n, ast.Call):
        return lower_call(map_children(lower_sugar, n))
    return map_children(lower_sugar, n)


def param_names(ps: L) -> L:
    if is_empty(ps):
        return []
    return cons(param_name(head(ps)), param_names(tail(ps)))


def dc_dict(a: Py, names: L) -> Py:
    """The dictionary a record constructor call stands for: positional arguments bind the leading
    fields, keywords the fields they name, in declaration order (C06)."""
    return ast.Dict(consts(concat(take(names, len(a.args)),
                                  sel_names(drop(names, len(a.args)), rev(a.keywords)))),
                    concat(a.args, sel_vals(drop(names, len(a.args)), rev(a.keywords))))


def dc_bad(a: Py, names: L) -> B:
    """Malformed constructor call: surplus arguments, a keyword that names no field or a field
    already bound by position."""
    return len(names) < len(a.args) + len(a.keywords) or \
        bad_kw(kw_args(rev(a.keywords)), names, len(a.args))


def lower_call(a: Py) -> Py:
    """a: a Call whose children are already lowered.  A call whose callee is a data class or a
    named tuple (a class object embedded as a constant) becomes a dictionary; any other call stays."""
    if isinstance(a, ast.Call):
        if isinstance(a.func, ast.Constant):
            if is_dataclass_value(a.func.value):
                return dc_dict(a, param_names(params_of(a.func.value)))
            if has_fields_attr(a.func.value):
                return dc_dict(a, fields_attr(a.func.value))
    return a


def lem_pnames_str(ps: L) -> B:
    return implies(all_params(ps), all_str(param_names(ps)))


def lem_pnames_snoc(d: L, x: Py) -> B:
    return same(param_names(concat(d, [x])), concat(param_names(d), [param_name(x)]))


def lem_kwl_ok(l: L) -> B:
    """The grammar's keyword lists are lists of keyword nodes named by a string or None."""
    return implies(wf_kwlist(l), kws_ok(l))




# ---- well-formedness of the lowered comprehension (needed as induction step of the visitor) ----
def where_step(src: Py, c: Py, name: S) -> Py:
    return ast.Call(ast.Attribute(src, "Where"), [lam1(name, c)], [])


def lem_where_wf(ifs: L, src: Py, name: S) -> B:
    return implies(wf_exprs(ifs) and is_expr(src) and wf(src),
                   wf(where_chain(src, ifs, name)) and is_expr(where_chain(src, ifs, name)))


def lem_where_wf_ih(ifs: L, src: Py, name: S) -> B:
    return lem_where_wf(tail(ifs), where_step(src, head(ifs), name), name)


def sel_step(c: Py, body: Py) -> Py:
    return ast.Call(ast.Attribute(where_chain(c.iter, c.ifs, c.target.id), "Select"),
                    [lam1(c.target.id, body)], [])


def lem_sel_wf(rgens: L, body: Py) -> B:
    return implies(all_comprehensions(rgens) and all_gens_ok(rgens) and is_expr(body) and wf(body),
                   wf(sel_chain(body, rgens)) and is_expr(sel_chain(body, rgens)))


def lem_sel_wf_ih(rgens: L, body: Py) -> B:
    return lem_sel_wf(tail(rgens), sel_step(head(rgens), body))


def lem_wfl(l: L) -> B:
    """The grammar's well-formedness of a generators field is all_comprehensions."""
    return implies(wf(ast.ListComp(ast.Name("x"), l)), all_comprehensions(l))


def lem_step_wf(l: L, src: Py, c: Py, name: S) -> B:
    return implies(is_expr(src) and wf(src) and is_expr(c) and wf(c),
                   wf(where_step(src, c, name)) and is_expr(where_step(src, c, name)))
