# Spec functions for C17 (method form -> function form).
import ast
from specrt import *   # noqa


def erase_method_form(n: Py, names: L) -> Py:
    """seq.Op(args...) with Op in `names`  ->  Op(seq, args...), at every depth; everything else
    rebuilt homomorphically."""
    if isinstance(n, ast.Call) and isinstance(n.func, ast.Attribute) and n.func.attr in names:
        return ast.Call(ast.Name(n.func.attr),
                        cons(erase_method_form(n.func.value, names),
                             map_list(erase_method_form, n.args, names)), [])
    return map_children(erase_method_form, n, names)


def opcall_kwfree(n: Py, names: L) -> B:
    """Domain restriction (DESIGN C17): method-form operator calls carry no keyword arguments (the
    query language has none)."""
    if isinstance(n, ast.Call) and isinstance(n.func, ast.Attribute) and n.func.attr in names:
        if len(n.keywords) != 0:
            return False
    return all_children(opcall_kwfree, n, names)


def no_method_op(n: Py, names: L) -> B:
    if isinstance(n, ast.Call) and isinstance(n.func, ast.Attribute) and n.func.attr in names:
        return False
    return all_children(no_method_op, n, names)


# ---- lemmas about the spec function (proved by structural induction in engine P) ---------------
def lem_erase_complete(n: Py, names: L) -> B:
    """The result contains no remaining method-form operator call."""
    return no_method_op(erase_method_form(n, names), names)


def lem_erase_complete_list(l: L, names: L) -> B:
    return implies(all_list(lem_erase_complete, l, names),
                   all_list(no_method_op, map_list(erase_method_form, l, names), names))


def lem_erase_idem(n: Py, names: L) -> B:
    """Applying it again changes nothing: on a tree without method-form operator calls erase is the
    identity."""
    return implies(no_method_op(n, names), same(erase_method_form(n, names), n))


def lem_erase_idem_list(l: L, names: L) -> B:
    return implies(all_list(lem_erase_idem, l, names) and all_list(no_method_op, l, names),
                   same(map_list(erase_method_form, l, names), l))
