# Spec functions for C17 (method form -> function form).
import ast
from specrt import *   # noqa


def erase_method_form(n: Py, names: L) -> Py:
    """seq.Op(args..., kw=...) with Op in `names`  ->  Op(seq, args..., kw=...), at every depth
    (keyword arguments are arguments: kept); everything else rebuilt homomorphically."""
    if isinstance(n, ast.Call) and isinstance(n.func, ast.Attribute) and n.func.attr in names:
        return ast.Call(ast.Name(n.func.attr),
                        cons(erase_method_form(n.func.value, names),
                             map_list(erase_method_form, n.args, names)),
                        map_list(erase_method_form, n.keywords, names))
    return map_children(erase_method_form, n, names)


def no_method_op(n: Py, names: L) -> B:
    if isinstance(n, ast.Call) and isinstance(n.func, ast.Attribute) and n.func.attr in names:
        return False
    return all_children(no_method_op, n, names)


# ---- lemmas about the spec function (proved by structural induction in engine P) ---------------
def lem_erase_complete(n: Py, names: L) -> B:
    """The result contains no remaining method-form operator call."""
    return no_method_op(erase_method_form(n, names), names)


def lem_erase_complete_list(l: L, names: L) -> B:
    return implies(all_list(lem_erase_complete, l, names),
                   all_list(no_method_op, map_list(erase_method_form, l, names), names))


def lem_erase_idem(n: Py, names: L) -> B:
    """Applying it again changes nothing: on a tree without method-form operator calls erase is the
    identity."""
    return implies(no_method_op(n, names), same(erase_method_form(n, names), n))


def lem_erase_idem_list(l: L, names: L) -> B:
    return implies(all_list(lem_erase_idem, l, names) and all_list(no_method_op, l, names),
                   same(map_list(erase_method_form, l, names), l))
