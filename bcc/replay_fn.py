"""Replay of an engine-P counter-model on the REAL function (library interpreter).
   payload: {"native": {"imports": "...", "call": "..."}, "bindings": {param: python source},
             "requires": [...], "ensures": [...], "raises": {...}}
prints one JSON line {"violated": bool|None, ...}."""
import ast
import copy
import glob
import json
import os
import sys
import traceback

HERE = os.path.dirname(os.path.abspath(__file__))
ROOT = os.path.dirname(HERE)
REPO = os.environ.get("VERIF_REPO", "/repo")
sys.path[:0] = [REPO, HERE, ROOT, os.path.join(ROOT, "spec")]


def namespace():
    import specrt
    ns = {k: getattr(specrt, k) for k in dir(specrt) if not k.startswith("_")}
    ns["ast"] = ast
    import importlib
    for f in sorted(glob.glob(os.path.join(ROOT, "spec", "*.py"))):
        m = importlib.import_module(os.path.basename(f)[:-3])
        for k in dir(m):
            if not k.startswith("_"):
                ns.setdefault(k, getattr(m, k))
    return ns


class OPAQUE:
    def __init__(self, i):
        self.i = i


def main():
    payload = json.load(open(sys.argv[1]))
    ns = namespace()
    ns["OPAQUE"] = OPAQUE
    out = {"violated": None}
    try:
        args = {}
        for p, src in payload["bindings"].items():
            v = eval(src, dict(ns))
            if isinstance(v, ast.AST):
                for x in ast.walk(v):
                    if "ctx" in x._fields and not hasattr(x, "ctx"):
                        x.ctx = ast.Load()
                ast.fix_missing_locations(v)
            args[p] = v
        env = dict(ns)
        env.update(args)
        for r in payload.get("requires", []):
            if not eval(r, env):
                out = {"violated": False, "why": f"model does not satisfy requires natively: {r}"}
                print(json.dumps(out))
                return
        exec(payload["native"]["imports"], env)
        call_env = dict(env)
        call_env.update({k: copy.deepcopy(v) for k, v in args.items()})
        try:
            result = eval(payload["native"]["call"], call_env)
            exc = None
        except Exception as e:
            result, exc = None, e
        if exc is not None:
            allowed = payload.get("raises", {})
            name = type(exc).__name__
            ok = name in allowed
            why = None
            if ok and isinstance(allowed[name], str) and allowed[name] not in ("any",):
                # the contract allows this exception only under its stated condition
                try:
                    ok = bool(eval(allowed[name], env))
                    if not ok:
                        why = f"{name} raised although its condition is false: {allowed[name]}"
                except Exception as ex:
                    why = f"raise condition not evaluable natively ({type(ex).__name__}: {ex})"
            out = {"violated": not ok, "exception": f"{name}: {exc}", "why": why,
                   "input": {k: v for k, v in payload["bindings"].items()}}
            print(json.dumps(out, default=str))
            return
        env["result"] = result
        failed = []
        for name, cond in payload.get("raises_iff", {}).items():
            try:
                if eval(cond, env):
                    failed.append(f"no {name} although: {cond}")
            except Exception:
                pass
        for e_ in payload.get("ensures", []):
            try:
                if not eval(e_, env):
                    failed.append(e_)
            except Exception as ex:
                failed.append(f"{e_}  (evaluating it raised {type(ex).__name__}: {ex})")
        out = {"violated": bool(failed), "failed_ensures": failed,
               "result": ast.unparse(result) if isinstance(result, ast.AST) else repr(result),
               "input": {k: v for k, v in payload["bindings"].items()}}
    except Exception:
        out = {"violated": None, "harness_error": traceback.format_exc()[-800:]}
    print(json.dumps(out, default=str))


if __name__ == "__main__":
    main()
