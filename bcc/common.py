"""Engine B bookkeeping: every bounded contract check reports through a Tally."""
import ast
import hashlib
import json
import os
import random
import sys
import time
import traceback

ROOT = os.path.dirname(os.path.dirname(os.path.abspath(__file__)))
REPO = os.environ.get("VERIF_REPO", "/repo")


class Tally:
    def __init__(self, prop, tier, seed):
        self.prop = prop
        self.tier = tier
        self.seed = seed
        self.rng = random.Random(seed)
        self.evaluations = 0
        self.distinct = set()
        self.nontrivial = set()
        self.samples = []
        self.violations = []
        self.contract_evals = {}
        self.rules = []
        self.bounds = []
        self.t0 = time.time()
        self.notes = []
        self.deadline = None

    def case(self, key, nontrivial, sample=None):
        """Record one evaluated case. key: canonical text identifying the input/history."""
        self.evaluations += 1
        h = hashlib.sha1(key.encode("utf-8", "replace")).digest()[:10]
        self.distinct.add(h)
        if nontrivial:
            self.nontrivial.add(h)
            if sample is not None and len(self.samples) < 6:
                self.samples.append(sample if isinstance(sample, (str, dict, list)) else str(sample))

    def contract(self, name):
        self.contract_evals[name] = self.contract_evals.get(name, 0) + 1

    def violation(self, contract, what, input_text, expected=None, observed=None, replay=None):
        """A contract failed on the real code for a concrete input."""
        v = {"property": self.prop, "contract": contract, "what_fails": what,
             "input": input_text, "expected": _short(expected), "observed": _short(observed),
             "replay": replay or {}}
        # keep the first few per contract (minimal inputs come first in every enumerator)
        n = sum(1 for x in self.violations if x["contract"] == contract)
        if n < 80:
            self.violations.append(v)

    def out_of_time(self):
        return self.deadline is not None and time.time() > self.deadline

    def result(self):
        return {"property": self.prop, "tier": self.tier, "seed": self.seed,
                "evaluations": self.evaluations, "distinct": len(self.distinct),
                "distinct_nontrivial": len(self.nontrivial), "samples": self.samples,
                "violations": self.violations, "contract_evaluations": self.contract_evals,
                "rules": self.rules, "bounds": self.bounds, "notes": self.notes,
                "wall_s": round(time.time() - self.t0, 2)}


def _short(x, n=400):
    if x is None:
        return None
    s = x if isinstance(x, str) else repr(x)
    return s if len(s) <= n else s[:n] + "…"


def dump(n):
    return ast.dump(n) if isinstance(n, ast.AST) else repr(n)


def unparse(n):
    try:
        return ast.unparse(n)
    except Exception:
        return ast.dump(n)


def parse_expr(s):
    return ast.parse(s, mode="eval").body


def exact_eq(a, b):
    """Equality that also tells apart what Python's == conflates: bool / int / float of equal
    value, 0.0 / -0.0; containers element-wise."""
    import math
    if type(a) is not type(b):
        return False
    if isinstance(a, float):
        return (a == b and math.copysign(1, a) == math.copysign(1, b)) or (a != a and b != b)
    if isinstance(a, (list, tuple)):
        return len(a) == len(b) and all(exact_eq(x, y) for x, y in zip(a, b))
    if isinstance(a, dict):
        return list(a.keys()) == list(b.keys()) and all(exact_eq(a[k], b[k]) for k in a)
    return a == b
