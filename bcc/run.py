"""Engine B entry point (runs under the interpreter the library runs on):
   /venv/bin/python /verif/bcc/run.py C19 --tier quick --seed 0 --json OUT [--replay FILE]
Imports the REAL library from $VERIF_REPO (default /repo)."""
import argparse
import importlib
import json
import os
import sys
import time
import traceback

HERE = os.path.dirname(os.path.abspath(__file__))
ROOT = os.path.dirname(HERE)
REPO = os.environ.get("VERIF_REPO", "/repo")
sys.path[:0] = [REPO, HERE, ROOT, os.path.join(ROOT, "spec")]
sys.setrecursionlimit(20000)


def main():
    ap = argparse.ArgumentParser()
    ap.add_argument("prop")
    ap.add_argument("--tier", default="quick")
    ap.add_argument("--seed", type=int, default=0)
    ap.add_argument("--json")
    ap.add_argument("--replay")
    ap.add_argument("--budget", type=float, default=None)
    a = ap.parse_args()
    import func_adl
    real = os.path.realpath(os.path.dirname(os.path.dirname(func_adl.__file__)))
    if real != os.path.realpath(REPO):
        print(f"engine B imported func_adl from {real}, expected {REPO}", file=sys.stderr)
        sys.exit(3)
    from common import Tally
    mod = importlib.import_module(f"props.{a.prop}")
    t = Tally(a.prop, a.tier, a.seed)
    if a.budget:
        t.deadline = time.time() + a.budget
    out = {}
    try:
        if a.replay:
            payload = json.load(open(a.replay))
            ok = mod.replay(payload, t)
            out = t.result()
            out["replay_holds"] = bool(ok)
        else:
            mod.run(t)
            out = t.result()
    except Exception:
        out = t.result()
        out["crash"] = traceback.format_exc()
    if a.json:
        json.dump(out, open(a.json, "w"), indent=1, default=str)
    else:
        json.dump(out, sys.stdout, indent=1, default=str)
    if out.get("crash"):
        sys.stderr.write(out["crash"])
        sys.exit(3)
    sys.exit(0)


if __name__ == "__main__":
    main()
