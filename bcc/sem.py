"""Reference semantics `sem` of query ASTs (DESIGN §3): ordinary LINQ/list semantics with deferred
sequences, executable on in-memory data.  Used as the oracle of the bounded contract checks and by
replay; it never imports func_adl."""
import ast
import itertools

OPS = {"Select", "Where", "SelectMany", "First", "Count", "len", "Sum", "Max", "Min", "Aggregate",
       "MetaData", "ResultTTree", "ResultAwkwardArray", "ResultPandasDF", "ResultParquet"}
METHOD_OPS = {"Select", "SelectMany", "Where", "First", "ResultTTree", "ResultAwkwardArray",
              "ResultPandasDF", "Min", "Max", "Sum", "Aggregate", "Count", "MetaData"}


class SemError(Exception):
    pass


class Seq:
    """Deferred sequence: elements are computed when forced."""

    def __init__(self, thunk):
        self._thunk = thunk

    def __iter__(self):
        return iter(self._thunk())

    def __repr__(self):
        return f"Seq({list(self)!r})"


class Record(dict):
    """Dict literal / lowered dataclass: answers key AND attribute access."""

    def __getattr__(self, k):
        try:
            return self[k]
        except KeyError:
            raise AttributeError(k)


class Result:
    def __init__(self, kind, seq, args):
        self.kind, self.seq, self.args = kind, seq, args


def iterate(x):
    if isinstance(x, (Seq, list, tuple)):
        return iter(x)
    if hasattr(x, "__iter__") and not isinstance(x, (str, bytes, dict)):
        return iter(x)
    raise SemError(f"not a sequence: {x!r}")


class Closure:
    def __init__(self, node, env):
        self.node, self.env = node, env

    def __call__(self, *args, **kwargs):
        """Python's binding rules for every kind of parameter (positional-only, plain,
        *args, keyword-only, **kw, defaults evaluated in the defining environment)."""
        a = self.node.args
        pos_only = [p.arg for p in a.posonlyargs]
        params = pos_only + [p.arg for p in a.args]
        kwonly = [p.arg for p in a.kwonlyargs]
        env = dict(self.env)
        bound = set()
        if len(args) > len(params) and a.vararg is None:
            raise TypeError("too many positional arguments")
        for p, v in zip(params, args):
            env[p] = v
            bound.add(p)
        if a.vararg is not None:
            env[a.vararg.arg] = tuple(args[len(params):])
        extra = {}
        for k, v in kwargs.items():
            if k in bound:
                raise TypeError(f"multiple values for {k}")
            if (k in params and k not in pos_only) or k in kwonly:
                env[k] = v
                bound.add(k)
            elif a.kwarg is not None:
                extra[k] = v
            else:
                raise TypeError(f"bad keyword {k}")
        if a.kwarg is not None:
            env[a.kwarg.arg] = extra
        nd = len(a.defaults)
        for i, p in enumerate(params):
            if p not in bound:
                di = i - (len(params) - nd)
                if di >= 0:
                    env[p] = ev(a.defaults[di], self.env)
                else:
                    raise TypeError(f"missing argument {p}")
        for p, d in zip(kwonly, a.kw_defaults):
            if p not in bound:
                if d is None:
                    raise TypeError(f"missing keyword-only argument {p}")
                env[p] = ev(d, self.env)
        return ev(self.node.body, env)


def op_Select(s, f):
    src = s
    return Seq(lambda: (f(x) for x in iterate(src)))


def op_Where(s, f):
    src = s
    return Seq(lambda: (x for x in iterate(src) if f(x)))


def op_SelectMany(s, f):
    src = s
    return Seq(lambda: (y for x in iterate(src) for y in iterate(f(x))))


def op_First(s):
    for x in iterate(s):
        return x
    raise SemError("First of empty sequence")


def op_Count(s):
    return sum(1 for _ in iterate(s))


def op_Sum(s):
    return sum(iterate(s))


def op_Max(s):
    return max(itertools.chain([0], iterate(s)))


def op_Min(s):
    return min(itertools.chain([0], iterate(s)))


def op_Aggregate(s, init, f):
    acc = init
    for x in iterate(s):
        acc = f(acc, x)
    return acc


def op_MetaData(s, d):
    return s


def _result(kind):
    def f(s, *args):
        return Result(kind, s, args)
    return f


OP_IMPL = {"Select": op_Select, "Where": op_Where, "SelectMany": op_SelectMany, "First": op_First,
           "Count": op_Count, "len": op_Count, "Sum": op_Sum, "Max": op_Max, "Min": op_Min,
           "Aggregate": op_Aggregate, "MetaData": op_MetaData,
           "ResultTTree": _result("ResultTTree"), "ResultAwkwardArray": _result("ResultAwkwardArray"),
           "ResultPandasDF": _result("ResultPandasDF"), "ResultParquet": _result("ResultParquet")}

# plain python versions of Max/Min/Sum semantics used when the *user* chain is run natively
BINOPS = {ast.Add: lambda a, b: a + b, ast.Sub: lambda a, b: a - b, ast.Mult: lambda a, b: a * b,
          ast.Div: lambda a, b: a / b, ast.FloorDiv: lambda a, b: a // b,
          ast.Mod: lambda a, b: a % b, ast.Pow: lambda a, b: a ** b}
CMPOPS = {ast.Eq: lambda a, b: a == b, ast.NotEq: lambda a, b: a != b, ast.Lt: lambda a, b: a < b,
          ast.LtE: lambda a, b: a <= b, ast.Gt: lambda a, b: a > b, ast.GtE: lambda a, b: a >= b,
          ast.Is: lambda a, b: a is b, ast.IsNot: lambda a, b: a is not b,
          ast.In: lambda a, b: a in b, ast.NotIn: lambda a, b: a not in b}


def ev(n, env):
    t = type(n)
    if t is ast.Constant:
        return n.value
    if t is ast.Name:
        if n.id in env:
            return env[n.id]
        if hasattr(env, "__missing__") and n.id not in OP_IMPL and n.id != "abs":
            try:
                return env[n.id]
            except KeyError:
                pass
        if n.id in OP_IMPL:
            return OP_IMPL[n.id]
        if n.id == "abs":
            return abs
        raise SemError(f"unbound name {n.id}")
    if t is ast.Lambda:
        return Closure(n, env)
    if t is ast.Attribute:
        v = ev(n.value, env)
        if isinstance(v, dict):
            if n.attr in v:
                return v[n.attr]
            raise SemError(f"no key {n.attr}")
        return getattr(v, n.attr)
    if t is ast.Subscript:
        v = ev(n.value, env)
        if isinstance(n.slice, ast.Slice):
            lo = ev(n.slice.lower, env) if n.slice.lower is not None else None
            hi = ev(n.slice.upper, env) if n.slice.upper is not None else None
            st = ev(n.slice.step, env) if n.slice.step is not None else None
            i = slice(lo, hi, st)
        else:
            i = ev(n.slice, env)
        if isinstance(v, Seq):
            v = list(v)
        return v[i]
    if t is ast.Call:
        return ev_call(n, env)
    if t is ast.BinOp:
        return BINOPS[type(n.op)](ev(n.left, env), ev(n.right, env))
    if t is ast.UnaryOp:
        v = ev(n.operand, env)
        if isinstance(n.op, ast.USub):
            return -v
        if isinstance(n.op, ast.UAdd):
            return +v
        if isinstance(n.op, ast.Not):
            return not v
        return ~v
    if t is ast.BoolOp:
        if isinstance(n.op, ast.And):
            r = True
            for x in n.values:
                r = ev(x, env)
                if not r:
                    return r
            return r
        r = False
        for x in n.values:
            r = ev(x, env)
            if r:
                return r
        return r
    if t is ast.Compare:
        left = ev(n.left, env)
        for op, c in zip(n.ops, n.comparators):
            right = ev(c, env)
            if not CMPOPS[type(op)](left, right):
                return False
            left = right
        return True
    if t is ast.IfExp:
        return ev(n.body, env) if ev(n.test, env) else ev(n.orelse, env)
    if t is ast.Tuple:
        return tuple(ev(x, env) for x in n.elts)
    if t is ast.List:
        return [ev(x, env) for x in n.elts]
    if t is ast.Dict:
        return Record((ev(k, env), ev(v, env)) for k, v in zip(n.keys, n.values))
    if t in (ast.ListComp, ast.GeneratorExp):
        return ev_comp(n, env)
    if t is ast.Module and len(n.body) == 1 and isinstance(n.body[0], ast.Expr):
        return ev(n.body[0].value, env)
    if t is ast.Expression:
        return ev(n.body, env)
    raise SemError(f"sem: unsupported node {t.__name__}")


def ev_comp(n, env):
    def rec(gens, env):
        if not gens:
            yield ev(n.elt, env)
            return
        g = gens[0]
        for x in iterate(ev(g.iter, env)):
            e2 = dict(env)
            bind(g.target, x, e2)
            if all(ev(c, e2) for c in g.ifs):
                yield from rec(gens[1:], e2)
    return list(rec(n.generators, env))


def bind(target, v, env):
    if isinstance(target, ast.Name):
        env[target.id] = v
    else:
        vs = list(v)
        if len(vs) != len(target.elts):
            raise SemError("unpack")
        for t, x in zip(target.elts, vs):
            bind(t, x, env)


def ev_call(n, env):
    f = n.func
    args = None
    if isinstance(f, ast.Attribute) and f.attr in METHOD_OPS:
        recv = ev(f.value, env)
        # method form of a stream operator == function form (definition, DESIGN §3) unless the
        # receiver is an ordinary object that really has such a method
        if isinstance(recv, (Seq, list, tuple)) or not hasattr(recv, f.attr):
            args = [ev(a, env) for a in n.args]
            kw = {k.arg: ev(k.value, env) for k in n.keywords}
            return OP_IMPL[f.attr](recv, *args, **kw)
        fn = getattr(recv, f.attr)
    else:
        fn = ev(f, env)
    args = []
    for a in n.args:
        if isinstance(a, ast.Starred):
            args.extend(ev(a.value, env))
        else:
            args.append(ev(a, env))
    kw = {}
    for k in n.keywords:
        if k.arg is None:
            kw.update(ev(k.value, env))
        else:
            kw[k.arg] = ev(k.value, env)
    return fn(*args, **kw)


def force(v, depth=0):
    """Normalise a semantic value for comparison: sequences -> lists, records -> dicts."""
    if depth > 30:
        return v
    if isinstance(v, Seq):
        return [force(x, depth + 1) for x in v]
    if isinstance(v, list):
        return [force(x, depth + 1) for x in v]
    if isinstance(v, tuple) and not hasattr(v, "_fields"):
        return tuple(force(x, depth + 1) for x in v)
    if isinstance(v, dict):
        return {k: force(x, depth + 1) for k, x in v.items()}
    # dataclass / NamedTuple instances are records with named fields: by design the library lowers
    # their construction to dictionaries keyed by the field names
    import dataclasses
    if dataclasses.is_dataclass(v) and not isinstance(v, type):
        return {f.name: force(getattr(v, f.name), depth + 1) for f in dataclasses.fields(v)}
    if isinstance(v, tuple) and hasattr(v, "_fields"):
        return {k: force(getattr(v, k), depth + 1) for k in v._fields}
    if isinstance(v, Result):
        return ("Result", v.kind, force(v.seq, depth + 1), force(v.args, depth + 1))
    if isinstance(v, Closure):
        return ("closure", ast.dump(v.node))
    return v


def run(node, env):
    """Evaluate and force; returns ('ok', value) or ('err', exception class name)."""
    try:
        return ("ok", force(ev(node, env)))
    except RecursionError:
        return ("err", "RecursionError")
    except Exception as e:
        return ("err", type(e).__name__)
