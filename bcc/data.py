"""In-memory data sets for the reference semantics (DESIGN §3): record classes with integer
fields, methods with default arguments and nested collections."""


class Track:
    def __init__(self, pt, z0):
        self.pt = pt
        self.z0 = z0

    def ptk(self, k=1):
        return self.pt * k

    def __repr__(self):
        return f"Track({self.pt},{self.z0})"

    def __eq__(self, o):
        return isinstance(o, Track) and (self.pt, self.z0) == (o.pt, o.z0)

    def __hash__(self):
        return hash((self.pt, self.z0))


class Jet:
    def __init__(self, pt, eta, tracks=()):
        self.pt = pt
        self.eta = eta
        self.tracks = list(tracks)

    def ptk(self, k=2):
        return self.pt * k

    def shift(self, a, b=3):
        return self.pt + a * b

    def isGood(self):
        return self.pt > 1

    def __repr__(self):
        return f"Jet({self.pt},{self.eta},{self.tracks})"

    def __eq__(self, o):
        return isinstance(o, Jet) and (self.pt, self.eta, self.tracks) == (o.pt, o.eta, o.tracks)

    def __hash__(self):
        return hash((self.pt, self.eta))


class Event:
    def __init__(self, met, jets=(), tracks=()):
        self.met = met
        self.jets = list(jets)
        self.tracks = list(tracks)
        self.eles = list(jets[:1])

    def Jets(self, name="default"):
        return self.jets

    def MET(self):
        return self.met

    def scaled(self, a, b=2):
        return self.met * a + b

    def __repr__(self):
        return f"Event({self.met},{self.jets},{self.tracks})"

    def __eq__(self, o):
        return isinstance(o, Event) and (self.met, self.jets, self.tracks) == \
            (o.met, o.jets, o.tracks)

    def __hash__(self):
        return hash(self.met)


def datasets():
    t = [Track(1, 0), Track(-2, 3), Track(2, 2)]
    return [
        [],
        [Event(0)],
        [Event(3, [Jet(2, -1, t[:2])], t[:0]),
         Event(-1, [], t[:2]),
         Event(5, [Jet(1, 1, []), Jet(4, 0, t), Jet(4, 2, t[1:])], t)],
        [Event(2, [Jet(-3, 0, t[2:]), Jet(2, 2, t[:1])], t[1:]),
         Event(2, [Jet(0, 0, [])], [])],
    ]


INT_LISTS = [[], [0], [3], [-2], [1, 2], [2, 1], [-1, -2], [0, 0, 0], [1, -1, 2], [2, 2, -2, 1],
             [-2, -1], [5, 4, 3, 2, 1]]
