"""Native runtime of the spec language: the spec files in /verif/spec are plain Python and import
this module with `from specrt import *`.  Everything here mirrors a builtin of engine P."""
import ast
import copy

Py = object
L = list
B = bool
I = int
S = str

DROP = {"ctx", "kind", "type_comment", "type_ignores", "type_params"}


# ---- structural comparison modulo the dropped fields ------------------------------------------
class FoldLambda:
    """Marker standing for 'any lambda that is the step function of this fold kind'."""
    def __init__(self, kind):
        self.kind = kind

    def __repr__(self):
        return f"<fold_lambda {self.kind}>"


def norm(x):
    """Canonical, hashable rendering of a value/ast modulo dropped fields."""
    if isinstance(x, FoldLambda):
        return ("FOLD", x.kind)
    if isinstance(x, ast.AST):
        items = []
        for f in x._fields:
            if f in DROP:
                continue
            v = getattr(x, f, None)
            if v is None and _is_list_field(type(x), f):
                v = []
            items.append((f, norm(v)))
        return (type(x).__name__, tuple(items))
    if isinstance(x, (list, tuple)):
        return (type(x).__name__ if isinstance(x, tuple) else "list", tuple(norm(i) for i in x))
    if isinstance(x, dict):
        return ("dict", tuple((norm(k), norm(v)) for k, v in x.items()))
    if isinstance(x, (str, int, float, bool, bytes, complex)) or x is None:
        return (type(x).__name__, x)
    return ("obj", id(x))


_LIST_FIELDS = {}


def _is_list_field(cls, f):
    k = (cls, f)
    if k not in _LIST_FIELDS:
        doc = (cls.__doc__ or "")
        _LIST_FIELDS[k] = (f"* {f}" in doc)
    return _LIST_FIELDS[k]


def fold_step_kinds(lam):
    """Kinds of fold a concrete lambda is the step function of (checked on a grid of ints)."""
    if not (isinstance(lam, ast.Lambda) and len(lam.args.args) == 2):
        return []
    try:
        f = eval(compile(ast.fix_missing_locations(ast.Expression(copy.deepcopy(lam))),
                         "<fold>", "eval"), {})
    except Exception:
        return []
    sems = {"count": lambda a, v: a + 1, "sum": lambda a, v: a + v,
            "max": lambda a, v: max(a, v), "min": lambda a, v: min(a, v)}
    grid = [(a, v) for a in (-7, -1, 0, 1, 2, 5, 13) for v in (-9, -1, 0, 1, 3, 5, 11)]
    out = []
    for k, g in sems.items():
        try:
            if all(f(a, v) == g(a, v) for a, v in grid):
                out.append(k)
        except Exception:
            pass
    return out


def same(a, b):
    return _same(a, b)


def _same(a, b):
    if isinstance(a, FoldLambda) or isinstance(b, FoldLambda):
        m, o = (a, b) if isinstance(a, FoldLambda) else (b, a)
        if isinstance(o, FoldLambda):
            return m.kind == o.kind
        return m.kind in fold_step_kinds(o)
    if isinstance(a, ast.AST) and isinstance(b, ast.AST):
        if type(a) is not type(b):
            return False
        for f in a._fields:
            if f in DROP:
                continue
            va, vb = getattr(a, f, None), getattr(b, f, None)
            if va is None and _is_list_field(type(a), f):
                va = []
            if vb is None and _is_list_field(type(b), f):
                vb = []
            if not _same(va, vb):
                return False
        return True
    if isinstance(a, (list, tuple)) and isinstance(b, (list, tuple)):
        return type(a) is type(b) and len(a) == len(b) and all(_same(x, y) for x, y in zip(a, b))
    if isinstance(a, ast.AST) or isinstance(b, ast.AST):
        return False
    return type(a) is type(b) and a == b if isinstance(a, (bool, int, float)) or \
        isinstance(b, (bool, int, float)) else a == b


def implies(a, b):
    return (not a) or bool(b)


def iff(a, b):
    return bool(a) == bool(b)


# ---- list helpers ---------------------------------------------------------------------------
def is_empty(l):
    return len(l) == 0


def head(l):
    return l[0]


def tail(l):
    return list(l[1:])


def cons(x, l):
    return [x] + list(l)


def concat(a, b):
    return list(a) + list(b)


def last(l):
    return l[-1] if len(l) else None


def has_qmd(n):
    return hasattr(n, "_q_metadata")


def qmd(n):
    return getattr(n, "_q_metadata", None)


def dict_has(d, k):
    return isinstance(d, dict) and k in d


def dict_get(d, k):
    return d.get(k) if isinstance(d, dict) else None


def is_dict(d):
    return isinstance(d, dict)


def rev(l):
    return list(reversed(list(l)))


def rev_acc(l, acc):
    return list(reversed(list(l))) + list(acc)


def nth(l, i):
    return l[i] if 0 <= i < len(l) else None


def remove_first(l, x):
    out = list(l)
    for i, y in enumerate(out):
        if _same(y, x):
            del out[i]
            break
    return out


# ---- child combinators ------------------------------------------------------------------------
def _node_children(n):
    for f in n._fields:
        if f in DROP:
            continue
        yield f, getattr(n, f, None)


def map_children(F, n, *extra):
    if not isinstance(n, ast.AST):
        return n
    new = copy.copy(n)
    for f, v in _node_children(n):
        if isinstance(v, list):
            setattr(new, f, [F(x, *extra) if isinstance(x, ast.AST) else x for x in v])
        elif isinstance(v, ast.AST):
            setattr(new, f, F(v, *extra))
    return new


def fold_children(G, n, *extra):
    out = []
    if not isinstance(n, ast.AST):
        return out
    for f, v in _node_children(n):
        if isinstance(v, list):
            for x in v:
                if isinstance(x, ast.AST):
                    out.extend(G(x, *extra))
        elif isinstance(v, ast.AST):
            out.extend(G(v, *extra))
    return out


def all_children(P, n, *extra):
    if not isinstance(n, ast.AST):
        return True
    for f, v in _node_children(n):
        if isinstance(v, list):
            for x in v:
                if isinstance(x, ast.AST) and not P(x, *extra):
                    return False
        elif isinstance(v, ast.AST):
            if not P(v, *extra):
                return False
    return True


def map_list(F, l, *extra):
    return [F(x, *extra) for x in l]


def cat_list(G, l, *extra):
    out = []
    for x in l:
        out.extend(G(x, *extra))
    return out


def all_list(P, l, *extra):
    return all(P(x, *extra) for x in l)


def is_node(x):
    return isinstance(x, ast.AST)


def is_expr(x):
    return isinstance(x, ast.expr)


def fold_lambda(kind):
    return FoldLambda(kind)


def lambda_of(s):
    return ast.parse(s).body[0].value


def expr_source(s):
    try:
        t = ast.parse(s)
    except SyntaxError:
        return False
    return len(t.body) == 1 and isinstance(t.body[0], ast.Expr)


def wf(n):
    """Grammar well-formedness: compile() of the node accepts it (expressions), checked via
    ast.unparse + re-parse as the executable rendering."""
    if not isinstance(n, ast.AST):
        return True
    try:
        if isinstance(n, ast.expr):
            src = ast.unparse(n)
            compile(ast.fix_missing_locations(ast.Expression(copy.deepcopy(n))), "<wf>", "eval")
            ast.parse(src)
        elif isinstance(n, ast.Module):
            compile(ast.fix_missing_locations(copy.deepcopy(n)), "<wf>", "exec")
        return True
    except Exception:
        return False


def wf_exprs(l):
    return all(isinstance(x, ast.expr) and wf(x) for x in l)


def literal_value(n):
    return ast.literal_eval(n)


def is_literal(n):
    try:
        ast.literal_eval(n)
        return True
    except Exception:
        return False


def literal_ok(n):
    try:
        ast.literal_eval(n)
        return True
    except Exception:
        return False


def uf(name, *args):
    # native meaning of symbols the deductive side leaves uninterpreted, where one exists
    if name == "lower_dataclass_call" and len(args) == 1 and isinstance(args[0], ast.Call) \
            and not isinstance(args[0].func, ast.Constant):
        return args[0]          # not a dataclass / named-tuple constructor: visit_Call keeps it
    raise NotImplementedError(f"uninterpreted symbol {name} has no native meaning")


ufb = uf


def hash_of_dump(a):
    import hashlib
    return hashlib.md5(ast.dump(a).encode("utf-8")).hexdigest()


def source_of(v):
    return repr(v)


def embeddable(v):
    if isinstance(v, (str, int, float, bool, bytes)) or v is None:
        return True
    if isinstance(v, (list, tuple)):
        return all(embeddable(x) for x in v)
    if isinstance(v, dict):
        return all(embeddable(k) and embeddable(x) for k, x in v.items())
    return False


def has_attr_executor(n):
    return hasattr(n, "_func_adl_executor")


def attr_executor(n):
    return getattr(n, "_func_adl_executor")


def list_contains(l, x):
    return any(_same(y, x) for y in l)


def is_param_record(p):
    import inspect
    return isinstance(p, inspect.Parameter)


def param_name(p):
    return p.name


def param_default(p):
    return p.default


def is_empty_marker(d):
    import inspect
    return d is inspect.Parameter.empty


def is_module(d):
    import types
    return isinstance(d, types.ModuleType)


def is_complex(d):
    return isinstance(d, complex)


def params_of(f):
    import inspect
    return list(inspect.signature(f).parameters.values())


def dict_keys(d):
    return list(d.keys())


def dict_values(d):
    return list(d.values())


def assoc(ks, vs, k):
    for a, b in zip(ks, vs):
        if a == k:
            return b
    return None


def take(l, n):
    return list(l)[:max(n, 0)]


def dict_put(d, k, v):
    r = dict(d)
    r[k] = v
    return r


def wf_arglist(l):
    import ast as _a
    return all(isinstance(x, _a.arg) and isinstance(x.arg, str) for x in l)


def wf_kwlist(l):
    import ast as _a
    return all(isinstance(x, _a.keyword) and (x.arg is None or isinstance(x.arg, str)) and wf(x.value) for x in l)


def drop(l, n):
    return list(l)[max(n, 0):]


def is_dataclass_value(v):
    import dataclasses
    return dataclasses.is_dataclass(v)


def has_fields_attr(v):
    return hasattr(v, "_fields")


def fields_attr(v):
    return list(v._fields)


def items_of(x):
    return list(x) if isinstance(x, (list, tuple)) else []


def walk(n):
    import ast as _a
    return list(_a.walk(n))
