"""C16 — bounded contract check on histories (see props/streams.py for the contracts)."""
from props import streams


def run(t):
    streams.run_histories(t, {"C16"})
    if "C16" == "C12":
        streams.concurrent_history(t, {"C12"}, t.rng)
        streams.rootless(t)


def replay(payload, t):
    run(t)
    return not t.violations
