"""C07 — bounded contract check: typed call sites are normalised to full positional form.
Contract on _fill_in_default_arguments / remap_by_types: for every typed method call and every
func_adl_callable call at any lambda depth, the emitted call has every declared parameter
positionally in declaration order (inspect.Signature.bind is the independent oracle), a missing
required parameter raises ValueError; stream-operator calls keep the user's arguments."""
import ast
import itertools
from typing import Iterable, Any

from props import typed_common as tc
from common import unparse


def build_world(fn_m, fn_g, fn_t):
    """Event.m / Jet.g / Track.t use the generated signatures; collections nest three deep."""
    class Track:
        pass
    Track.val = fn_t

    class Jet:
        def Tracks(self) -> Iterable[Track]: ...
        def pt(self) -> float: ...
    Jet.val = fn_g

    class Event:
        def Jets(self, name: str = "coll") -> Iterable[Jet]: ...
        def info(self) -> Jet: ...
    Event.val = fn_m
    return Event, Jet, Track


def call_src(recv, meth, n_pos, kws, tag):
    args = [f"{tag}.a{i}" for i in range(n_pos)] + [f"{k}={tag}.k_{k}" for k in kws]
    return f"{recv}.{meth}({', '.join(args)})"


def expected_args(vals, tag):
    out = []
    for v in vals:
        if isinstance(v, str) and (v.startswith("a") or v.startswith("k_")) and v[1:2].isdigit() \
                or (isinstance(v, str) and v.startswith("k_p")):
            out.append(f"{tag}.{v}")
        else:
            out.append(repr(v))
    return out


def find_calls(tree, meth):
    return [n for n in ast.walk(tree) if isinstance(n, ast.Call) and isinstance(n.func, ast.Attribute)
            and n.func.attr == meth]


def check_site(t, Event, body_src, meth, exp, key, nontrivial):
    from func_adl import ObjectStream
    from func_adl.type_based_replacement import remap_by_types
    t.case("C07:" + key, nontrivial, sample=key)
    t.contract("remap_by_types: call == Signature.bind(user call) positionally, or ValueError")
    rp = {"kind": "C07", "key": key}
    s = ast.parse(body_src).body[0].value
    o = ObjectStream[Event](ast.Name("e", ast.Load()))
    try:
        _, new, _ = remap_by_types(o, {"e": Event}, s)
        out = ("ok", new)
    except ValueError as ex:
        out = ("ValueError", str(ex))
    except Exception as ex:
        t.violation("remap_by_types:refusal is ValueError", f"raises {type(ex).__name__}", key,
                    "ValueError or normalised call", repr(ex)[:160], rp)
        return
    if exp == "ValueError":
        if out[0] != "ValueError":
            t.violation("_fill_in_default_arguments:raises ValueError iff a required parameter is "
                        "missing", "missing required parameter accepted", key, "ValueError",
                        unparse(out[1]), rp)
        return
    if out[0] == "ValueError":
        t.violation("_fill_in_default_arguments:raises ValueError iff a required parameter is "
                    "missing", "ValueError although every parameter is given or defaulted", key,
                    exp, out[1], rp)
        return
    calls = find_calls(out[1], meth)
    if len(calls) != 1:
        t.violation("remap_by_types:call site preserved", f"{len(calls)} calls of {meth} in the "
                    "result", key, exp, unparse(out[1]), rp)
        return
    c = calls[0]
    got = [ast.unparse(a) for a in c.args]
    if got != exp or c.keywords:
        t.violation("_fill_in_default_arguments:ensures args == bind(call) in declaration order, "
                    "no consumed keyword left",
                    "emitted call is not the full positional form", key,
                    f"{meth}({', '.join(exp)})", unparse(c), rp)


# ---- random typed expressions with random call shapes (seeded) ---------------------------------
def fuzz_world():
    class Track:
        def pt(self, scale: float = 1.0) -> float: ...
        def z(self) -> float: ...

    class Jet:
        def pt(self, scale: float = 2.0, off: float = 0.5) -> float: ...
        def eta(self) -> float: ...
        def shift(self, a: float, b: float = 3.0) -> float: ...
        def Tracks(self, kind: str = "all") -> Iterable[Track]: ...
        def lead(self, n: int = 0) -> Track: ...

    class Event:
        def met(self) -> float: ...
        def Jets(self, name: str = "std", cut: float = 0.0) -> Iterable[Jet]: ...
        def lead(self) -> Jet: ...
    return Event, Jet, Track


class RandTyped:
    """Every production returns (user source, expected normalised source): calls of the model's
    methods are written with a random legal shape (optional parameters omitted, given by position
    or by keyword in any order); the expected text has every declared parameter positionally."""

    SIGS = {("Track", "pt"): [("scale", 1.0)], ("Track", "z"): [],
            ("Jet", "pt"): [("scale", 2.0), ("off", 0.5)], ("Jet", "eta"): [],
            ("Jet", "shift"): [("a", None), ("b", 3.0)], ("Jet", "Tracks"): [("kind", "all")],
            ("Jet", "lead"): [("n", 0)], ("Event", "met"): [],
            ("Event", "Jets"): [("name", "std"), ("cut", 0.0)], ("Event", "lead"): []}

    def __init__(self, rng):
        self.rng, self.k = rng, 0

    def fresh(self, scope):
        if scope and self.rng.random() < 0.25:
            return self.rng.choice([n for n, _ in scope])
        self.k += 1
        return f"u{self.k}"

    def bind(self, scope, v, kind):
        return [(n, k) for n, k in scope if n != v] + [(v, kind)]

    def call(self, recv, cls, meth, scope, d):
        """recv: (src, norm) of the receiver"""
        r = self.rng
        params = self.SIGS[(cls, meth)]
        vals = []
        for name, default in params:
            if default is None or r.random() < 0.5:
                if name in ("name", "kind"):
                    v = repr(r.choice(["std", "all", "x"]))
                    vals.append((v, v))
                elif name == "n":
                    v = str(r.randint(0, 2))
                    vals.append((v, v))
                else:
                    vals.append(self.flt(scope, max(d - 1, 0)))
            else:
                vals.append(None)
        # positional prefix: the first k given parameters with no gap before them
        given = [i for i, v in enumerate(vals) if v is not None]
        npos = 0
        while npos < len(params) and vals[npos] is not None and r.random() < 0.5:
            npos += 1
        pos = [vals[i][0] for i in range(npos)]
        kw = [(params[i][0], vals[i][0]) for i in given if i >= npos]
        r.shuffle(kw)
        src = f"{recv[0]}.{meth}({', '.join(pos + [f'{k}={v}' for k, v in kw])})"
        norm_args = [vals[i][1] if vals[i] is not None else repr(params[i][1]) for i in range(len(params))]
        return src, f"{recv[1]}.{meth}({', '.join(norm_args)})"

    def obj(self, cls, scope, d):
        vs = [n for n, k in scope if k == cls]
        opts = [lambda: (lambda n: (n, n))(self.rng.choice(vs))] * (3 if vs else 0)
        if cls == "Jet":
            es = [n for n, k in scope if k == "Event"]
            if es:
                opts.append(lambda: self.call((lambda n: (n, n))(self.rng.choice(es)), "Event", "lead", scope, d))
        if cls == "Track" and d > 0:
            j = self.obj("Jet", scope, d - 1)
            if j is not None:
                opts.append(lambda: self.call(j, "Jet", "lead", scope, d - 1))
        return self.rng.choice(opts)() if opts else None

    def flt(self, scope, d):
        r = self.rng
        opts = [lambda: (lambda v: (v, v))(repr(float(r.randint(0, 4))))]
        for cls, meths in (("Event", ["met"]), ("Jet", ["pt", "eta", "shift"]), ("Track", ["pt", "z"])):
            o = self.obj(cls, scope, d - 1) if d > 0 or any(k == cls for _, k in scope) else None
            if o is not None:
                opts += [lambda o=o, cls=cls, meths=meths: self.call(o, cls, r.choice(meths), scope, d - 1)] * 3
        if d > 0:
            def binop():
                a, b = self.flt(scope, d - 1), self.flt(scope, d - 1)
                op = r.choice(["+", "-", "*"])
                return f"({a[0]} {op} {b[0]})", f"({a[1]} {op} {b[1]})"

            def cond():
                a, b, c = self.flt(scope, d - 1), self.flt(scope, d - 1), self.flt(scope, d - 1)
                return f"({a[0]} if {b[0]} > 1.0 else {c[0]})", f"({a[1]} if {b[1]} > 1.0 else {c[1]})"

            def count():
                s = self.seq(scope, d - 1)
                return None if s is None else (f"{s[0]}.Count()", f"{s[1]}.Count()")
            opts += [binop, cond, count]
        for _ in range(6):
            v = r.choice(opts)()
            if v is not None:
                return v
        return ("1.0", "1.0")

    def seq(self, scope, d):
        """(src, norm, element class)"""
        r = self.rng
        opts = []
        es = [n for n, k in scope if k == "Event"]
        if es:
            opts.append(lambda: self.call((lambda n: (n, n))(r.choice(es)), "Event", "Jets", scope, d) + ("Jet",))
        j = self.obj("Jet", scope, d)
        if j is not None:
            opts.append(lambda: self.call(j, "Jet", "Tracks", scope, d) + ("Track",))
        if not opts:
            return None
        src, norm, k = r.choice(opts)()
        if d > 0 and r.random() < 0.4:
            v = self.fresh(scope)
            c = self.flt(self.bind(scope, v, k), d - 1)
            kw = "filter=" if r.random() < 0.25 else ""
            # (the operator's own lambda parameter is emitted positionally, like every parameter)
            src, norm = f"{src}.Where({kw}lambda {v}: {c[0]} > 1.0)", f"{norm}.Where(lambda {v}: {c[1]} > 1.0)"
        return src, norm, k

    def expression(self):
        r = self.rng
        scope = [("e", "Event")]
        d = r.randint(1, 3)
        if r.random() < 0.4:
            return self.flt(scope, d)
        s = self.seq(scope, d)
        v = self.fresh(scope)
        b = self.flt(self.bind(scope, v, s[2]), d - 1)
        if r.random() < 0.3:
            # a dictionary field carries the object into the next lambda
            w = self.fresh(scope)
            b2 = self.flt(self.bind(scope, w, s[2]), d - 1)
            inner_s = b2[0].replace(f"{w}.", f"{w}.o.") if False else None
        kw = "f=" if r.random() < 0.25 else ""
        return f"{s[0]}.Select({kw}lambda {v}: {b[0]})", f"{s[1]}.Select(lambda {v}: {b[1]})"


def fuzz(t, n):
    from func_adl import ObjectStream
    from func_adl.type_based_replacement import remap_by_types
    Event, Jet, Track = fuzz_world()
    g = RandTyped(t.rng)
    seen = set()
    done = 0
    for _ in range(n * 3):
        if done >= n or t.out_of_time():
            break
        try:
            src, norm = g.expression()
        except (RecursionError, TypeError, IndexError):
            continue
        if src in seen or len(src) > 400:
            continue
        seen.add(src)
        done += 1
        key = "fuzz:" + src
        t.case("C07:" + key, src != norm, sample=src)
        t.contract("remap_by_types: every typed call in full positional form (random shapes)")
        rp = {"kind": "C07", "key": key}
        try:
            _, new, _ = remap_by_types(ObjectStream[Event](ast.Name("e", ast.Load())), {"e": Event},
                                       ast.parse(src).body[0].value)
        except Exception as ex:
            t.violation("remap_by_types:no-exception on a legal typed call shape",
                        f"raises {type(ex).__name__}: {str(ex)[:80]}", key, norm, repr(ex)[:120], rp)
            continue
        want = ast.dump(ast.parse(norm).body[0].value)
        if ast.dump(new) != want:
            t.violation("_fill_in_default_arguments:ensures args == bind(call) in declaration order, "
                        "no consumed keyword left", "emitted expression is not the expected "
                        "normalised form", key, norm, unparse(new), rp)
    t.bounds.append(f"{done} random typed expressions with random call shapes (seeded)")


def static_and_class_methods(t):
    """Static and class methods of a typed class, called as methods on a typed object: their
    signatures have NO receiver parameter, every declared parameter is an argument (seed C07_g:
    the first declared parameter of any attribute call was taken for the receiver)."""
    class Jet:
        def pt(self) -> float: ...
        def eta(self) -> float: ...

        @staticmethod
        def dR(eta: float, phi: float, cone: float = 0.4) -> float: ...

        @classmethod
        def make(cls, pt: float, scale: float = 2.0) -> float: ...

        @staticmethod
        def one(x: float = 1.5) -> float: ...

    class Event:
        def Jets(self) -> Iterable[Jet]: ...
        def lead(self) -> Jet: ...
    sites = [
        ("e.lead().dR(e.a0, e.a1)", "dR", ["e.a0", "e.a1", "0.4"]),
        ("e.lead().dR(e.a0, e.a1, 0.2)", "dR", ["e.a0", "e.a1", "0.2"]),
        ("e.lead().dR(phi=e.a1, eta=e.a0)", "dR", ["e.a0", "e.a1", "0.4"]),
        ("e.lead().dR(e.a0, cone=0.1, phi=e.a1)", "dR", ["e.a0", "e.a1", "0.1"]),
        ("e.lead().dR(e.a0)", "dR", "ValueError"),
        ("e.lead().make(e.a0)", "make", ["e.a0", "2.0"]),
        ("e.lead().make(scale=3.0, pt=e.a0)", "make", ["e.a0", "3.0"]),
        ("e.lead().make()", "make", "ValueError"),
        ("e.lead().one()", "one", ["1.5"]),
        ("e.Jets().Select(lambda j: j.dR(j.eta(), j.pt()))", "dR", ["j.eta()", "j.pt()", "0.4"]),
        ("e.Jets().Select(lambda j: j.make(j.pt()))", "make", ["j.pt()", "2.0"]),
        ("e.Jets().Where(lambda j: j.dR(j.eta(), phi=j.pt()) > 0.1).Select(lambda j: j.one())", "dR",
         ["j.eta()", "j.pt()", "0.4"]),
    ]
    for src, meth, exp in sites:
        check_site(t, Event, src, meth, exp, f"static/class method: {src}", True)


def run(t):
    static_and_class_methods(t)
    quick = t.tier == "quick"
    max_n = 3
    t.rules.append("signatures with 0..3 parameters x every trailing-default subset x every call "
                   "shape Python accepts (positional count, keyword subsets in every order) plus "
                   "shapes missing a required parameter, at lambda depth 0 (Event method), 1 (Jet "
                   "method inside Select/Where) and 2 (Track method inside a nested Select), with "
                   "the SAME method name on several classes and re-used lambda parameter names; "
                   "func_adl_callable functions; stream operators inside lambdas keep their "
                   "arguments; non-trivial = a parameter is filled from a default or keyword and "
                   "the signature has >= 2 parameters; distinct by (depth, signature, shape)")
    from func_adl import func_adl_callable
    from func_adl.type_based_replacement import reset_global_functions
    n_sites = 0
    for n in range(max_n + 1):
        for ndef in range(n + 1):
            mask = [i >= n - ndef for i in range(n)]
            fn = tc.make_signature_model(n, mask, "val")
            # the same method name `val` on all three classes, with DIFFERENT defaults
            fn_j = tc.make_signature_model(n, mask, "val", defaults=[10, 20.5, "j", True, None])
            fn_t = tc.make_signature_model(n, mask, "val", defaults=[-1, -2.5, "t", False, 3])
            Event, Jet, Track = build_world(fn, fn_j, fn_t)
            shapes = tc.call_shapes(n, mask)
            if quick and len(shapes) > 14:
                shapes = shapes[:8] + t.rng.sample(shapes[8:], 6)
            for n_pos, kws in shapes:
                for depth, (f_, tag, tmpl) in enumerate((
                        (fn, "e", "{call}"),
                        (fn_j, "j", "e.Jets().Select(lambda j: {call})"),
                        (fn_t, "k", "e.Jets().Select(lambda j: j.Tracks().Select(lambda k: {call}))"),
                        (fn_j, "e", "e.Jets().Where(lambda e: {call} > 1).Select(lambda e: e.pt())"),
                        # through dictionary fields: the SAME key names hold objects of different classes
                        (fn_j, "d.o", "e.Jets().Select(lambda j: {{'o': j, 'n': 1}}).Select(lambda d: {call})"),
                        (fn_t, "d.o", "e.Jets().Select(lambda j: j.Tracks().Select(lambda k: {{'o': k, 'n': 1}})"
                                      ".Select(lambda d: {call}))"),
                        (fn, "d['o']", "e.Jets().Select(lambda j: {{'o': e, 'n': j}}).Select(lambda d: {call})"),
                )):
                    oracle = tc.bind_oracle(f_, n_pos, kws)
                    exp = oracle if oracle == "ValueError" else expected_args(oracle, tag)
                    argtag = "e" if tag[0] == "d" else tag
                    src = tmpl.format(call=call_src(tag, "val", n_pos, kws, argtag))
                    if tag[0] == "d":
                        exp = exp if exp == "ValueError" else expected_args(oracle, "e")
                    filled = oracle != "ValueError" and (len(kws) > 0 or n_pos < n)
                    check_site(t, Event, src, "val", exp, f"d{depth}:{mask}:{src}",
                               filled and n >= 2)
                    n_sites += 1
                # registered function with the same signature
                reset_global_functions()
                try:
                    params = ", ".join((f"p{i}: float = {tc.DEFAULTS[i]!r}" if mask[i] else f"p{i}: float")
                                       for i in range(n))
                    ns = {"func_adl_callable": func_adl_callable}
                    exec(f"@func_adl_callable()\ndef fcall({params}) -> float: ...\n", ns)
                    args = [f"e.a{i}" for i in range(n_pos)] + [f"{k}=e.k_{k}" for k in kws]
                    src = f"e.Jets().Select(lambda j: fcall({', '.join(args)}))"
                    import inspect
                    try:
                        ba = inspect.signature(ns["fcall"]).bind(*[f"a{i}" for i in range(n_pos)],
                                                                 **{k: f"k_{k}" for k in kws})
                        ba.apply_defaults()
                        exp = expected_args(list(ba.arguments.values()), "e")
                    except TypeError:
                        exp = "ValueError"
                    check_fn(t, Event, src, exp, f"fn:{mask}:{src}", n >= 2)
                finally:
                    reset_global_functions()
    # stream operators inside lambdas keep exactly the user's arguments
    Event, Jet, Track = build_world(tc.make_signature_model(0, [], "val"),
                                    tc.make_signature_model(0, [], "val"),
                                    tc.make_signature_model(0, [], "val"))
    for src in ["e.Jets().Select(lambda j: j.pt())", "e.Jets().Where(lambda j: j.pt() > 1)",
                "e.Jets().Select(lambda j: j.Tracks()).First()", "e.Jets().Count()",
                "e.Jets().SelectMany(lambda j: j.Tracks()).Select(lambda k: k.val())",
                "e.Jets().Select(lambda j: j.Tracks().Where(lambda k: k.val() > 0).Count())"]:
        from func_adl import ObjectStream
        from func_adl.type_based_replacement import remap_by_types
        t.case("C07:ops:" + src, True, sample=src)
        t.contract("stream operators inside lambdas keep the user's arguments")
        s = ast.parse(src).body[0].value
        _, new, _ = remap_by_types(ObjectStream[Event](ast.Name("e", ast.Load())), {"e": Event}, s)
        for name in ("Select", "Where", "SelectMany", "First", "Count"):
            a = [len(c.args) + len(c.keywords) for c in find_calls(s, name)]
            b = [len(c.args) + len(c.keywords) for c in find_calls(new, name)]
            if a != b:
                t.violation("process_method_call:stream operators keep exactly the user's arguments",
                            f"argument count of {name} changed", src, a, f"{b} in {unparse(new)}",
                            {"kind": "C07", "key": src})
    t.bounds.append(f"{n_sites} typed call sites")
    fuzz(t, 80 if quick else 4000)


def check_fn(t, Event, src, exp, key, nontrivial):
    from func_adl import ObjectStream
    from func_adl.type_based_replacement import remap_by_types
    t.case("C07:" + key, nontrivial, sample=key)
    t.contract("registered function: call == Signature.bind(user call) positionally, or ValueError")
    rp = {"kind": "C07", "key": key}
    s = ast.parse(src).body[0].value
    try:
        _, new, _ = remap_by_types(ObjectStream[Event](ast.Name("e", ast.Load())), {"e": Event}, s)
    except ValueError as ex:
        if exp != "ValueError":
            t.violation("process_function_call:ValueError only for a missing required parameter",
                        "refused", key, exp, str(ex)[:120], rp)
        return
    except Exception as ex:
        t.violation("process_function_call:refusal is ValueError", f"raises {type(ex).__name__}",
                    key, exp, repr(ex)[:120], rp)
        return
    if exp == "ValueError":
        t.violation("process_function_call:raises ValueError for a missing required parameter",
                    "accepted", key, "ValueError", unparse(new), rp)
        return
    calls = [n for n in ast.walk(new) if isinstance(n, ast.Call) and isinstance(n.func, ast.Name)
             and n.func.id == "fcall"]
    got = [ast.unparse(a) for a in calls[0].args] if calls else None
    if got != exp or (calls and calls[0].keywords):
        t.violation("process_function_call:ensures args == bind(call) in declaration order",
                    "emitted call is not the full positional form", key, f"fcall({', '.join(exp)})",
                    unparse(new), rp)


def replay(payload, t):
    run(t)
    return not [v for v in t.violations if v["replay"].get("key") == payload.get("key")]
