"""Shared history machinery for C11 (immutability), C12 (execution) and C16 (query metadata):
random and enumerated histories of derive / execute operations over a forest of streams."""
import ast
from common import exact_eq
import asyncio
import copy
import typing
from typing import Any, Iterable, Optional

import md as spec_md
import specrt
from common import dump


# one-line named functions with an ANNOTATED parameter (string annotations: legal constants)
def _f_met(e: "Event") -> float: return e.met()
def _f_jets(e: "Event"): return e.Jets()
def _f_cut(e: "Event") -> bool: return e.met() > 1
def _f_notbool(e: "Event") -> float: return e.met() + 1


def make_world():
    from func_adl import EventDataset

    class Jet:
        def pt(self, scale: float = 1.0) -> float: ...
        def eta(self) -> float: ...

    class Event:
        def Jets(self, name: str = "AntiKt4") -> Iterable[Jet]: ...
        def met(self) -> float: ...

    class DS(EventDataset):
        def __init__(self, name, item_type=Any, root_arg=None):
            super().__init__(item_type)
            if root_arg is not None:
                # the idiom of back ends that name their input in the root node
                self.query_ast.args.append(ast.Constant(value=root_arg))
            self.name = name
            self.calls = []
            self.fail = False

        async def execute_result_async(self, a: ast.AST, title: Optional[str] = None):
            self.calls.append((a, title))
            await asyncio.sleep(0)
            if self.fail:
                raise RuntimeError(f"boom-{self.name}-{len(self.calls)}")
            return ("result", self.name, len(self.calls))
    import functools

    def plain_wrapper(f):
        # an ordinary (non-async) decorator around the coroutine function: still an executor that
        # returns an awaitable, but inspect.iscoroutinefunction() says False (seed C12_e)
        @functools.wraps(f)
        def w(*a, **k):
            return f(*a, **k)
        return w

    class DSW(DS):
        execute_result_async = plain_wrapper(DS.execute_result_async)
    DS.Wrapped = DSW
    return DS, Event, Jet


LAMBDAS = {
    "Select": ["lambda e: e.met()", "lambda e: e.Jets()", "lambda e: e.Jets().Count()",
               "lambda e: (e.met(), e.Jets())", "lambda e: e.Jets().Select(lambda j: j.pt())",
               "lambda e: e.met() + 1", "lambda e: e.Jets('x').Select(lambda j: j.pt(2.0) + e.met())"],
    "Where": ["lambda e: e.met() > 1", "lambda e: e.Jets().Count() > 0",
              "lambda e: e.Jets().Where(lambda j: j.pt() > 2).Count() == 1"],
    "SelectMany": ["lambda e: e.Jets()", "lambda e: e.Jets().Select(lambda j: j.pt())"],
}
MDS = [{}, {"a": 1}, {"b": "x"}, {}]
# (the last three: values that compare equal to an earlier one but are other values - repaired
# defect: QMetaData did not record them)
QMDS = [{"k1": 1}, {"k2": "v"}, {"k1": 2}, {"k1": 1, "k3": 3}, {"k3": 3}, {"k2": "v"},
        {"k1": True}, {"k1": 1.0}, {"k3": 3.0, "k1": 1},
        # falsy values are values: set later they win over an earlier truthy one (seed C16_i)
        {"k1": 0}, {"k2": ""}, {"k1": False, "k3": None}, {"k2": {}}, {"k3": []}]


class Hist:
    """Runs one history; records what each contract needs."""

    def __init__(self, t, props):
        self.t = t
        self.props = props
        DS, Event, Jet = make_world()
        self.DS, self.Event = DS, Event
        # the annotations of the named functions above resolve to this model's Event class
        globals()["Event"] = Event
        self.datasets = []
        self.streams = []      # dicts: stream, dump, item_type, root ds index, qmd model, desc
        self.shared = {k: [ast.parse(s).body[0].value for s in v] for k, v in LAMBDAS.items()}
        self.log = []
        self.building_calls_ok = True

    # ---- bookkeeping --------------------------------------------------------------------
    def add(self, s, root, qmd, desc, expected_ast_wrap=None):
        self.streams.append({"s": s, "dump": dump(s.query_ast), "type": s.item_type, "root": root,
                             "qmd": dict(qmd), "desc": desc})
        return len(self.streams) - 1

    def total_calls(self):
        return sum(len(d.calls) for d in self.datasets)

    def check_all(self, after):
        from func_adl.ast.meta_data import lookup_query_metadata
        hist = " ; ".join(self.log)
        for i, r in enumerate(self.streams):
            if "C11" in self.props:
                self.t.contract("C11: earlier streams unchanged after every step")
                if dump(r["s"].query_ast) != r["dump"] or r["s"].item_type != r["type"]:
                    self.t.violation("ObjectStream:frame (previously created streams unchanged)",
                                     f"stream #{i} ({r['desc']}) changed after: {after}", hist,
                                     r["dump"][:300], dump(r["s"].query_ast)[:300],
                                     {"kind": "hist", "log": self.log})
                    r["dump"] = dump(r["s"].query_ast)
            if "C16" in self.props or "C11" in self.props:
                self.t.contract("C16: lookup == most recent value on the derivation path")
                for k in ("k1", "k2", "k3", "zz"):
                    got = lookup_query_metadata(r["s"], k)
                    exp = r["qmd"].get(k)
                    # the spec function the deductive proof of the finder refers to, run natively
                    import qmd as spec_qmd
                    hits = spec_qmd.qmd_hits(r["s"].query_ast, k)
                    self.t.contract("C16: lookup == last(qmd_hits(query, key))  (spec, native)")
                    if got != (hits[-1] if hits else None):
                        self.t.violation("lookup_query_metadata:ensures result == last(qmd_hits)",
                                         f"stream #{i} ({r['desc']}): key {k!r} gives {got!r}, spec "
                                         f"says {hits!r}", hist, hits, got,
                                         {"kind": "hist", "log": self.log})
                    if got != exp or not exact_eq(got, exp):
                        self.t.violation("lookup_query_metadata:ensures result == view(path)(key)",
                                         f"stream #{i} ({r['desc']}): key {k!r} gives {got!r}, "
                                         f"expected {exp!r} after: {after}", hist, exp, got,
                                         {"kind": "hist", "log": self.log})
                        r["qmd"][k] = got

    # ---- operations ---------------------------------------------------------------------
    def op_new(self, typed):
        # every second dataset writes an argument into its own root node
        root_arg = "f.root" if len(self.datasets) % 4 in (1, 3) else None
        cls = self.DS.Wrapped if len(self.datasets) % 4 in (1, 2) else self.DS
        ds = cls(f"ds{len(self.datasets)}", self.Event if typed else Any, root_arg)
        self.datasets.append(ds)
        self.log.append(f"ds{len(self.datasets)-1}=DS(typed={typed}, root_arg={root_arg!r})")
        return self.add(ds, len(self.datasets) - 1, {}, self.log[-1])

    def op_derive(self, i, op, k, how):
        r = self.streams[i]
        s = r["s"]
        before = self.total_calls()
        if op in ("Select", "Where", "SelectMany"):
            src = LAMBDAS[op][k % len(LAMBDAS[op])]
            arg = src if how == 0 else self.shared[op][k % len(LAMBDAS[op])]
            new = getattr(s, op)(arg)
            desc = f"s{len(self.streams)}=s{i}.{op}({'str' if how == 0 else 'shared-ast'}:{src})"
            qmd = r["qmd"]
        elif op == "MetaData":
            d = MDS[k % len(MDS)]
            new = s.MetaData(d)
            desc = f"s{len(self.streams)}=s{i}.MetaData({d})"
            qmd = r["qmd"]
        elif op == "QMetaData":
            d = QMDS[k % len(QMDS)]
            new = s.QMetaData(d)
            desc = f"s{len(self.streams)}=s{i}.QMetaData({d})"
            qmd = dict(r["qmd"])
            qmd.update(d)
        else:
            new = {"AsAwkwardArray": lambda: s.AsAwkwardArray(["c"]),
                   "AsPandasDF": lambda: s.AsPandasDF("c"),
                   "AsROOTTTree": lambda: s.AsROOTTTree("f.root", "t", ["c"]),
                   "AsParquetFiles": lambda: s.AsParquetFiles("f.pq", ["c"])}[op]()
            desc = f"s{len(self.streams)}=s{i}.{op}()"
            qmd = r["qmd"] if False else {}    # terminals start a fresh ObjectStream: see below
            qmd = self.terminal_qmd(r)
        self.log.append(desc)
        if op in ("MetaData", "QMetaData"):
            self.t.contract(f"{op}: ensures result.item_type == self.item_type")
            if new.item_type != s.item_type:
                self.t.violation(f"{op}:ensures result.item_type == self.item_type",
                                 f"item type changed from {s.item_type} to {new.item_type} by {desc}",
                                 " ; ".join(self.log), repr(s.item_type), repr(new.item_type),
                                 {"kind": "hist", "log": self.log})
        if self.total_calls() != before and "C12" in self.props:
            self.t.violation("builders:calls_executor == false", "an executor ran while a query "
                             "was being built", " ; ".join(self.log), 0, self.total_calls() - before,
                             {"kind": "hist", "log": self.log})
        j = self.add(new, r["root"], qmd, desc)
        self.check_all(desc)
        return j

    def op_derive_fn(self, i, op, fn):
        """An operator given a NAMED function (annotated parameter); a refusal is a legal outcome,
        a change of any existing stream is not."""
        r = self.streams[i]
        desc = f"s{len(self.streams)}=s{i}.{op}(def:{fn.__name__})"
        self.log.append(desc)
        try:
            new = getattr(r["s"], op)(fn)
        except ValueError as ex:
            self.log[-1] = desc + f" -> ValueError"
            self.check_all(self.log[-1])
            return None
        j = self.add(new, r["root"], r["qmd"], desc)
        self.check_all(desc)
        return j

    def terminal_qmd(self, r):
        # result-format terminals wrap the parent's AST: metadata on the path stays visible
        return r["qmd"]

    def expected_sent(self, s):
        return spec_md.drop_empty_metadata(copy.deepcopy(s.query_ast))

    def twin_without_qmd(self, i):
        """Re-build stream i's chain on a fresh data set skipping every QMetaData step."""
        import re
        steps = {}
        for l in self.log:
            m = re.match(r"s(\d+)=s(\d+)\.(\w+)\((.*)\)$", l)
            if m:
                steps[int(m.group(1))] = (int(m.group(2)), m.group(3), m.group(4))
        chain = []
        k = i
        while k in steps:
            chain.append(steps[k])
            k = steps[k][0]
        root_desc = self.streams[k]["desc"]
        ds = self.DS("twin", self.Event if "typed=True" in root_desc else Any,
                     "f.root" if "root_arg='f.root'" in root_desc else None)
        cur = ds
        for parent, op, arg in reversed(chain):
            if op == "QMetaData":
                continue
            if op in ("Select", "Where", "SelectMany"):
                cur = getattr(cur, op)(arg.split(":", 1)[1])
            elif op == "MetaData":
                cur = cur.MetaData(ast.literal_eval(arg))
            else:
                cur = {"AsAwkwardArray": lambda: cur.AsAwkwardArray(["c"]),
                       "AsPandasDF": lambda: cur.AsPandasDF("c"),
                       "AsROOTTTree": lambda: cur.AsROOTTTree("f.root", "t", ["c"]),
                       "AsParquetFiles": lambda: cur.AsParquetFiles("f.pq", ["c"])}[op]()
        return cur

    def op_value(self, i, mode, title):
        r = self.streams[i]
        s = r["s"]
        ds = self.datasets[r["root"]]
        others = [d for d in self.datasets if d is not ds]
        before = {id(d): len(d.calls) for d in self.datasets}
        exp_ast = self.expected_sent(s)
        desc = f"s{i}.value(mode={mode}, title={title!r})"
        self.log.append(desc)
        override_log = []

        async def override(a, t_=None):
            override_log.append((a, t_))
            return ("override", len(override_log))
        outcome = None
        try:
            if mode == "override":
                outcome = ("ok", s.value(executor=override, title=title))
            elif mode == "fail":
                ds.fail = True
                try:
                    outcome = ("ok", s.value(title=title))
                finally:
                    ds.fail = False
            else:
                outcome = ("ok", s.value(title=title))
        except RuntimeError as ex:
            outcome = ("raised", str(ex))
        if "C16" in self.props and mode == "own" and ds.calls[before[id(ds)]:]:
            from func_adl.ast.ast_hash import calc_ast_hash
            self.t.contract("C16: executor AST / dump / hash identical to the chain without QMetaData")
            sent = ds.calls[before[id(ds)]:][0][0]
            try:
                twin = self.twin_without_qmd(i)
                tw = spec_md.drop_empty_metadata(copy.deepcopy(twin.query_ast))
                if ast.dump(sent) != ast.dump(tw) or calc_ast_hash(sent) != calc_ast_hash(tw):
                    self.t.violation("QMetaData:ensures fields(result.query_ast) == fields(self.query_ast)",
                                     f"query sent for {desc} differs from the same chain built "
                                     "without QMetaData", " ; ".join(self.log), ast.unparse(tw),
                                     ast.unparse(sent), {"kind": "hist", "log": self.log})
            except (ValueError, KeyError, IndexError):
                pass
        if "C12" in self.props:
            self.t.contract("C12: exactly one executor, once, with the stream's query")
            hist = " ; ".join(self.log)
            rp = {"kind": "hist", "log": self.log}
            calls = override_log if mode == "override" else ds.calls[before[id(ds)]:]
            wrong = [d.name for d in (others if mode != "override" else self.datasets)
                     if len(d.calls) != before[id(d)]]
            if wrong:
                self.t.violation("value:only the stream's own executor runs",
                                 f"executor of {wrong} was invoked by {desc}", hist, [], wrong, rp)
            if len(calls) != 1:
                self.t.violation("value:exactly one executor call",
                                 f"{len(calls)} calls for {desc}", hist, 1, len(calls), rp)
            else:
                a, t_ = calls[0]
                if not specrt.same(a, exp_ast):
                    self.t.violation("value:ensures sent == drop_empty_metadata(stream.query_ast)",
                                     f"the AST handed to the executor differs for {desc}", hist,
                                     ast.unparse(exp_ast), ast.unparse(a), rp)
                if t_ != title:
                    self.t.violation("value:title passed through", desc, hist, title, t_, rp)
                if mode == "override":
                    exp_out = ("ok", ("override", 1))
                elif mode == "fail":
                    exp_out = ("raised", f"boom-{ds.name}-{len(ds.calls)}")
                else:
                    exp_out = ("ok", ("result", ds.name, len(ds.calls)))
                if outcome != exp_out:
                    self.t.violation("value:returns/raises exactly what the executor did", desc,
                                     hist, exp_out, outcome, rp)
            # root dataset recoverable from the derived query
            from func_adl import find_EventDataset
            import evds as spec_evds
            self.t.contract("C12: find_EventDataset == the single element of ds_calls (spec, native)")
            try:
                root = find_EventDataset(s.query_ast)
                dc = spec_evds.ds_calls(s.query_ast)
                if len(dc) != 1 or dc[0] is not root:
                    self.t.violation("find_EventDataset:ensures result == head(ds_calls(query))",
                                     desc, hist, f"{len(dc)} dataset call(s) by the spec",
                                     ast.unparse(root), rp)
                if getattr(root, "_eds_object", None) is not ds:
                    self.t.violation("find_EventDataset:returns the root of this stream", desc,
                                     hist, ds.name, repr(getattr(root, "_eds_object", None)), rp)
            except Exception as ex:
                self.t.violation("find_EventDataset:no-exception on a single-rooted query", desc,
                                 hist, None, repr(ex), rp)
        self.check_all(desc)


def random_history(t, props, n_steps, rng):
    h = Hist(t, props)
    h.op_new(rng.random() < 0.6)
    ops = ["Select", "Where", "SelectMany", "MetaData", "QMetaData", "QMetaData", "Select",
           "AsAwkwardArray", "AsROOTTTree", "AsPandasDF", "AsParquetFiles", "value", "value"]
    for _ in range(n_steps):
        op = rng.choice(ops)
        try:
            if op == "value":
                i = rng.randrange(len(h.streams))
                h.op_value(i, rng.choice(["own", "own", "override", "fail"]),
                           rng.choice([None, "title-1"]))
            elif rng.random() < 0.12 and len(h.datasets) < 2:
                h.op_new(rng.random() < 0.5)
            else:
                # derive from a stream that is still a sequence stream (not a terminal)
                cands = [k for k, r in enumerate(h.streams) if "As" not in r["desc"].split("=")[-1][:12]]
                i = rng.choice(cands)
                h.op_derive(i, op, rng.randrange(12), rng.randrange(2) if "C11" in props else 0)
        except (ValueError, AssertionError, TypeError, KeyError, AttributeError) as ex:
            # a designed refusal (e.g. Where on a non-boolean lambda for this item type) ends the
            # step; anything else would show up in the other properties
            h.log.append(f"!{type(ex).__name__}")
            h.check_all(f"failed step {op}")
    nontrivial = sum(1 for l in h.log if ".value(" in l or "QMetaData" in l) >= 1 and \
        len(h.streams) >= 3
    t.case("hist:" + " ; ".join(h.log), nontrivial, sample=" ; ".join(h.log)[:400])
    return h


def concurrent_history(t, props, rng, n=3):
    """C12: several value_async awaited concurrently, completing in every order."""
    import itertools
    DS, Event, Jet = make_world()
    for order in itertools.permutations(range(n)):
        loop = asyncio.new_event_loop()
        try:
            dss = [DS(f"c{i}") for i in range(2)]
            gates = [None] * n
            sent = []

            def mk(i):
                async def exe(a, title=None):
                    sent.append((i, a, title))
                    await gates[i].wait()
                    return ("done", i)
                return exe
            streams = [dss[i % 2].Select(f"lambda e: e.x{i}").MetaData({}) for i in range(n)]

            async def main():
                for i in range(n):
                    gates[i] = asyncio.Event()
                tasks = [asyncio.ensure_future(streams[i].value_async(executor=mk(i),
                                                                      title=f"t{i}"))
                         for i in range(n)]
                await asyncio.sleep(0)
                # build more queries while executions are pending
                extra = dss[0].Select("lambda e: e.y").Where("lambda e: e.z > 1")
                for k in order:
                    gates[k].set()
                    await asyncio.sleep(0)
                return await asyncio.gather(*tasks), extra
            res, extra = loop.run_until_complete(main())
        finally:
            loop.close()
        key = f"concurrent:{order}"
        t.case(key, True, sample=key)
        t.contract("C12: concurrent value_async in every completion order")
        rp = {"kind": "concurrent", "order": list(order)}
        if list(res) != [("done", i) for i in range(n)]:
            t.violation("value_async:each call returns its own executor's result", key, key,
                        [("done", i) for i in range(n)], list(res), rp)
        if sorted(i for i, _, _ in sent) != list(range(n)):
            t.violation("value_async:exactly one executor call each", key, key, list(range(n)),
                        sorted(i for i, _, _ in sent), rp)
        for i, a, title in sent:
            exp = spec_md.drop_empty_metadata(copy.deepcopy(streams[i].query_ast))
            if not specrt.same(a, exp) or title != f"t{i}":
                t.violation("value_async:sent == drop_empty_metadata(query), own title", key, key,
                            ast.unparse(exp), ast.unparse(a), rp)
        if any(d.calls for d in dss):
            t.violation("value_async:override given => dataset executor not used", key, key, 0,
                        [len(d.calls) for d in dss], rp)


def directed_histories(t, props):
    """Exhaustive small histories: two roots (typed / untyped in both orders) x every lambda given
    as ONE shared ast.Lambda object or as a source string to both, then executed."""
    for typed_first in (False, True):
        for op in ("Select", "Where", "SelectMany"):
            for k in range(len(LAMBDAS[op])):
                for how in ((0, 1) if "C11" in props else (0,)):
                    h = Hist(t, props)
                    a = h.op_new(typed_first)
                    b = h.op_new(not typed_first)
                    try:
                        i = h.op_derive(a, op, k, how)
                        j = h.op_derive(b, op, k, how)
                        h.op_derive(i, "Select", 0, 0)
                        h.op_value(j, "own", None)
                        h.op_value(i, "own", "t")
                        h.op_derive(b, op, k, how)
                    except (ValueError, AssertionError, TypeError, KeyError, AttributeError) as ex:
                        h.log.append(f"!{type(ex).__name__}")
                        h.check_all("failed step")
                    t.case("hist:" + " ; ".join(h.log), True, sample=" ; ".join(h.log)[:300])


def directed_qmd(t, props):
    """C16: all ordered pairs of QMetaData dictionaries, consecutive or separated by an operator,
    on a root and on a derived stream, with a sibling branch."""
    import itertools
    for (a, da), (b, db) in itertools.product(enumerate(QMDS), repeat=2):
        for between in (None, "Select", "MetaData"):
            for on_root, typed in ((True, False), (False, False), (True, True), (False, True)):
                h = Hist(t, props)
                r = h.op_new(typed)
                base = r if on_root else h.op_derive(r, "Select", 0, 0)
                x = h.op_derive(base, "QMetaData", a, 0)
                sib = h.op_derive(base, "Where", 0, 0)
                y = x if between is None else h.op_derive(x, between, 1, 0)
                z = h.op_derive(y, "QMetaData", b, 0)
                fin = h.op_derive(z, "Select", 1, 0) if on_root else z
                h.op_derive(sib, "QMetaData", (a + 1) % len(QMDS), 0)
                h.op_value(z, "own", None)
                h.op_value(fin, "own", None)
                t.case("hist:" + " ; ".join(h.log), True, sample=" ; ".join(h.log)[:300])


def directed_named_functions(t, props):
    """Named functions with annotated parameters given to the operators of untyped and typed
    streams, siblings derived before and after (seed C11_g: the annotation was written back as the
    item type of the stream the operator was called on)."""
    for typed in (False, True):
        for op, fn in (("Select", _f_met), ("Select", _f_jets), ("Where", _f_cut),
                       ("Where", _f_notbool), ("SelectMany", _f_jets)):
            h = Hist(t, props)
            r = h.op_new(typed)
            d0 = h.op_derive(r, "Select", 0, 0)
            h.op_derive_fn(r, op, fn)
            h.op_derive(r, "Select", 1, 0)
            h.op_derive_fn(d0, "Select", _f_notbool) if not typed else None
            h.op_derive(r, "Where", 0, 0)
            h.op_value(d0, "own", None)
            t.case("hist:" + " ; ".join(h.log), True, sample=" ; ".join(h.log)[:300])


def directed_qmd_after_run(t, props):
    """An EMPTY MetaData wrapper directly under the node that carries query metadata, operators on
    top, then value(): the run removes the empty wrapper from the executor's copy only - the
    stream keeps its query and its query metadata, also for streams derived afterwards (seed
    C16_g: a copy-on-write cleaner rewired the stream's own node past the wrapper)."""
    for a in range(4):
        for typed in (False, True):
            for op in ("Select", "Where"):
                h = Hist(t, props)
                r = h.op_new(typed)
                m = h.op_derive(r, "MetaData", 0, 0)
                x = h.op_derive(m, "QMetaData", a, 0)
                s = h.op_derive(x, op, 0, 0)
                h.op_value(s, "own", None)
                w = h.op_derive(s, "Select" if op == "Where" else "Where", 0, 0)
                h.op_value(x, "own", None)
                h.op_derive(x, "QMetaData", (a + 1) % len(QMDS), 0)
                h.op_value(w, "own", None)
                t.case("hist:" + " ; ".join(h.log), True, sample=" ; ".join(h.log)[:300])


def run_histories(t, props):
    directed_histories(t, props)
    if "C16" in props:
        directed_qmd(t, props)
    directed_qmd_after_run(t, props)
    if "C11" in props:
        directed_named_functions(t, props)
    rng = t.rng
    quick = t.tier == "quick"
    n_hist = 150 if quick else 1500
    t.rules.append("seeded-random histories of <= 14 derive/execute steps over <= 2 data sets "
                   "(typed and untyped roots; Select/Where/SelectMany with source-string and SHARED "
                   "ast.Lambda arguments, MetaData, QMetaData, result-format terminals, value() with "
                   "own executor / override / failing executor); every live stream re-checked after "
                   "every step; non-trivial = >= 3 streams and at least one execute or QMetaData; "
                   "distinct by the history text")
    for k in range(n_hist):
        if t.out_of_time():
            t.notes.append("time budget reached")
            break
        random_history(t, props, 6 + (k % 9), rng)
    t.bounds.append(f"{n_hist} histories")


def rootless(t):
    """C12: queries with no root or several roots are rejected by find_EventDataset."""
    from func_adl import find_EventDataset
    DS, Event, Jet = make_world()
    a, b = DS("r1"), DS("r2")
    two = ast.Call(ast.Name("Zip", ast.Load()), [a.query_ast, b.Select("lambda e: e.x").query_ast], [])
    none = ast.parse("Select(jets, lambda j: j.pt)").body[0].value
    for name, q in (("two roots", two), ("no root", none)):
        t.case("roots:" + name, True, sample=name)
        t.contract("find_EventDataset: rejects none / several roots")
        try:
            find_EventDataset(q)
            t.violation("find_EventDataset:raises unless exactly one root", name, name,
                        "exception", "returned", {"kind": "roots", "which": name})
        except Exception:
            pass
    # random queries with 0 / 1 / 2 / nested dataset calls: the finder against the spec ds_calls
    import gen
    import evds as spec_evds
    rq = gen.random_queries(t.rng, 60 if t.tier == "quick" else 1500, 3)
    for i, src in enumerate(rq):
        variants = [src.replace("ds", "EventDataset('a')", 1),
                    src.replace("ds", "EventDataset('a')"),
                    src.replace("ds", "EventDataset(EventDataset('in'))", 1),
                    src.replace("ds", "other")]
        for v in variants:
            q = ast.parse(v).body[0].value
            dc = spec_evds.ds_calls(q)
            t.case("roots:rand:" + v, len(dc) != 1, sample=v)
            t.contract("find_EventDataset: result / refusal == spec ds_calls (native)")
            try:
                r = find_EventDataset(q)
                if len(dc) != 1 or r is not dc[0]:
                    t.violation("find_EventDataset:ensures result == head(ds_calls(query))", v, v,
                                f"{len(dc)} dataset call(s) by the spec", ast.unparse(r),
                                {"kind": "roots", "which": v})
            except Exception:
                if len(dc) == 1:
                    t.violation("find_EventDataset:raises iff len(ds_calls(query)) != 1", v, v,
                                "the single dataset call", "exception", {"kind": "roots", "which": v})

