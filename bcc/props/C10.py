"""C10 — bounded contract check: untyped queries pass through unchanged; refusals are explicit.
Contract on Select/SelectMany/Where of an untyped stream for every single-parameter lambda without
sugar or captures: the emitted lambda is structurally the given one (Where: when the body is a
comparison / boolean combination); the only exceptions are the designed ValueErrors."""
import ast
import itertools
import keyword

from props import srcgen

NAMES = ["x", "value", "id", "attr", "args", "func", "ctx", "lineno", "_fields", "elts", "keys",
         "zip", "self", "pt", "body", "slice", "n", "kind", "col_offset"]
KEYS = ["a", "a b", "class", "1x", "", "é", "k-1", "_q", "value", "zip"]


def atoms(rng, quick):
    ns = NAMES if not quick else NAMES[:10]
    out = [f"e.{n}" for n in ns]
    out += [f"e.{n}()" for n in ns[:6]]
    out += ["e", "1", "1.5", "'s'", "True", "None", "e.jets.id", "e.jets.lineno", "e.x.value",
            "e.value.value", "e.a.args", "e.f.func", "e.keys.elts"]
    return out


def compose(a, b, c):
    return [
        f"{a} + {b}", f"{a} - {b}", f"{a} * {b}", f"{a} / {b}", f"-{a}", f"+{a}", f"not {a}",
        f"~{a}", f"{a} > {b}", f"{a} == {b}", f"{a} < {b} <= {c}", f"{a} and {b}", f"{a} or {b}",
        f"{a} if {b} else {c}", f"({a}, {b})", f"[{a}, {b}]", f"{a}[{b}]", f"{a}[0]", f"{a}[1:2]",
        f"({a}, {b})[0]", f"({a}, {b})[1]", f"f({a}, {b})", f"f({a}, k={b})", f"{a}.m({b})",
        f"{a}.m(k={b}, j={c})", f"e.jets.Select(lambda j: j.pt + {a})", f"(lambda q: q + {a})",
        f"g(lambda q: q.{NAMES[1]} > {a})", f"{a} in {b}", f"{a} is {b}", f"{a} ** 2", f"{a} % {b}",
        f"{a} // {b}", f"abs({a})",
    ]


def dicts(a, b):
    out = []
    for k in KEYS:
        out.append(f"{{{k!r}: {a}}}")
        out.append(f"{{{k!r}: {a}, 'b': {b}}}[{k!r}]")
    out.append(f"{{'a': {a}, 'b': {b}}}.a")
    out.append(f"{{'a': {a}, 'a': {b}}}")
    return out


NESTED = ["e.jets.Select(lambda j: f(j, e))", "g(lambda q: q > e)", "e.jets.Select(lambda j: (j, e))",
          "e.jets.Select(lambda j: e[j.idx])", "(lambda q: (q, e))", "e.jets.Where(lambda j: j.pt > e[0])",
          "e.jets.Select(lambda j: j.tracks.Select(lambda q: f(q, j, e)))",
          "e.jets.Select(lambda j: g(lambda q: (q, j)))", "f(e)", "(e, e.x)",
          # nested lambdas that re-use the enclosing parameter's name: emitted as written, not
          # alpha-renamed (seed C10_g, visible on the callable path only)
          "e.jets.Select(lambda e: e.pt)", "e.jets.Where(lambda e: e.pt > 1).Select(lambda e: e.eta)",
          "e.jets.Select(lambda e: e.tracks.Select(lambda e: e.pt))",
          "g(lambda e: (e, 1))", "e.jets.Select(lambda j: j.tracks.Select(lambda j: f(j)))"]
DESIGNED = ["(e.x, e.y)[2]", "(e.x, e.y)[e.i]", "(e.x, e.y)[-1]", "(e.x, e.y)['a']", "(e.x,)[1.5]",
            "{'a': e.x}['b']", "{'a': e.x}.b", "{-1: e.x}.a", "{(1, 2): e.x, 'b': 1}.a",
            "1 if e.x else 's'", "e.x if e.c else (e.y, 1)",
            "(e.x, e.y)[0:1]", "(e.x, e.y)[True]", "(e.x, e.y)[-2]", "(e.x, e.y)[-3]",
            "(e.x,)[-2]", "f((e.x, e.y)[-5])"]
# subscripts of a dictionary literal whose key is only known at run time: passed through
DICT_DYNAMIC = ["{'a': e.x}[e.i]", "{'a': e.x}[1:2]", "{'a': e.x}[(e.i, 1)]", "{'a': e.x}[-e.i]",
                "{'a': e.x, 'b': e.y}[e.k][0]", "({'value': e.id})[1:2]", "{'a': e.x}[f(e)]",
                "{'not an identifier': e.x}[e.i]",
                # keys that are literals but not plain constants (-1, a tuple): repaired by 64ca2b3
                "{-1: e.x, 'a': e.y}.a", "{(1, 2): e.x, 'a': e.y}.a", "{-1: e.x}[-1]",
                "{(1, 2): e.x}[(1, 2)]", "{-1: e.x}"]


def expressions(t):
    rng = t.rng
    quick = t.tier == "quick"
    at = atoms(rng, quick)
    out = list(at)
    trip = list(itertools.product(at[:8], at[5:11], at[2:5])) if not quick else \
        [(at[i % len(at)], at[(i * 3 + 1) % len(at)], at[(i * 7 + 2) % len(at)]) for i in range(18)]
    for a, b, c in trip:
        out += compose(a, b, c)
    for a in at[:6] if quick else at:
        out += dicts(a, "e.y")
    # depth 3, sampled
    d2 = out[len(at):]
    for _ in range(150 if quick else 3000):
        a, b, c = rng.choice(d2), rng.choice(at), rng.choice(d2)
        out.append(rng.choice(compose(f"({a})", b, f"({c})")))
    out += DESIGNED
    out += DICT_DYNAMIC
    out += NESTED
    # dictionary literals with the same outer keys whose NESTED literals differ, one after the
    # other in the same process (seed C10_f: a cache of generated record classes keyed by the
    # outer shape served the inner fields of an earlier literal)
    out += ["{'lead': {'pt': e.a}, 'n': e.b}['lead']['pt']", "{'lead': {'eta': e.a}, 'n': e.b}['lead']['eta']",
            "{'lead': {'pt': e.a, 'eta': e.b}, 'n': e.b}['lead']['eta']",
            "({'k': {'u': e.a}}['k']['u'], {'k': {'v': e.a}}['k']['v'])",
            "{'k': {'u': {'w': e.a}}}['k']['u']['w']", "{'k': {'u': {'z': e.a}}}['k']['u']['z']",
            "{'lead': {'pt': e.a}, 'n': e.b}.lead.pt", "{'lead': {'phi': e.a}, 'n': e.b}.lead.phi"]
    seen = set()
    res = []
    for s in out:
        try:
            ast.parse(s, mode="eval")
        except SyntaxError:
            continue
        if s not in seen:
            seen.add(s)
            res.append(s)
    return res


def is_designed_refusal(body, op, msg):
    """Refusals the property lists: decided from the input expression alone."""
    for n in ast.walk(body):
        if isinstance(n, ast.Subscript) and isinstance(n.value, ast.Tuple):
            s = n.slice
            if not (isinstance(s, ast.Constant) and isinstance(s.value, int)):
                return True
            if s.value >= len(n.value.elts) or s.value < -len(n.value.elts):
                return True
        if isinstance(n, ast.Subscript) and isinstance(n.value, ast.Dict):
            if isinstance(n.slice, ast.Constant) and all(isinstance(k, ast.Constant) for k in n.value.keys) \
                    and n.slice.value not in [k.value for k in n.value.keys]:
                return True
        if isinstance(n, ast.Attribute) and isinstance(n.value, ast.Dict):
            # every key is a literal (a constant, or -1, (1, 2), ...) and none is the name
            try:
                vals = [ast.literal_eval(k) for k in n.value.keys]
            except (ValueError, TypeError, SyntaxError):
                vals = None
            if vals is not None and n.attr not in vals and n.attr.lower() != "zip":
                return True
        if isinstance(n, ast.IfExp):
            return "IfExp" in msg or "branches" in msg
        if isinstance(n, ast.Constant) and not isinstance(
                n.value, (str, int, float, bool, complex, bytes, type(None))):
            return True
    if op == "Where" and "Where filter must return a boolean" in msg:
        return True
    return False


def where_body_is_boolean(body):
    return isinstance(body, (ast.Compare, ast.BoolOp))


class _FoldNeg(ast.NodeTransformer):
    """-3 written in source is UnaryOp(USub, 3); a lambda handed over as an AST may hold the
    constant -3 itself"""

    def visit_UnaryOp(self, node):
        self.generic_visit(node)
        if isinstance(node.op, ast.USub) and isinstance(node.operand, ast.Constant) \
                and type(node.operand.value) in (int, float):
            return ast.copy_location(ast.Constant(-node.operand.value), node)
        return node


def fold_neg(tree):
    return ast.fix_missing_locations(_FoldNeg().visit(tree))


def judge(t, op, how, src, outcome, rp):
    lam_src = f"lambda e: {src}"
    want = ast.parse(lam_src, mode="eval").body
    if how == "ast-folded":
        want = fold_neg(want)
    t.contract(f"{op}: emitted lambda == given lambda, or a designed ValueError")
    if outcome[0] == "err":
        ex = outcome[1]
        if isinstance(ex, ValueError) and is_designed_refusal(want.body, op, str(ex)):
            return
        if isinstance(ex, ValueError) and op == "Where" and not where_body_is_boolean(want.body):
            return
        t.violation(f"{op}:raises only the designed ValueErrors",
                    f"{type(ex).__name__}: {str(ex)[:90]}", f"{how}: {op}({lam_src})",
                    "the lambda unchanged (or a designed ValueError)", repr(ex)[:160], rp)
        return
    s = outcome[1]
    q = s.query_ast
    got = q.args[1]
    if ast.dump(got) != ast.dump(want):
        if op == "Where" and not where_body_is_boolean(want.body):
            return
        t.violation(f"{op}:ensures emitted lambda == given lambda (structurally)",
                    "the emitted lambda differs from the one given", f"{how}: {op}({lam_src})",
                    ast.unparse(want), ast.unparse(got), rp)


def run(t):
    from func_adl import EventDataset
    exprs = expressions(t)
    t.rules.append("expressions over names, attributes, calls (positional/keyword), subscripts, "
                   "unary/binary/boolean/comparison operators, conditionals, tuples, lists, dicts "
                   "with arbitrary string keys, nested lambdas, names drawn from a pool that "
                   "includes ast-meaningful ones (value, id, attr, args, func, ctx, lineno, _fields, "
                   "elts, keys, zip, self); depth <= 2 enumerated, depth 3 sampled; supplied as "
                   "source strings, ASTs (all) and capture-free Python callables (every 3rd); "
                   "non-trivial = depth >= 2; distinct by (operator, how, expression)")

    class DS(EventDataset):
        async def execute_result_async(self, a, title=None):
            return a
    ds = DS()
    for i, src in enumerate(exprs):
        lam = f"lambda e: {src}"
        for op in ("Select", "SelectMany", "Where"):
            hows = ("str", "ast", "ast-folded") if "[-" in src or "(-" in src or " -" in src \
                else ("str", "ast")
            for how in hows:
                key = f"C10:{op}:{how}:{src}"
                t.case(key, any(c in src for c in "([+-<>"), sample=f"{op}({lam}) as {how}")
                arg = lam if how == "str" else ast.parse(lam, mode="eval").body
                if how == "ast-folded":
                    arg = fold_neg(arg)
                try:
                    outcome = ("ok", getattr(ds, op)(arg))
                except Exception as ex:
                    outcome = ("err", ex)
                judge(t, op, how, src, outcome, {"kind": "C10", "src": src, "op": op, "how": how})
        if t.out_of_time():
            break
    # capture-free callables: generated source module, one operator call per statement
    call_exprs = [x for x in NESTED if x in exprs] + exprs[::3]
    ops = ["Select", "SelectMany", "Where"]
    # module globals with the SAME names as the lambda parameters: parameters shadow them, so the
    # lambdas stay capture-free
    src_lines = [srcgen.PRELUDE, "e = 2.718281828\nj = 5\nq = 'Q'\nf = None\ng = None\n"]
    for i, src in enumerate(call_exprs):
        op = ops[i % 3]
        src_lines.append(srcgen.case_block(i, f"ds.{op}(lambda e: {src})"))
    try:
        mod = srcgen.run_module("".join(src_lines), "c10")
        for rec in mod.R:
            i = rec[0]
            src = call_exprs[i]
            op = ops[i % 3]
            t.case(f"C10:{op}:callable:{src}", True)
            judge(t, op, "callable", src, rec[1:], {"kind": "C10", "src": src, "op": op,
                                                     "how": "callable"})
    except SyntaxError as ex:
        t.notes.append(f"generated module did not parse: {ex}")
    t.bounds.append(f"{len(exprs)} expressions x 3 operators x (str, ast) + {len(call_exprs)} callables")


def replay(payload, t):
    from func_adl import EventDataset

    class DS(EventDataset):
        async def execute_result_async(self, a, title=None):
            return a
    src, op = payload["src"], payload["op"]
    lam = f"lambda e: {src}"
    arg = lam if payload.get("how") != "ast" else ast.parse(lam, mode="eval").body
    try:
        outcome = ("ok", getattr(DS(), op)(arg))
    except Exception as ex:
        outcome = ("err", ex)
    judge(t, op, payload.get("how", "str"), src, outcome, payload)
    return not t.violations
