"""C18 — bounded contract check: simplification is total on well-formed queries.
Contract: visit(q) returns (per-input time-out as the bounded termination check), the only
exception allowed is FuncADLIndexError and only for a constant non-negative integer index >= len
of a tuple/list literal; the result unparses and compiles; non-reducible projections stay
semantically intact (sem equal where the original evaluates)."""
import ast
import copy
import signal

import sem
from common import unparse, parse_expr
from props import simp_common as sc

SELECTORS = ["0", "1", "2", "5", "-1", "-2", "-3", "i", "e.met", "0:1", ":", "1:", "'a'", "'zz'",
             "True", "None", "1.0"]
LITERALS = [("({a}, {b})", 2), ("[{a}, {b}]", 2), ("({a},)", 1), ("[]", 0),
            ("{{'a': {a}, 'b': {b}}}", "d"), ("{{1: {a}, 2: {b}}}", "d"), ("{{k: {a}}}", "d")]


class Timeout(Exception):
    pass


def _alarm(signum, frame):
    raise Timeout()


def expected_index_error(lit_kind, sel):
    """Is FuncADLIndexError the designed outcome? constant int index beyond the end."""
    if lit_kind == "d":
        return False
    try:
        v = ast.literal_eval(sel)
    except Exception:
        return False
    return isinstance(v, int) and v >= lit_kind


def projection_queries():
    out = []
    for lit, kind in LITERALS:
        L = lit.format(a="e.met", b="e.jets", k="k")
        for sel in SELECTORS:
            exp = expected_index_error(kind, sel)
            out.append((f"Select(ds, lambda e: {L}[{sel}])", exp))
            out.append((f"Select(ds, lambda e: (lambda t: t[{sel}])({L}))", exp))
            out.append((f"Select(Select(ds, lambda e: {L}), lambda t: t[{sel}])", exp))
            out.append((f"Select(ds, lambda e: First(Select(e.jets, lambda j: "
                        f"{lit.format(a='j.pt', b='j.eta', k='k')}))[{sel}])", exp))
        if kind == "d":
            out.append((f"Select(ds, lambda e: {L}.get('zz', 0))", False))
            out.append((f"Select(Select(ds, lambda e: Select(e.jets, lambda j: {lit.format(a='j.pt', b='j.eta', k='k')})), "
                        f"lambda t: Select(t, lambda r: r.get('zz', 0)))", False))
            for attr in ("a", "b", "zz", "keys"):
                out.append((f"Select(ds, lambda e: {L}.{attr})", False))
                out.append((f"Select(Select(ds, lambda e: {L}), lambda t: t.{attr})", False))
    return out


def check_one(t, src, idx_err_expected, budget=5):
    from func_adl.ast.function_simplifier import FuncADLIndexError
    q = parse_expr(src)
    replay = {"kind": "C18", "src": src, "idx": idx_err_expected}
    selectors = any(isinstance(x, ast.Subscript) for x in ast.walk(q))
    t.case("C18:" + src, selectors, sample=src)
    t.contract("visit(q): total, only FuncADLIndexError for constant index >= len")
    signal.signal(signal.SIGALRM, _alarm)
    signal.alarm(budget)
    try:
        r = sc.simplify(q)
    except Timeout:
        t.violation("simplify_chained_calls.visit:terminates (bounded: 5 s)", "no result within "
                    "the per-input time-out", src, None, None, replay)
        return
    except FuncADLIndexError as ex:
        signal.alarm(0)
        if not idx_err_expected:
            t.violation("simplify_chained_calls.visit:raises FuncADLIndexError only-when constant "
                        "index >= len", "dedicated index error for a selector that is not a "
                        "constant index beyond the end", src, None, repr(ex), replay)
        return
    except RecursionError as ex:
        signal.alarm(0)
        t.violation("simplify_chained_calls.visit:terminates", "RecursionError", src, None,
                    repr(ex), replay)
        return
    except Exception as ex:
        signal.alarm(0)
        t.violation("simplify_chained_calls.visit:no-internal-error",
                    f"raises {type(ex).__name__}: {str(ex)[:80]}", src, None, repr(ex), replay)
        return
    finally:
        signal.alarm(0)
    if idx_err_expected:
        t.violation("simplify_chained_calls.visit:raises FuncADLIndexError when constant index "
                    ">= len", "out-of-range constant index was not reported", src, None,
                    unparse(r) if isinstance(r, ast.AST) else repr(r), replay)
        return
    t.contract("WF(visit(q)): unparses and compiles")
    try:
        text = ast.unparse(r)
        r2 = copy.deepcopy(r)
        for x in ast.walk(r2):
            if "ctx" in x._fields and not hasattr(x, "ctx"):
                x.ctx = ast.Load()
        compile(ast.fix_missing_locations(ast.Expression(r2)), "<simplified>", "eval")
    except Exception as ex:
        t.violation("simplify_chained_calls.visit:ensures WF(result)",
                    f"result is not a valid AST ({type(ex).__name__}: {str(ex)[:80]})", src, None,
                    _safe_dump(r), replay)
        return
    # an attribute that is not a key of the dictionary literal it is taken from stays an
    # attribute access (seed C18_f: it was turned into {...}['name'], another expression)
    for name in ("zz", "keys", "get"):
        if any(isinstance(x, ast.Attribute) and x.attr == name for x in ast.walk(q)):
            t.contract("absent attribute of a dictionary literal: sub-expression left intact")
            if not any(isinstance(x, ast.Attribute) and x.attr == name for x in ast.walk(r)) or \
                    any(isinstance(x, ast.Subscript) and isinstance(x.slice, ast.Constant)
                        and x.slice.value == name for x in ast.walk(r)):
                t.violation("simplify_chained_calls.visit:absent key/attribute left intact",
                            f"the attribute .{name} (not a key of the literal) was rewritten", src,
                            None, text, replay)
                return
    # the induction hypothesis of the deductive proof (spec qs, executed natively): a query of
    # query shape stays of query shape — a run-time cross-check of the proof's model and of the
    # parts the proof only assumes (visit_Lambda / generic_visit / make_args_unique)
    try:
        import qshape
        t.contract("hypothesis (native): qs(q) implies qs(visit(q))")
        if qshape.qs(q) and not qshape.qs(r):
            t.violation("simplify_chained_calls.visit:hypothesis qs(result)",
                        "the result is not of query shape although the input is", src, None,
                        text, replay)
            return
    except RecursionError:
        pass
    t.contract("sem(visit(q)) == sem(q) where defined")
    for i, d in enumerate(sc.DATA):
        env = {"ds": d, "i": 0, "k": "a"}
        r0 = sem.run(q, env)
        if r0[0] != "ok":
            continue
        r1 = sem.run(r, env)
        if r1 != r0:
            t.violation("simplify_chained_calls.visit:sem-intact",
                        "sub-expression not left semantically intact", f"{src}  [data set {i}]",
                        r0, f"{r1} via {text}", dict(replay, data=i))
            return


def _safe_dump(r):
    try:
        return ast.dump(r)[:300]
    except RecursionError:
        return "<AST that cannot be dumped: cyclic or unboundedly deep>"


def run(t):
    qs = projection_queries()
    gq = [(s, False) for s, sch in sc.general_queries(t)]
    t.rules.append("C02's query corpus plus literal projections (tuple/list/dict literals x "
                   "constant in-range, out-of-range, negative, variable, slice, str, bool, None, "
                   "float selectors and absent keys/attributes) directly, through a called lambda, "
                   "through Select-of-Select and through First; non-trivial = contains a "
                   "subscript; distinct by source text")
    t.bounds.append(f"{len(qs)} projection queries + {len(gq)} general queries, 5 s per input")
    for s, exp in qs + gq:
        if t.out_of_time():
            t.notes.append("time budget reached")
            break
        check_one(t, s, exp)


def replay(payload, t):
    check_one(t, payload["src"], payload.get("idx", False))
    return not t.violations
