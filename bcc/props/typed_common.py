"""Class models for the typed properties C07 / C08 / C09: generated per run."""
import ast
import inspect
import itertools
from typing import Any, Iterable, TypeVar, Generic, Optional, Tuple

DEFAULTS = [0, 1.5, "s", False, None, 7, -2, ""]


def make_signature_model(n_params, default_mask, name="m", ret=float, defaults=None):
    """A method  def m(self, p0, p1=…, …) -> ret  with the given subset of parameters defaulted
    (trailing defaults only, as Python requires)."""
    params = []
    defaults = defaults or DEFAULTS
    for i in range(n_params):
        if default_mask[i]:
            params.append(f"p{i}: float = {defaults[i % len(defaults)]!r}")
        else:
            params.append(f"p{i}: float")
    src = f"def {name}(self, {', '.join(params)}) -> {ret.__name__}: ...\n" if n_params else \
        f"def {name}(self) -> {ret.__name__}: ...\n"
    ns = {}
    exec(src, {"float": float, "int": int, "bool": bool, "str": str}, ns)
    return ns[name]


def call_shapes(n_params, default_mask):
    """Every call shape Python accepts for the signature, plus shapes missing a required
    parameter: (n_positional, keyword names in order)."""
    names = [f"p{i}" for i in range(n_params)]
    out = []
    for n_pos in range(n_params + 1):
        rest = names[n_pos:]
        for k in range(len(rest) + 1):
            for kws in itertools.permutations(rest, k):
                out.append((n_pos, list(kws)))
    return out


def bind_oracle(fn, n_pos, kws):
    """inspect.Signature.bind as the independent oracle: list of expected positional values
    (as source text) or 'ValueError'."""
    sig = inspect.signature(fn)
    args = [f"a{i}" for i in range(n_pos)]
    kwargs = {k: f"k_{k}" for k in kws}
    try:
        ba = sig.bind(None, *args, **kwargs)
    except TypeError:
        return "ValueError"
    ba.apply_defaults()
    vals = list(ba.arguments.values())[1:]
    return vals
