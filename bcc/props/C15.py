"""C15 — bounded contract check of extract_metadata / remove_empty_metadata on the real code.
Contracts (same text as the sidecar): same(result[0], strip_metadata(a)), result[1] ==
collect_metadata(a) (outer wrapper first); same(result, drop_empty_metadata(a)) and the argument
is left unmodified (frame)."""
import ast
import copy
import itertools

import gen
import specrt
import md as spec
from common import unparse, parse_expr, dump

DICTS = ["{}", "{'a': 1}", "{'b': 'x'}", "{}", "{'a': 1}", "{'k': [1, 2]}"]


def wrap_positions(q):
    """Positions (paths) of sub-expressions that may be wrapped: every expr node that is an
    operator source / lambda body / call argument / root."""
    out = []

    def rec(n, path):
        if isinstance(n, ast.expr) and not isinstance(n, (ast.Lambda, ast.Constant, ast.Dict)):
            out.append(path)
        for f, v in ast.iter_fields(n):
            if isinstance(v, list):
                for i, x in enumerate(v):
                    if isinstance(x, ast.AST):
                        rec(x, path + [(f, i)])
            elif isinstance(v, ast.AST):
                if f == "func":
                    continue      # a wrapper is never a callee (stated domain, md_wf)
                rec(v, path + [(f, None)])
    rec(q, [])
    return out


def get_at(n, path):
    for f, i in path:
        n = getattr(n, f) if i is None else getattr(n, f)[i]
    return n


def set_at(root, path, new):
    if not path:
        return new
    parent = get_at(root, path[:-1])
    f, i = path[-1]
    if i is None:
        setattr(parent, f, new)
    else:
        getattr(parent, f)[i] = new
    return root


def wrap(q, paths_dicts):
    """Wrap the listed positions (deepest first so paths stay valid)."""
    q = copy.deepcopy(q)
    for path, (d, times) in sorted(paths_dicts, key=lambda x: -len(x[0])):
        tgt = get_at(q, path)
        w = tgt
        for k in range(times):
            w = ast.Call(ast.Name("MetaData", ast.Load()), [w, parse_expr(d[k % len(d)])], [])
        q = set_at(q, path, w)
    return ast.fix_missing_locations(q)


def check_one(t, q, tag):
    from func_adl.ast.meta_data import extract_metadata, remove_empty_metadata
    src = unparse(q)
    if not spec.md_wf(q):
        return
    n_wrap = sum(1 for x in ast.walk(q) if spec.is_md_call(x))
    n_empty = sum(1 for x in ast.walk(q) if spec.is_md_call(x) and isinstance(x.args[1], ast.Dict)
                  and not x.args[1].keys)
    t.case("C15:" + src, n_wrap >= 2 and 0 < n_empty < n_wrap, sample=src)
    replay = {"kind": "C15", "src": src}
    # ---- extract_metadata
    exp_ast = spec.strip_metadata(copy.deepcopy(q))
    exp_md = spec.collect_metadata(copy.deepcopy(q))
    try:
        got_ast, got_md = extract_metadata(copy.deepcopy(q))
    except Exception as ex:
        t.violation("extract_metadata:no-exception", f"raises {type(ex).__name__}", src, None,
                    repr(ex), replay)
        return
    t.contract("extract_metadata: same(result[0], strip_metadata(a))")
    if not specrt.same(got_ast, exp_ast):
        t.violation("extract_metadata:ensures same(result[0], strip_metadata(a))",
                    "returned query differs from 'every wrapper replaced by its source, nothing "
                    "else changed'", src, unparse(exp_ast), unparse(got_ast), replay)
        return
    t.contract("extract_metadata: result[1] == collect_metadata(a)")
    if list(got_md) != list(exp_md):
        t.violation("extract_metadata:ensures same(result[1], collect_metadata(a))",
                    "metadata list differs (missing / duplicated / order: an outer wrapper must "
                    "precede the wrappers inside its source)", src, exp_md, got_md, replay)
        return
    # the returned dictionaries belong to the caller (back ends fold them into one with
    # dict.update): what it does to them must not show in a LATER call, on this or any other
    # query with a wrapper of the same text (seed C15_h: literal values memoised by text)
    for k, d in enumerate(got_md):
        if isinstance(d, dict):
            if k % 2:
                d.clear()
            else:
                d["__consumer__"] = k
    try:
        got_ast3, got_md3 = extract_metadata(copy.deepcopy(q))
    except Exception as ex:
        t.violation("extract_metadata:no-exception", f"a later call raises {type(ex).__name__}",
                    src, None, repr(ex), dict(replay, step="later call"))
        return
    t.contract("extract_metadata: a later call, after the consumer edited the returned "
               "dictionaries, gives the same answer")
    if list(got_md3) != list(exp_md) or not specrt.same(got_ast3, exp_ast):
        t.violation("extract_metadata:ensures same(result[1], collect_metadata(a))",
                    "a later call on an equal, freshly built query returns other dictionaries "
                    "after the consumer edited the ones returned before", src, exp_md, got_md3,
                    dict(replay, step="later call"))
        return
    # ---- remove_empty_metadata
    arg = copy.deepcopy(q)
    before = dump(arg)
    exp = spec.drop_empty_metadata(copy.deepcopy(q))
    try:
        got = remove_empty_metadata(arg)
    except Exception as ex:
        t.violation("remove_empty_metadata:no-exception", f"raises {type(ex).__name__}", src,
                    None, repr(ex), replay)
        return
    t.contract("remove_empty_metadata: same(result, drop_empty_metadata(a))")
    if not specrt.same(got, exp):
        t.violation("remove_empty_metadata:ensures same(result, drop_empty_metadata(a))",
                    "result differs from 'exactly the empty wrappers removed'", src,
                    unparse(exp), unparse(got), replay)
        return
    t.contract("remove_empty_metadata: modifies nothing")
    if dump(arg) != before:
        t.violation("remove_empty_metadata:frame (argument unmodified)",
                    "the AST handed in was modified in place", src, before[:200],
                    dump(arg)[:200], replay)
        return
    # the result belongs to the caller: what a consumer does to it (back ends cut the wrappers
    # out in place with extract_metadata) must not show in a LATER call on the same query object
    # (seed C15_f: results memoised per query object and handed out again)
    try:
        extract_metadata(got)
        for x in ast.walk(got):
            if isinstance(x, ast.Call):
                x.args = list(reversed(x.args))
    except Exception:
        pass
    got2 = remove_empty_metadata(arg)
    t.contract("remove_empty_metadata: a second call on the same object gives the same answer")
    if not specrt.same(got2, exp) or dump(arg) != before:
        t.violation("remove_empty_metadata:ensures same(result, drop_empty_metadata(a))",
                    "a second call on the same query object, after the first result was edited "
                    "by its consumer, returns something else", src, unparse(exp), unparse(got2),
                    dict(replay, step="second call"))


def non_literal_wrappers(t):
    """A wrapper whose dictionary argument is not a literal is not an EMPTY wrapper: kept in
    place, no error (repaired defect: ValueError from ast.literal_eval; outside the domain md_wf of
    the deductive proof, which covers the wrappers the library itself emits)."""
    from func_adl.ast.meta_data import remove_empty_metadata
    for src, want in (
            ("Select(MetaData(ds, e.cfg), lambda e: e.met)", None),
            ("Select(MetaData(MetaData(ds, {}), cfg()), lambda e: MetaData(e.jets, f(1)))",
             "Select(MetaData(ds, cfg()), lambda e: MetaData(e.jets, f(1)))"),
            ("MetaData(MetaData(MetaData(ds, {'a': 1}), {}), {**base})",
             "MetaData(MetaData(ds, {'a': 1}), {**base})"),
            ("Select(ds, lambda e: MetaData(e.jets, {e.k: 1}))", None)):
        q = parse_expr(src)
        before = dump(q)
        t.case("C15:non-literal:" + src, True, sample=src)
        t.contract("remove_empty_metadata: a non-literal wrapper is kept, nothing raised")
        rp = {"kind": "C15", "src": src}
        try:
            got = remove_empty_metadata(q)
        except Exception as ex:
            t.violation("remove_empty_metadata:no-exception", f"raises {type(ex).__name__}", src,
                        want or src, repr(ex)[:120], rp)
            continue
        if unparse(got) != (want or src) or dump(q) != before:
            t.violation("remove_empty_metadata:ensures same(result, drop_empty_metadata(a))",
                        "a wrapper that is not an empty one was touched", src, want or src,
                        unparse(got), rp)


def run(t):
    non_literal_wrappers(t)
    rng = t.rng
    quick = t.tier == "quick"
    base = [s for s, k in gen.chains(2, 1, "distinct", method=False, rng=rng,
                                     per_stage=4 if quick else 7)]
    base += ["ds", "Select(ds, lambda e: e.met)",
             "Select(SelectMany(ds, lambda e: e.jets), lambda j: j.pt)",
             "ResultTTree(Select(ds, lambda e: (e.met, Count(e.jets))), ['a', 'b'], 't', 'f.root')",
             "First(Select(ds, lambda e: Select(e.jets, lambda j: j.pt)))"]
    t.rules.append("queries of <= 3 operators with 1..4 MetaData wrappers (empty / non-empty / "
                   "repeated dictionaries; adjacent, nested, in lambda bodies and operator "
                   "arguments); non-trivial = at least two wrappers of which some but not all are "
                   "empty; distinct by unparsed query")
    n = 0
    for s in base:
        q = parse_expr(s)
        pos = wrap_positions(q)
        combos = []
        for k in (1, 2, 3):
            cs = list(itertools.combinations(pos, k))
            rng.shuffle(cs)
            combos += cs[: (3 if quick else 12)]
        for c in combos:
            for variant in range(4 if quick else 6):
                pd = []
                for i, p in enumerate(c):
                    if variant == 2:        # runs of adjacent EMPTY wrappers
                        d, times = ["{}"], 2 + (i % 2)
                    elif variant == 3:      # runs of adjacent NON-empty wrappers, equal dicts
                        d, times = ["{'a': 1}"], 2
                    else:
                        d = DICTS[(i + variant * 2 + len(p)) % len(DICTS):] + DICTS
                        times = 1 + ((i + variant) % 2) * (1 + variant % 2)
                    pd.append((p, (d, times)))
                check_one(t, wrap(q, pd), s)
                n += 1
        if t.out_of_time():
            break
    t.bounds.append(f"{len(base)} base queries, {n} wrapper placements")


def replay(payload, t):
    check_one(t, parse_expr(payload["src"]), "replay")
    return not t.violations
