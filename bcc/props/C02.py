"""C02 — bounded contract check of simplify_chained_calls on the real code.
Contract: whenever sem(q, D) evaluates without error, sem(visit(q), D) == sem(q, D); the result
has no unbound name the input did not have."""
import ast
import copy

import sem
from common import unparse, parse_expr
from props import simp_common as sc


def free_names(n, bound=frozenset()):
    out = set()

    def rec(x, b):
        if isinstance(x, ast.Lambda):
            b2 = b | {a.arg for a in x.args.args + x.args.posonlyargs + x.args.kwonlyargs}
            for d in x.args.defaults:
                rec(d, b)
            rec(x.body, b2)
            return
        if isinstance(x, ast.Name):
            if x.id not in b:
                out.add(x.id)
            return
        for c in ast.iter_child_nodes(x):
            rec(c, b)
    rec(n, bound)
    return out


def check_one(t, src, scheme):
    q = parse_expr(src)
    base = sc.sem_all(q)
    ok_idx = [i for i, r in enumerate(base) if r[0] == "ok"]
    replay = {"kind": "C02", "src": src}
    try:
        r = sc.simplify(q)
    except Exception as ex:
        if type(ex).__name__ == "FuncADLIndexError":
            t.case("C02:" + src, False)
            return
        if ok_idx:
            t.case("C02:" + src, True, sample=src)
            t.violation("simplify_chained_calls.visit:no-exception-on-evaluable-query",
                        f"raises {type(ex).__name__} on a query that evaluates", src, None,
                        repr(ex), replay)
        return
    try:
        changed = ast.dump(r) != ast.dump(q)
    except RecursionError:
        t.case("C02:" + src, True, sample=src)
        t.violation("simplify_chained_calls.visit:result-is-a-finite-tree",
                    "the simplified query cannot be dumped (cyclic or unboundedly deep AST)", src,
                    None, "RecursionError in ast.dump(result)", replay)
        return
    nested = sum(1 for x in ast.walk(q) if isinstance(x, ast.Lambda)) >= 2
    t.case("C02:" + src, bool(ok_idx) and changed and nested, sample=src)
    t.contract("sem(visit(q)) == sem(q) whenever sem(q) is defined")
    new_free = free_names(r) - free_names(q)
    new_free = {x for x in new_free if x not in sem.OP_IMPL}
    if new_free and ok_idx:
        t.violation("simplify_chained_calls.visit:no-new-unbound-name",
                    f"result mentions unbound name(s) {sorted(new_free)}", src, None, unparse(r),
                    replay)
        return
    for i in ok_idx:
        r1 = sem.run(r, {"ds": sc.DATA[i]})
        if r1 != base[i]:
            t.violation("simplify_chained_calls.visit:sem-equal",
                        "simplified query evaluates differently", f"{src}  [data set {i}]",
                        base[i], f"{r1}  via {unparse(r)}", dict(replay, data=i))
            return


def run(t):
    qs = sc.general_queries(t)
    t.rules.append("closed queries over Select/Where/SelectMany/First/Count in function and method "
                   "form (chains <= 3, nested lambdas, called lambdas with positional/keyword/"
                   "default arguments, tuple/list/dict packaging + constant projection) x binder "
                   "naming schemes distinct/same/reuse; non-trivial = evaluates on some data set, "
                   "has >= 2 lambdas and is changed by the simplifier; distinct by source text")
    t.bounds.append(f"{len(qs)} queries x {len(sc.DATA)} data sets")
    for s, sch in qs:
        if t.out_of_time():
            t.notes.append("time budget reached")
            break
        check_one(t, s, sch)


def replay(payload, t):
    check_one(t, payload["src"], "replay")
    return not t.violations
