"""C02 — bounded contract check of simplify_chained_calls on the real code.
Contract: whenever sem(q, D) evaluates without error, sem(visit(q), D) == sem(q, D); the result
has no unbound name the input did not have."""
import ast
import copy

import sem
from common import unparse, parse_expr
from props import simp_common as sc


def free_names(n, bound=frozenset()):
    out = set()

    def rec(x, b):
        if isinstance(x, ast.Lambda):
            b2 = b | {a.arg for a in x.args.args + x.args.posonlyargs + x.args.kwonlyargs}
            for d in x.args.defaults:
                rec(d, b)
            rec(x.body, b2)
            return
        if isinstance(x, ast.Name):
            if x.id not in b:
                out.add(x.id)
            return
        for c in ast.iter_child_nodes(x):
            rec(c, b)
    rec(n, bound)
    return out


def check_one(t, src, scheme, counter=None):
    q = parse_expr(src)
    base = sc.sem_all(q)
    ok_idx = [i for i, r in enumerate(base) if r[0] == "ok"]
    replay = {"kind": "C02", "src": src}
    if counter is not None:
        # the state of the simplifier's process-wide name counter the query was written against
        import func_adl.ast.function_simplifier as fs
        fs.argument_var_counter = counter
        replay["counter"] = counter
    try:
        r = sc.simplify(q)
    except Exception as ex:
        if type(ex).__name__ == "FuncADLIndexError":
            t.case("C02:" + src, False)
            return
        if ok_idx:
            t.case("C02:" + src, True, sample=src)
            t.violation("simplify_chained_calls.visit:no-exception-on-evaluable-query",
                        f"raises {type(ex).__name__} on a query that evaluates", src, None,
                        repr(ex), replay)
        return
    try:
        changed = ast.dump(r) != ast.dump(q)
    except RecursionError:
        t.case("C02:" + src, True, sample=src)
        t.violation("simplify_chained_calls.visit:result-is-a-finite-tree",
                    "the simplified query cannot be dumped (cyclic or unboundedly deep AST)", src,
                    None, "RecursionError in ast.dump(result)", replay)
        return
    nested = sum(1 for x in ast.walk(q) if isinstance(x, ast.Lambda)) >= 2
    t.case("C02:" + src, bool(ok_idx) and changed and nested, sample=src)
    t.contract("sem(visit(q)) == sem(q) whenever sem(q) is defined")
    new_free = free_names(r) - free_names(q)
    new_free = {x for x in new_free if x not in sem.OP_IMPL}
    if new_free and ok_idx:
        t.violation("simplify_chained_calls.visit:no-new-unbound-name",
                    f"result mentions unbound name(s) {sorted(new_free)}", src, None, unparse(r),
                    replay)
        return
    for i in ok_idx:
        r1 = sem.run(r, {"ds": sc.DATA[i]})
        if r1 != base[i]:
            t.violation("simplify_chained_calls.visit:sem-equal",
                        "simplified query evaluates differently", f"{src}  [data set {i}]",
                        base[i], f"{r1}  via {unparse(r)}", dict(replay, data=i))
            return


def rename_to_generated(q, rng):
    """The same query with every lambda parameter name replaced (injectively, so scoping is
    unchanged) by a name of the form the simplifier itself invents, arg_<n>, with n at and just
    above the simplifier's current counter: the naming scheme under which a fresh name that is
    not checked against the query's own names captures one of its variables."""
    import func_adl.ast.function_simplifier as fs
    params = []
    for x in ast.walk(q):
        if isinstance(x, ast.Lambda):
            for a in x.args.args + x.args.kwonlyargs:
                if a.arg not in params:
                    params.append(a.arg)
    if not params:
        return None
    c = fs.argument_var_counter
    offs = rng.sample(range(0, 3 * len(params) + 2), len(params))
    m = {p: f"arg_{c + o}" for p, o in zip(params, offs)}
    q2 = copy.deepcopy(q)
    for x in ast.walk(q2):
        if isinstance(x, ast.Name) and x.id in m:
            x.id = m[x.id]
        elif isinstance(x, ast.arg) and x.arg in m:
            x.arg = m[x.arg]
        elif isinstance(x, ast.keyword) and x.arg in m:
            # a keyword of a called lambda names one of its parameters
            x.arg = m[x.arg]
    return unparse(q2), c


def dict_spec_crosscheck(t):
    """dict_lookup (the spec function behind the proof of visit_Subscript_Dict_with_value), run
    natively, against CPython evaluating the dictionary display and against the real method."""
    import proj
    from func_adl.ast.function_simplifier import simplify_chained_calls
    pool = ["a", "b", "a", 1, True, 0, False, 2, "1", 1.0, None, "b"]
    sels = ["a", "b", "c", 0, 1, 2, True, "1"]
    rng = t.rng
    n = 60 if t.tier == "quick" else 3000
    for _ in range(n):
        keys = [rng.choice(pool) for _ in range(rng.randint(0, 5))]
        s = rng.choice(sels)
        d = ast.Dict(keys=[ast.Constant(k) for k in keys],
                     values=[ast.Constant(100 + i) for i in range(len(keys))])
        label = f"{unparse(d)}[{s!r}]"
        t.case("C02:dict-display:" + label, len(set(map(repr, keys))) < len(keys), sample=label)
        t.contract("dict_lookup (spec, native) == CPython's value of the display == the real method")
        pyd = eval(compile(ast.fix_missing_locations(ast.Expression(copy.deepcopy(d))), "<d>", "eval"))
        want = pyd[s] if s in pyd else None
        spec = proj.dict_lookup(d, s)
        spec = spec.value if spec is not None else None
        real = simplify_chained_calls().visit_Subscript_Dict_with_value(copy.deepcopy(d), s)
        real = real.value if real is not None else None
        if not (want == spec == real):
            t.violation("simplify_chained_calls.visit_Subscript_Dict_with_value:ensures same(result, dict_lookup(v, s))",
                        "the looked-up entry is not the one Python's dictionary display keeps",
                        label, want, f"spec {spec}, code {real}", {"kind": "C02", "src": label})


def run(t):
    dict_spec_crosscheck(t)
    qs = sc.general_queries(t)
    t.rules.append("closed queries over Select/Where/SelectMany/First/Count in function and method "
                   "form (chains <= 3, nested lambdas, called lambdas with positional/keyword/"
                   "default arguments, tuple/list/dict packaging + constant projection) x binder "
                   "naming schemes distinct/same/reuse, each also with the binders renamed to arg_<n> at the "
                   "simplifier's current counter; non-trivial = evaluates on some data set, "
                   "has >= 2 lambdas and is changed by the simplifier; distinct by source text")
    t.bounds.append(f"{len(qs)} queries x {len(sc.DATA)} data sets")
    for s, sch in qs:
        if t.out_of_time():
            t.notes.append("time budget reached")
            break
        check_one(t, s, sch)
        # the same query under the fourth naming scheme: names of the simplifier's own making
        s2 = rename_to_generated(parse_expr(s), t.rng)
        if s2 is not None:
            check_one(t, s2[0], "generated-names", counter=s2[1])


def replay(payload, t):
    if "[" in payload["src"] and payload["src"].startswith("{") and "lambda" not in payload["src"]:
        dict_spec_crosscheck(t)
        return not t.violations
    check_one(t, payload["src"], "replay", counter=payload.get("counter"))
    return not t.violations
