"""Shared corpus and oracles for the simplifier properties C02 / C14 / C18."""
import ast
import copy

import gen
import sem
from common import unparse, parse_expr
from data import datasets

DATA = datasets()


def simplify(q):
    from func_adl.ast.function_simplifier import simplify_chained_calls
    return simplify_chained_calls().visit(copy.deepcopy(q))


def to_fn_form(q):
    from func_adl.ast.func_adl_ast_utils import change_extension_functions_to_calls
    return change_extension_functions_to_calls(copy.deepcopy(q))


# ---- packaging / projection corpus (C14, also C02) ----------------------------------------------
PACKS = [
    # (package expression over event var {e}, {component: projection path over packed var {t}})
    ("({e}.jets, {e}.met)", {"jets": "{t}[0]", "met": "{t}[1]"}),
    ("[{e}.jets, {e}.met]", {"jets": "{t}[0]", "met": "{t}[1]"}),
    ("{{'j': {e}.jets, 'm': {e}.met}}", {"jets": "{t}['j']", "met": "{t}.m"}),
    ("{{'j': {e}.jets, 'm': {e}.met}}", {"jets": "{t}.j", "met": "{t}['m']"}),
    ("(({e}.jets, {e}.tracks), {e}.met)", {"jets": "{t}[0][0]", "met": "{t}[1]", "tracks": "{t}[0][1]"}),
    ("{{'p': ({e}.jets, {e}.met), 'n': {e}.met + 1}}", {"jets": "{t}.p[0]", "met": "{t}['p'][1]"}),
    ("(Select({e}.jets, lambda q: (q, q.pt)), {e}.met)", {"jets": "Select({t}[0], lambda r: r[0])", "met": "{t}[1]"}),
]


def consumers(src, t, proj, names):
    """Later stages that only take the package apart with constant projections; results contain
    no tuple/list/dict."""
    J, M = proj["jets"].format(t=t), proj["met"].format(t=t)
    j = names[0]
    out = [
        f"Select({src}, lambda {t}: {M})",
        f"Select({src}, lambda {t}: Count({J}))",
        f"Select({src}, lambda {t}: Select({J}, lambda {j}: {j}.pt + {M}))",
        f"Select({src}, lambda {t}: Count(Where({J}, lambda {j}: {j}.pt > {M})))",
        f"SelectMany({src}, lambda {t}: {J})",
        f"Select(SelectMany({src}, lambda {t}: {J}), lambda {j}: {j}.pt)",
        f"Select(Where({src}, lambda {t}: {M} > 0), lambda {t}: Count({J}))",
        f"SelectMany(Where({src}, lambda {t}: {M} > 0), lambda {t}: Select({J}, lambda {j}: {j}.pt))",
        f"Select(Select({src}, lambda {t}: ({J}, {M} + 1)), lambda u: Select(u[0], lambda {j}: {j}.pt * u[1]))",
        f"Select(SelectMany({src}, lambda {t}: Select({J}, lambda {j}: ({j}, {M}))), lambda p: p[0].pt + p[1])",
        f"Where(Select({src}, lambda {t}: {M}), lambda x: x > 0)",
        f"Select(Select({src}, lambda {t}: {{'a': {M}, 'b': Count({J})}}), lambda d: d.a + d['b'])",
        f"First(Select({src}, lambda {t}: {M}))",
        f"Select({src}, lambda {t}: First(Select({J}, lambda {j}: ({j}.pt, {M})))[0])",
    ]
    # two levels of SelectMany with the package built in the innermost stage, then a projecting stage
    out += [
        f"Select(SelectMany(SelectMany({src}, lambda {t}: {J}), lambda {j}: Select({j}.tracks, lambda k: (k, {j}))), lambda p: p[0].pt + p[1].pt)",
        f"Select(SelectMany({src}, lambda {t}: SelectMany({J}, lambda {j}: Select({j}.tracks, lambda k: (k, {j})))), lambda p: p[0].pt + p[1].pt)",
        f"Select(SelectMany(SelectMany({src}, lambda {t}: Select({J}, lambda {j}: ({j}, {M}))), lambda p: Select(p[0].tracks, lambda k: {{'k': k, 'm': p[1]}})), lambda d: d.k.pt + d['m'])",
        f"Select(Where(SelectMany(SelectMany({src}, lambda {t}: {J}), lambda {j}: Select({j}.tracks, lambda k: [k, {j}])), lambda p: p[1].pt > 0), lambda p: p[0].pt)",
        f"SelectMany(Select(SelectMany({src}, lambda {t}: Select({J}, lambda {j}: ({j}, {M}))), lambda p: (p[0].tracks, p[1])), lambda q: Select(q[0], lambda k: k.pt + q[1]))",
        f"Select(Select(Where(Select({src}, lambda {t}: ({M}, {J})), lambda u: u[0] > 0), lambda u: u[1]), lambda js: Count(js))",
    ]
    if "tracks" in proj:
        T = proj["tracks"].format(t=t)
        out.append(f"Select({src}, lambda {t}: Count({T}) + Count({J}))")
        out.append(f"SelectMany(SelectMany({src}, lambda {t}: Select({J}, lambda {j}: ({j}.tracks, {M}))), "
                   f"lambda p: Select(p[0], lambda k: k.pt + p[1]))")
    return out


def packaging_chains(schemes=("distinct", "same", "reuse")):
    out = []
    for scheme in schemes:
        for pk, proj in PACKS:
            if scheme == "distinct":
                e, t, names = "e", "t", ["j"]
            elif scheme == "same":
                e, t, names = "x", "x", ["x"]
            else:
                e, t, names = "e", "e", ["j"]
            src = f"Select(ds, lambda {e}: {pk.format(e=e)})"
            for c in consumers(src, t, proj, names):
                out.append((c, scheme))
    return out


def general_queries(t):
    """Closed queries over the grammar of C02 in both forms, three binder-naming schemes."""
    rng = t.rng
    quick = t.tier == "quick"
    out = []
    for scheme in ("distinct", "same", "reuse"):
        for method in (False, True):
            for s, k in gen.chains(3, 1, scheme, method=method, rng=rng,
                                   per_stage=4 if quick else 8):
                out.append((s, scheme))
    # explicitly called lambdas (positional / keyword / default arguments), First, projections
    extra = [
        "Select(ds, lambda e: (lambda a: a + 1)(e.met))",
        "Select(ds, lambda e: (lambda a, b: a - b)(e.met, 1))",
        "Select(ds, lambda e: (lambda a, b: a * 10 - b)(e.met + 1, e.met))",
        "Select(ds, lambda y: (lambda y, z: y * 100 + z)(y.met + 1, y.met))",
        "Select(ds, lambda e: (lambda a, b: a - b)(b=e.met, a=1))",
        "Select(ds, lambda e: (lambda a, b=5: a - b)(e.met))",
        "Select(ds, lambda e: (lambda a, b: a - b)(e.met, b=2))",
        "Select(ds, lambda e: (lambda x: Select(e.jets, lambda x: x.pt + 1))(e.met))",
        "Select(ds, lambda e: (lambda x: Select(e.jets, lambda j: j.pt + x))(e.met))",
        "Select(ds, lambda e: (lambda m: Select(e.jets, lambda e: e.pt + m))(e.met))",
        "Select(ds, lambda e: (lambda f: f(e.met))(lambda v: v + 1))",
        "Select(Select(ds, lambda e: e.met * 2), lambda j: Count(Where(ds, lambda e: e.met < j)))",
        "Select(Select(ds, lambda e: e.jets), lambda js: Select(js, lambda e: e.pt))",
        "Where(Select(ds, lambda e: e.met), lambda m: Count(Where(ds, lambda e: e.met > m)) > 0)",
        "SelectMany(Select(ds, lambda e: e.jets), lambda js: Select(js, lambda e: e.pt))",
        "Select(ds, lambda e: First(e.jets).pt)",
        "Select(ds, lambda e: First(e.jets).ptk(3))",
        "Select(ds, lambda e: First(e.jets).shift(1, b=4))",
        "Select(ds, lambda e: First(Select(e.jets, lambda j: (j.pt, j.eta)))[1])",
        "Select(ds, lambda e: First(Select(e.jets, lambda j: {'p': j.pt, 'e': j.eta})).p)",
        "Select(Select(ds, lambda e: First(Select(e.jets, lambda j: {'p': j.pt}))), lambda f: f.p)",
        "Select(ds, lambda e: (e.met, e.jets)[0])",
        "Select(ds, lambda e: [e.met, 1][1])",
        "Select(ds, lambda e: {'a': e.met, 'b': 2}['a'] + {'a': e.met, 'b': 2}.b)",
        "Select(ds, lambda e: {1: e.met, 2: 3}[1])",
        # a key written twice: Python keeps the last value (repaired by 15bde23)
        "Select(ds, lambda e: {'a': e.met, 'a': 2}['a'])",
        "Select(ds, lambda e: {'a': 1, 'b': e.met, 'a': e.met + 1}.a)",
        "Select(Select(ds, lambda e: {'a': e.met, 'b': 0, 'a': e.jets}), lambda d: Count(d.a) + d['b'])",
        "Select(ds, lambda e: {1: e.met, True: 3, 1: e.met + 2}[1])",
        "Count(Where(Where(ds, lambda e: e.met > 0), lambda e: e.met < 5))",
        "Where(Where(ds, lambda a: a.met > 0), lambda b: Count(Where(b.jets, lambda a: a.pt > 1)) > 0)",
        "Where(ds, lambda e: True)",
        # the second filter only evaluates on what the first lets through: the fused filter has
        # to test in the written order
        "Select(Where(Where(ds, lambda e: Count(e.jets) > 0), lambda e: e.jets[0].pt > 1), lambda e: e.jets[0].pt)",
        "Where(Where(ds, lambda e: Count(e.jets) > 0), lambda f: f.jets[0].pt > 1)",
        "Count(Where(Where(ds, lambda e: e.met != 0), lambda e: 10 / e.met > 1))",
        "Where(Where(ds, lambda e: e.met != 0), lambda e: Count(Where(e.jets, lambda j: j.pt / e.met > 1)) >= 0)",
        "Select(Where(Where(ds, lambda e: Count(e.jets) > 0), lambda e: First(e.jets).pt > 1), lambda e: First(e.jets).pt)",
        "Where(Select(Where(ds, lambda e: Count(e.jets) > 0), lambda e: e.jets[0]), lambda j: j.pt > 0)",
        "Select(ds, lambda e: Count(Where(Where(e.jets, lambda j: Count(j.tracks) > 0), lambda j: j.tracks[0].pt > 0)))",
        "ds.Where(lambda e: e.jets.Count() > 0).Where(lambda e: e.jets[0].pt > 1).Select(lambda e: e.jets[0].eta)",
        "Select(ds, lambda e: e)",
        "Select(Where(ds, lambda e: e.met > 0), lambda e: e)",
        "SelectMany(SelectMany(ds, lambda e: e.jets), lambda j: j.tracks)",
        "SelectMany(SelectMany(ds, lambda e: e.jets), lambda j: Select(Select(j.tracks, lambda t: (t, 1)), lambda p: p[0].pt))",
        "Select(SelectMany(SelectMany(ds, lambda e: e.jets), lambda j: Select(j.tracks, lambda t: (t, j))), lambda p: p[0].pt + p[1].pt)",
        "Select(SelectMany(Where(Select(ds, lambda e: (e.jets, e.met)), lambda t: t[1] > 0), lambda u: u[0]), lambda j: j.pt)",
        # an argument substituted at several places (shared sub-tree), renamed binders
        "Count(Where(Select(ds, lambda a: First(Where(SelectMany(ds, lambda b: b.jets), lambda c: 4 != c.eta))), "
        "lambda d: d.pt > Count(Where(Select(ds, lambda e: d), lambda f: f.pt >= d.eta))))",
        "Select(Select(ds, lambda a: First(Where(a.jets, lambda c: c.eta > 0))), lambda d: (d.pt, Count(Where(ds, lambda e: e.met > d.pt)), d.eta))",
        # the argument of a called lambda mentions a variable named like the parameter
        "Select(ds, lambda e: (lambda e: Count(Where(Select(ds, lambda c: e), lambda e: e.eta >= e.pt)))(First(e.jets)))",
        "Select(ds, lambda e: (lambda e: e.pt + 1)(First(e.jets)))",
        "Select(ds, lambda e: (lambda e, b: Count(Where(e.tracks, lambda e: e.pt > b)))(First(e.jets), e.met))",
        "Select(ds, lambda x: (lambda x: Select(x.tracks, lambda t: t.pt + x.pt))(First(x.jets)))",
        # an inner lambda re-binds an outer name that occurs in an already substituted argument
        "Count(SelectMany(ds, lambda a: SelectMany(Select(SelectMany(a.tracks, lambda b: a.jets), lambda c: First(a.tracks)), "
        "lambda d: SelectMany(Where(a.jets, lambda f: a.met != f.eta), lambda a: SelectMany(Where(Select(ds, lambda g: "
        "{'a': g, 'b': g.met}), lambda h: d.z0 == 5), lambda i: ds)))))",
        "Select(Select(ds, lambda a: First(a.jets)), lambda d: Count(Where(ds, lambda a: Count(Where(a.jets, lambda k: k.pt > d.pt)) > 0)))",
        # and / or in value position on non-boolean operands
        "Select(ds, lambda e: e.met and True)",
        "Select(ds, lambda e: (e.met or 7) + 1)",
        "Select(ds, lambda e: Count(e.jets) and e.met)",
        "Select(Select(ds, lambda e: e.met and True), lambda v: v + 1)",
        "Where(Select(ds, lambda e: Count(e.jets) and True), lambda f: f == True)",
        # a chain that starts with SelectMany under an outer lambda; f re-uses the outer name,
        # g (moved under f's binder by the fusion) refers to the OUTER variable
        "Select(ds, lambda e: Select(SelectMany(e.jets, lambda e: e.tracks), lambda t: t.pt + e.met))",
        "Select(ds, lambda e: Count(Where(SelectMany(e.jets, lambda e: e.tracks), lambda t: t.pt > e.met)))",
        "Select(ds, lambda e: SelectMany(SelectMany(e.jets, lambda e: e.tracks), lambda t: Select(e.jets, lambda j: j.pt + t.pt)))",
        "Select(ds, lambda x: Select(Where(SelectMany(x.jets, lambda x: x.tracks), lambda x: x.pt > 0), lambda t: t.pt * x.met))",
        # keyword-called lambdas (left as calls) whose parameter names also occur in a substituted value
        "Select(Select(ds, lambda e: (lambda a, b: a - b)(e.met, b=1)), lambda v: (lambda a, b: a * b)(v, b=v + 1))",
        "Select(Select(Select(ds, lambda e: (lambda a, b: a - b)(e.met, b=Count(e.jets))), lambda v: v + 2), lambda w: (lambda a, b: a * 10 + b)(w + w, b=3 if 0 < 1 else w))",
        "Where(Select(ds, lambda e: (lambda a, b=2: a - b)(e.met)), lambda v: (lambda a, b=5: a > b)(v))",
    ]
    # inside one `lambda e`: FIRST something that pushes and pops a frame whose definition
    # mentions e (a called lambda, a Select-of-Select / Where-of-Select fusion), THEN a nested
    # lambda that re-uses the name e as the f of a fusion whose following lambda mentions the
    # OUTER e (seed C02_f: the set of names in flight forgot e when the inner frame was popped)
    extra += [
        "Select(ds, lambda e: (Select(Select(e.jets, lambda j: j.pt + e.met), lambda n: n * 2), "
        "Select(SelectMany(e.jets, lambda e: e.tracks), lambda t: t.pt + e.met)))",
        "Select(ds, lambda e: ((lambda a: a + 1)(e.met), "
        "Select(SelectMany(e.jets, lambda e: e.tracks), lambda t: t.pt + e.met)))",
        "Select(ds, lambda e: (Count(Where(Select(e.jets, lambda j: j.pt + e.met), lambda n: n > 0)), "
        "Where(SelectMany(e.jets, lambda e: e.tracks), lambda t: t.pt > e.met)))",
        "Select(ds, lambda e: (Select(Select(e.jets, lambda j: j.pt - e.met), lambda n: n), "
        "SelectMany(SelectMany(e.jets, lambda e: [e]), lambda q: Select(q.tracks, lambda t: t.pt * e.met))))",
        "Select(ds, lambda e: (Select(SelectMany(e.jets, lambda e: e.tracks), lambda t: t.pt + e.met), "
        "(lambda a: a)(e.met), Select(SelectMany(e.jets, lambda e: e.tracks), lambda t: t.pt - e.met)))",
    ]
    # THREE nested lambdas re-using one parameter name, the middle one's parameter used after the
    # innermost lambda, under a lambda that goes through make_args_unique (fused, or called)
    # (seed C02_g: the renaming helper un-hid the middle binder too early)
    extra += [
        "Select(Select(ds, lambda e: e), lambda j: Select(j.jets, lambda j: "
        "(Count(Select(j.tracks, lambda j: j.pt)), j.pt)))",
        "Select(ds, lambda e: (lambda j: Select(j.jets, lambda j: "
        "(Count(Where(j.tracks, lambda j: j.pt > 0)), j.pt, j.eta)))(e))",
        "Select(Select(ds, lambda e: e), lambda j: Select(j.jets, lambda j: "
        "Select(Select(j.tracks, lambda j: j.pt), lambda t: t + j.pt)))",
        "Where(Select(ds, lambda e: e), lambda j: Count(Where(j.jets, lambda j: "
        "Count(Where(j.tracks, lambda j: j.pt > 0)) + j.pt > 0)) + j.met > 0)",
        "SelectMany(Select(ds, lambda e: e), lambda j: Select(j.jets, lambda j: "
        "(Count(Select(j.tracks, lambda j: j.pt)), j.pt)))",
    ]
    out += [(s, "hand") for s in extra]
    out += packaging_chains()
    # random deep queries: nested operators, closures, called lambdas, packaging + projection,
    # First push-through, binder re-use (seeded)
    out += [(q, "random") for q in gen.random_queries(rng, 150 if quick else 8000,
                                                      3 if quick else 5)]
    seen = set()
    res = []
    for s, sch in out:
        if s not in seen:
            seen.add(s)
            res.append((s, sch))
    return res


def sem_all(q):
    return [sem.run(q, {"ds": d}) for d in DATA]


def nodes_of(n, kinds):
    return [x for x in ast.walk(n) if isinstance(x, kinds)]
