"""C04 — bounded contract check: captured variables are frozen by value at the call, respecting
scope.  Contract on Select/Where/SelectMany for lambdas given as Python callables: sem(emitted
lambda) == the callable applied natively with the environment AS IT WAS AT THE CALL, also after the
captured names were rebound / deleted / mutated; names bound by parameters, nested lambdas and
comprehensions are never replaced; a non-transportable captured value raises ValueError."""
import ast
from types import SimpleNamespace

import sem
from common import exact_eq
from props import srcgen

HEADER = '''import math
from types import SimpleNamespace
G_INT = 5
G_NEG = -3
G_STR = "s'q"
G_FLOAT = 1.5
G_BOOL = True
G_NONE = None
G_BYTES = b"xy"
G_LIST = [1, 2]
G_DICT = {"a": 1}
G_OBJ = object()
G_TUP = (1, 2)
G_ONE_F = 1.0
G_TRUE = True
G_ONE = 1
G_FALSE = False
G_ZERO_F = 0.0
G_NZERO = -0.0
G_ZERO = 0
j = 7
q = 11
e2 = 100
class K:
    C = 3
    S = "ks"
    class Inner:
        D = 4
class JL(list):
    "a python list that also answers the stream operators natively (oracle side)"
    def Select(self, f):
        return JL(f(x) for x in self)
    def Where(self, f):
        return JL(x for x in self if f(x))
    def SelectMany(self, f):
        return JL(y for x in self for y in f(x))
    def Count(self):
        return len(self)
    def First(self):
        return self[0]
# helpers with free variables of their own (module globals q, j, G_INT): at a use site whose
# binders have the SAME names the helper still sees the module's values (seed C04_g: the use
# site's bound names stayed in force while the helper's body was resolved)
def _hq(v):
    return v + q
def _hj(v):
    return v * j + G_INT
def _jet(pt, eta):
    return SimpleNamespace(pt=pt, eta=eta, tracks=JL([SimpleNamespace(pt=pt + 1), SimpleNamespace(pt=-pt)]))
DATA = [SimpleNamespace(x=2, y=-1, name="s'q", jets=JL([_jet(3, 1), _jet(0, -2)])),
        SimpleNamespace(x=0, y=4, name="n", jets=JL([])),
        SimpleNamespace(x=-7, y=7, name="", jets=JL([_jet(5, 5)]))]
NATIVE = {}
def _native(i, fn):
    out = []
    for d in DATA:
        try:
            out.append(("ok", fn(d)))
        except Exception as ex:
            out.append(("err", type(ex).__name__))
    NATIVE[i] = out
'''

# (lambda source, kind)   kind: 'ok' (must be emitted and evaluate like python), 'refuse' (ValueError)
CASES = [
    ("lambda e: e.x + G_INT", "ok"), ("lambda e: e.x * G_NEG - G_INT", "ok"),
    ("lambda e: e.name == G_STR", "ok"), ("lambda e: e.x + G_FLOAT", "ok"),
    ("lambda e: G_BOOL and e.x > 0", "ok"), ("lambda e: (e.x, G_NONE)", "ok"),
    ("lambda e: G_NONE is None", "ok"), ("lambda e: (e.x, G_BYTES)", "ok"),
    ("lambda e: e.x + K.C", "ok"), ("lambda e: e.x + K.Inner.D", "ok"), ("lambda e: e.name + K.S", "ok"),
    ("lambda e: e.x + math.pi", "ok"), ("lambda e: e.x > math.e", "ok"),
    # shadowing: names that are ALSO module globals
    ("lambda j: j.x + G_INT", "ok"), ("lambda q: q.x + j", "ok"),
    ("lambda e: [k.pt + j for k in e.jets]", "ok"),
    ("lambda e: e.jets.Select(lambda j: j.pt + G_INT)", "ok"),
    ("lambda e: e.jets.Select(lambda j: j.pt + q)", "ok"),
    ("lambda e: e.jets.Select(lambda q: q.pt + e.x)", "ok"),
    ("lambda j: j.jets.Select(lambda q: q.pt + j.x)", "ok"),
    ("lambda j: j.jets.Select(lambda q: q.tracks.Select(lambda e2: e2.pt + q.pt + j.x + G_INT))", "ok"),
    ("lambda e: [j.pt for j in e.jets]", "ok"),
    ("lambda e: [j.pt + G_INT for j in e.jets if j.eta > G_NEG]", "ok"),
    ("lambda e: [[q.pt for q in j.tracks] for j in e.jets]", "ok"),
    ("lambda e: sum_(j.pt for j in e.jets)", "skip"),
    ("lambda e: e.jets.Where(lambda j: j.pt > G_INT - 4).Count()", "ok"),
    ("lambda e: (lambda a: a + G_INT)(e.x)", "ok"),
    ("lambda e: e.x + undefined_name", "unbound"),
    # values that compare equal but are different values (bool / int / float, signed zero),
    # captured one after the other in the same process: each keeps its own type and sign
    ("lambda e: (e.x, G_ONE_F)", "ok"), ("lambda e: (e.x, G_TRUE)", "ok"), ("lambda e: (e.x, G_ONE)", "ok"),
    ("lambda e: (e.x, G_FALSE)", "ok"), ("lambda e: (e.x, G_ZERO_F)", "ok"),
    ("lambda e: (e.x, G_NZERO)", "ok"), ("lambda e: (e.x, G_ZERO)", "ok"),
    ("lambda e: (G_ZERO_F, G_NZERO, G_FALSE, G_ZERO, G_TRUE, G_ONE_F, G_ONE, e.x)", "ok"),
    ("lambda e: e.jets.Select(lambda v1: (v1.pt * G_ONE, G_TRUE, G_ONE_F))", "ok"),
    # every kind of parameter of a nested lambda is a binder, also when a global has its name
    # (repaired defect: only plain positional parameters were treated as bound)
    ("lambda e: e.jets.Select(lambda *q: q[0].pt + G_INT)", "ok"),
    ("lambda e: e.jets.Select(lambda v1, *j: v1.pt + len(j) + G_INT)", "ok"),
    ("lambda e: e.jets.Select(lambda v1, *, j=2: v1.pt + j)", "ok"),
    ("lambda e: e.jets.Select(lambda v1, **q: v1.pt + G_INT + (0 if q else 1))", "ok"),
    ("lambda e: e.jets.Select(lambda q, /: q.pt + G_INT)", "ok"),
    ("lambda e: e.jets.Select(lambda v1, /, j=3: v1.pt + j + G_INT)", "ok"),
    ("lambda q: _hq(q.x)", "ok"), ("lambda e: e.jets.Select(lambda j: _hj(j.pt))", "ok"),
    ("lambda e: [_hq(q.pt) for q in e.jets]", "ok"), ("lambda j: (_hj(j.x), _hq(j.y))", "ok"),
    ("lambda G_INT: _hj(G_INT.x)", "ok"),
    # non transportable
    ("lambda e: e.x in G_LIST", "refuse"), ("lambda e: (e.x, G_OBJ)", "refuse"),
    ("lambda e: G_DICT", "refuse"), ("lambda e: (e.x, G_TUP)", "refuse"),
]

CAPS = ["G_INT", "G_NEG", "G_FLOAT", "K.C", "K.Inner.D", "math.pi", "j", "q", "G_BOOL"]
CTX = ["lambda e: e.x + {c}", "lambda e: e.jets.Select(lambda v1: v1.pt + {c})",
       "lambda e: [v1.pt + {c} for v1 in e.jets]",
       "lambda e: e.jets.Select(lambda v1: v1.tracks.Select(lambda v2: v2.pt + {c} + v1.pt))",
       "lambda e: {c} if e.x > 0 else -{c}", "lambda e: ({c}, e.x)[0] + e.y",
       "lambda e: {{'a': {c}, 'b': e.x}}.a", "lambda e: e.jets.Where(lambda v1: v1.pt > {c}).Count()",
       "lambda e: [v1.pt for v1 in e.jets if v1.eta > {c}]",
       "lambda e: (lambda a: a + {c})(e.x)",
       # binders that SHADOW a module global used elsewhere in the same lambda
       "lambda e: e.jets.Select(lambda j: j.pt + {c})", "lambda e: [q.pt + {c} for q in e.jets]",
       "lambda j: j.x + {c}", "lambda e: e.jets.Select(lambda j: j.tracks.Select(lambda q: q.pt + j.pt + {c}))",
       # an OUTER parameter that shadows a global, used as a bare name inside nested binders
       "lambda j: j.jets.Select(lambda v1: (v1.pt, j)[1].x + {c})",
       "lambda q: [(v1.pt, q)[1].y + {c} for v1 in q.jets]",
       "lambda j: j.jets.Select(lambda v1: v1.tracks.Select(lambda v2: (v2.pt, j, v1)[1].x + {c}))"]
for _ctx in CTX:
    for _c in CAPS:
        # a context that binds j / q must not also capture the global of that name
        if ("lambda j" in _ctx or " j in" in _ctx) and _c == "j":
            continue
        if ("lambda q" in _ctx or " q in" in _ctx) and _c == "q":
            continue
        CASES.append((_ctx.format(c=_c), "ok"))

FACTORY_DEF = '''
def _factory(i, v, s):
    w = v * 2
    def inner():
        t = s + "!"
        try:
            R.append((i, 'ok', ds.Select(lambda e: (e.x + v + w, e.name + t))))
        except Exception as _ex:
            R.append((i, 'err', _ex))
        _native(i, (lambda e: (e.x + v + w, e.name + t)))
    inner()
    v = 1000
    w = -1
def _factory_shadow(i):
    # variables of the enclosing function that have the names of module globals: the lambda sees
    # the enclosing function's (repaired defect: the module's value was emitted)
    G_INT = 1000
    j = 2000
    G_STR = "local"
    try:
        R.append((i, 'ok', ds.Select(lambda e: (e.x + G_INT + j, e.name + G_STR, e.x + G_NEG))))
    except Exception as _ex:
        R.append((i, 'err', _ex))
    _native(i, (lambda e: (e.x + G_INT + j, e.name + G_STR, e.x + G_NEG)))
    G_INT = -1
    j = -2
def _loop_scan(i0, cuts):
    # the SAME lambda (one code object) passed once per loop iteration with another captured value
    for n, cut in enumerate(cuts):
        try:
            R.append((i0 + n, 'ok', ds.Where(lambda e: e.x > cut)))
        except Exception as _ex:
            R.append((i0 + n, 'err', _ex))
        _native(i0 + n, (lambda e, cut=cut: e.x > cut))
'''
FACTORY = "_factory(%(i)d, %(v)r, %(s)r)\n"

MUTATE = '''
G_INT = 99
G_NEG = 98
G_STR = "changed"
G_FLOAT = -0.5
G_BOOL = False
G_NONE = 0
G_BYTES = b""
G_LIST.append(3)
j = -1
q = -2
K.C = 300
K.Inner.D = 400
K.S = "changed"
del e2
'''


# ---- random lambdas with captures under random binder structure (seeded) -------------------------
class RandCaptures:
    """Number-valued lambdas over one DATA object that mix captured names (module globals,
    nested class attributes, math attributes) with binders — the parameter, nested lambda
    parameters, comprehension targets, called-lambda parameters — whose names are drawn from a
    pool that CONTAINS the global names j, q, e2 (shadowing)."""

    GLOBALS = ["G_INT", "G_NEG", "G_FLOAT", "K.C", "K.Inner.D", "math.pi", "j", "q"]
    BINDERS = ["e", "j", "q", "e2", "v1", "v2"]

    def __init__(self, rng):
        self.rng = rng

    def num(self, objs, seqs, nums, d):
        """objs: bound names of record kind (x, y); seqs: [(name.field, elem fields)]"""
        r = self.rng
        bound = set(objs) | set(nums) | {n for n, _ in seqs}
        caps = [g for g in self.GLOBALS if g.split(".")[0] not in bound]
        opts = [lambda: r.choice(caps)] * 3 + [lambda: str(r.randint(0, 3))]
        for o in objs:
            opts += [lambda o=o: f"{o}.{r.choice(['x', 'y'])}"] * 2
        for n in nums:
            opts += [lambda n=n: n] * 2
        for n, f in seqs:
            opts += [lambda n=n, f=f: f"{n}.{r.choice(f)}"] * 3
        if d > 0:
            opts += [lambda: f"({self.num(objs, seqs, nums, d - 1)} {r.choice(['+', '-', '*'])} "
                             f"{self.num(objs, seqs, nums, d - 1)})",
                     lambda: f"({self.num(objs, seqs, nums, d - 1)} if {self.num(objs, seqs, nums, d - 1)} > "
                             f"{self.num(objs, seqs, nums, d - 1)} else {self.num(objs, seqs, nums, d - 1)})",
                     lambda: f"({self.num(objs, seqs, nums, d - 1)}, {self.num(objs, seqs, nums, d - 1)})[{r.randint(0, 1)}]",
                     lambda: self.called(objs, seqs, nums, d - 1),
                     lambda: self.count(objs, seqs, nums, d - 1)]
        return r.choice(opts)()

    def called(self, objs, seqs, nums, d):
        p = self.rng.choice(self.BINDERS)
        inner_objs = [o for o in objs if o != p]
        inner_seqs = [(n, f) for n, f in seqs if n != p]
        return (f"(lambda {p}: {self.num(inner_objs, inner_seqs, [n for n in nums if n != p] + [p], d)})"
                f"({self.num(objs, seqs, nums, d)})")

    def sources(self, objs, seqs):
        out = [(f"{o}.jets", ["pt", "eta"]) for o in objs]
        out += [(f"{n}.tracks", ["pt"]) for n, f in seqs if "eta" in f]
        return out

    def count(self, objs, seqs, nums, d):
        srcs = self.sources(objs, seqs)
        if not srcs:
            return None or "0"
        src, f = self.rng.choice(srcs)
        w = self.rng.choice(self.BINDERS)
        o2 = [o for o in objs if o != w]
        s2 = [(n, ff) for n, ff in seqs if n != w] + [(w, f)]
        n2 = [n for n in nums if n != w]
        return (f"{src}.Where(lambda {w}: {self.num(o2, s2, n2, d)} > {self.num(o2, s2, n2, d)})"
                f".Count()")

    def seq(self, objs, seqs, nums, d):
        srcs = self.sources(objs, seqs)
        src, f = self.rng.choice(srcs)
        w = self.rng.choice(self.BINDERS)
        o2 = [o for o in objs if o != w]
        s2 = [(n, ff) for n, ff in seqs if n != w] + [(w, f)]
        n2 = [n for n in nums if n != w]
        body = self.num(o2, s2, n2, d)
        if self.rng.random() < 0.4:
            cond = f" if {self.num(o2, s2, n2, 0)} > {self.num(o2, s2, n2, 0)}" if self.rng.random() < 0.5 else ""
            return f"[{body} for {w} in {src}{cond}]"
        return f"{src}.Select(lambda {w}: {body})"

    def lam(self):
        r = self.rng
        v = r.choice(["e", "j", "q", "e2", "ev"])
        d = r.randint(1, 3)
        if r.random() < 0.5:
            return f"lambda {v}: {self.num([v], [], [], d)}"
        return f"lambda {v}: {self.seq([v], [], [], d)}"


def random_capture_cases(rng, n):
    g = RandCaptures(rng)
    out, seen = [], set()
    for _ in range(n * 4):
        try:
            l = g.lam()
        except (RecursionError, IndexError):
            continue
        if l in seen or len(l) > 320 or not any(c.split(".")[0] in l for c in g.GLOBALS):
            continue
        seen.add(l)
        out.append(l)
        if len(out) >= n:
            break
    return out


def run(t):
    t.rules.append("lambdas compiled from a generated source module whose free names resolve to "
                   "module globals of every listed value type, closure cells (two factories, two "
                   "levels), nested class attributes and module attributes, with parameters / nested "
                   "lambda parameters / comprehension targets that shadow module globals at depth "
                   "<= 3; after ALL streams are built every captured name is rebound, deleted or "
                   "mutated, then the emitted lambdas are evaluated; non-trivial = the lambda has a "
                   "captured name and a binder; distinct by lambda text")
    ops = ["Select", "SelectMany", "Where"]
    parts = [srcgen.PRELUDE, HEADER]
    rnd = random_capture_cases(t.rng, 60 if t.tier == "quick" else 2500)
    t.bounds.append(f"{len(rnd)} random capture lambdas (seeded)")
    CASES = list(globals()["CASES"]) + [(l, "ok") for l in rnd]
    for i, (lam, kind) in enumerate(CASES):
        if kind == "skip":
            continue
        op = "Select"
        parts.append(srcgen.case_block(i, f"ds.{op}({lam})"))
        if kind in ("ok",):
            parts.append(f"_native({i}, ({lam}))\n")
    base = len(CASES)
    fvals = [(3, "a"), (-2, "q'"), (0, "")]
    parts.append(FACTORY_DEF)
    for k, (v, s) in enumerate(fvals):
        parts.append(FACTORY % {"i": base + k, "v": v, "s": s})
    cuts = [-1, 1, 3]
    parts.append(f"_loop_scan({base + len(fvals)}, {cuts!r})\n")
    parts.append(f"_factory_shadow({base + len(fvals) + len(cuts)})\n")
    parts.append(MUTATE)
    mod = srcgen.run_module("".join(parts), "c04")
    data = mod.DATA
    for rec in mod.R:
        i = rec[0]
        if i < base:
            lam, kind = CASES[i]
        elif i < base + len(fvals):
            lam, kind = f"closure factory {fvals[i - base]}", "ok"
        elif i < base + len(fvals) + len(cuts):
            lam, kind = f"closure: same lambda in a loop, cut={cuts[i - base - len(fvals)]}", "ok"
        else:
            lam, kind = "closure: enclosing-function variables named like module globals", "ok"
        key = "C04:" + lam
        t.case(key, "lambda" in lam and any(g in lam for g in ("G_", "K.", "math", " j", " q", "closure")),
               sample=lam)
        rp = {"kind": "C04", "lam": lam}
        t.contract("operators: sem(emitted) == callable at call time, after later rebinding")
        if kind == "refuse":
            if rec[1] != "err" or not isinstance(rec[2], ValueError):
                t.violation("operators:raises ValueError for a non-transportable captured value",
                            "accepted or wrong exception", lam, "ValueError",
                            repr(rec[2])[:120] if rec[1] == "err" else ast.unparse(rec[2].query_ast), rp)
            continue
        if rec[1] == "err":
            t.violation("operators:no-exception for transportable captures",
                        f"raises {type(rec[2]).__name__}: {str(rec[2])[:80]}", lam, "a query",
                        repr(rec[2])[:160], rp)
            continue
        emitted = rec[2].query_ast.args[1]
        if kind == "unbound":
            names = {n.id for n in ast.walk(emitted) if isinstance(n, ast.Name)}
            if "undefined_name" not in names:
                t.violation("operators:unresolvable names are left alone", "name disappeared", lam,
                            None, ast.unparse(emitted), rp)
            continue
        native = mod.NATIVE[i]
        for d, nat in zip(data, native):
            if nat[0] != "ok":
                continue
            got = sem.run(ast.Call(emitted, [ast.Name("d0", ast.Load())], []), {"d0": d})
            want = ("ok", sem.force(nat[1]))
            if got != want or not exact_eq(got, want):
                t.violation("operators:ensures sem(emitted lambda) == callable(environment at the call)",
                            "the query computes something else than the lambda did when it was passed",
                            lam, want, f"{got} via {ast.unparse(emitted)}", rp)
                break
    t.bounds.append(f"{len(CASES)} lambdas + {len(fvals)} closure factories, 3 data objects, "
                    "one post-call history (rebind/delete/mutate everything)")


def replay(payload, t):
    run(t)
    return not [v for v in t.violations if v["replay"].get("lam") == payload.get("lam")]
