"""C19 — bounded contract check of aggregate_node_transformer on the real code.
Contract (same text as the sidecar):  same(visit(e), agg_lower(e)); plus the
semantic clause: sem(visit(e)) == sem(e) where sem gives len/Count/Sum the Python meaning and
Max/Min the "with 0 added" meaning."""
import ast
import copy
import itertools
import keyword

import sem
from common import dump, unparse, parse_expr
from data import INT_LISTS
import specrt
import agg as spec_agg       # /verif/spec/agg.py, executed natively

NAMES = ["len", "Count", "Sum", "Max", "Min"]


class Obj:
    """An ordinary object that has METHODS named like the shortcuts."""
    def __init__(self, l):
        self.l = l

    def Sum(self, x=None):
        return ("m-sum", tuple(self.l))

    def Count(self, *a):
        return ("m-count", len(a))

    def len(self):
        return ("m-len",)

    def Max(self, a=1, b=2):
        return ("m-max", a, b)

    def Min(self):
        return ("m-min",)


def exprs(depth):
    """Expression sources over variables a, b (int lists), ll (list of int lists), o (Obj)."""
    base = ["a", "b"]
    out = []
    seqs = list(base)
    if depth >= 1:
        seqs += ["Select(a, lambda x: x + 1)", "Where(b, lambda x: x > 0)", "ll[0]",
                 "[len(a), Count(b)]", "SelectMany(ll, lambda l: l)",
                 "Select(ll, lambda l: Sum(l))", "Select(ll, lambda l: Count(l))",
                 "(a if Count(b) > 0 else b)", "Select(ll, lambda l: Max(l) - Min(l))",
                 "[Sum(Select(ll, lambda l: len(l)))]", "a.Select(lambda x: x * 2)"]
    for k in NAMES:
        for s in seqs:
            out.append(f"{k}({s})")
    # other argument counts, methods of the same name, bare references, keyword positions
    for k in NAMES:
        out += [f"apply({k}, a)", f"pair({k}(a), {k})", f"o.{k}()", f"count_args({k}(a), {k}(b))",
                f"kw(x={k}(a))", f"{k}(a) + {k}(b)", f"({k}(a), o.{k}())",
                f"(lambda s: {k}(s))(b)", f"-{k}(a)", f"{k}(a) if {k}(b) > 1 else 0",
                f"{{'n': {k}(a)}}['n']", f"[{k}(a)][0]"]
        out += [f"two({k}, a, b)", f"guard({k}, lambda: {k}(a, b))", f"guard({k}, lambda: {k}())",
                f"guard({k}, lambda: {k}(a, b, a))"]
        # look-alike names: substrings, superstrings and case variants of the shortcut names
        for v in {k[:-1], k[1:], k + "s", "x" + k, k.lower(), k.upper(), k[0], k[:2]} - set(NAMES):
            if v.isidentifier() and not keyword.iskeyword(v):
                out.append(f"other({v!r}, a)".replace(f"other({v!r}, a)", f"{v}(a)"))
    # a lambda parameter NAMED like a shortcut, and genuine shortcut calls of that name before,
    # inside a sibling and after it (seed C19_f: a scope tracker that never forgot the name)
    for k in NAMES:
        other = "Sum" if k != "Sum" else "Count"
        out += [f"{other}(Select(a, lambda {k}: {k} + 1)) + {k}(b)",
                f"({k}(b), {other}(Select(a, lambda {k}: {k} * 2)), {k}(a))",
                f"Select(ll, lambda {k}: {other}({k})) + [{k}(a)]",
                f"[{other}(Select(ll, lambda {k}: {other}(Select({k}, lambda {k}: {k})))), {k}(b)]"]
    # keyword and starred arguments: another argument count, left unchanged (repaired defect: the
    # keyword was dropped / the starred argument taken for the sequence)
    for k in NAMES:
        out += [f"guard({k}, lambda: {k}(a, key=1))", f"guard({k}, lambda: {k}(a, **{{'x': Sum(b)}}))",
                f"guard({k}, lambda: {k}(*[a]))", f"guard({k}, lambda: {k}(*ll))",
                f"guard({k}, lambda: {k}(Select(a, lambda x: Count(b)), start=Sum(b)))"]
    out += ["o.Sum(Sum(a))", "o.Count(Count(a), len(b))", "o.Max(Max(a), b=Min(b))",
            "Sum(Select(ll, lambda l: Sum(Select(l, lambda x: Max([x, 1])))))",
            "len(ll)", "Count(Select(ll, lambda l: o.Sum(l)))"]
    return out


def calls_with_other_arity():
    out = []
    for k in NAMES:
        out += [f"var({k})", f"two({k}, a, b)"]
    return out


def env_for(a, b, ll):
    def apply(f, x):
        return f(x)

    def pair(x, f):
        return (x, f is not None)

    def two(f, x, y):
        return ("two", len(x), len(y))

    def count_args(*xs):
        return len(xs)

    def kw(x=None):
        return ("kw", x)

    def ident(*xs):
        return ("call", len(xs))
    def guard(f, thunk):
        # calls of a shortcut name with another argument count are ordinary (failing) calls:
        # the lowering must leave them alone, so both sides evaluate to the same error marker
        try:
            return ("ok", thunk())
        except TypeError:
            return ("TypeError",)

    class Other(dict):
        def __missing__(self, name):
            if name.isidentifier() and name not in NAMES:
                return lambda *xs: (name, tuple(map(repr, xs)))
            raise KeyError(name)
    e = Other({"a": a, "b": b, "ll": ll, "o": Obj(a), "apply": apply, "pair": pair, "two": two,
               "count_args": count_args, "kw": kw, "var": lambda f: 0, "guard": guard})
    return e


def has_shortcut_call(n):
    for x in ast.walk(n):
        if isinstance(x, ast.Call) and isinstance(x.func, ast.Name) and x.func.id in NAMES \
                and len(x.args) == 1 and not x.keywords:
            return True
    return False


def check_one(t, src, envs):
    from func_adl.ast.aggregate_shortcuts import aggregate_node_transformer
    e = parse_expr(src)
    expected = spec_agg.agg_lower(copy.deepcopy(e))
    try:
        got = aggregate_node_transformer().visit(copy.deepcopy(e))
        err = None
    except Exception as ex:       # the contract allows no exception
        got, err = None, ex
    nontrivial = has_shortcut_call(e) and any(
        isinstance(x, (ast.Attribute, ast.Name)) and getattr(x, "attr", getattr(x, "id", "")) in NAMES
        for x in ast.walk(e))
    t.case("C19:" + src, nontrivial, sample=src)
    t.contract("aggregate_node_transformer.visit: same(result, agg_lower(node))")
    replay = {"kind": "C19", "src": src}
    if err is not None:
        t.violation("aggregate_node_transformer.visit:no-exception", f"raises {type(err).__name__}",
                    src, "agg_lower(node)", repr(err), replay)
        return
    if not specrt.same(got, expected):
        t.violation("aggregate_node_transformer.visit:ensures same(result, agg_lower(node))",
                    "lowered tree differs from the spec", src, unparse(expected) if not
                    _has_marker(expected) else "<spec tree>", unparse(got), replay)
        return
    # semantic clause on integer sequences
    for (a, b, ll) in envs:
        env = env_for(a, b, ll)
        r0 = sem.run(e, env)
        if r0[0] != "ok":
            continue
        r1 = sem.run(got, env_for(a, b, ll))
        t.contract("sem(visit(e)) == sem(e)")
        if r1 != r0:
            t.violation("aggregate_node_transformer.visit:sem-equal",
                        "fold value differs from Python's len/sum/max0/min0", f"{src}  with a={a} b={b} ll={ll}",
                        r0, r1, dict(replay, a=a, b=b, ll=ll))
            return


def check_batch(t, srcs, rounds=3):
    """ONE transformer object used for a whole batch of queries, each dropped once looked at (the
    class is public and holds no documented state: its answer may depend on the node it is given
    and on nothing that came before; seed C19_h memoises by id(node))."""
    import gc
    from func_adl.ast.aggregate_shortcuts import aggregate_node_transformer
    shared = aggregate_node_transformer()
    t.contract("aggregate_node_transformer.visit: same answer from a re-used transformer object")
    done = []
    for r in range(rounds):
        for src in srcs:
            done.append(src)
            e = parse_expr(src)
            expected = spec_agg.agg_lower(copy.deepcopy(e))
            try:
                got = shared.visit(e)
            except Exception as ex:
                got = ex
            ok = not isinstance(got, Exception) and specrt.same(got, expected)
            del e
            if not ok:
                t.case("C19:batch:" + src, True, sample=src)
                t.violation("aggregate_node_transformer.visit:ensures same(result, agg_lower(node))",
                            f"a transformer object that already lowered {len(done) - 1} other "
                            "queries lowers this one differently", src,
                            "<spec tree>" if _has_marker(expected) else unparse(expected),
                            repr(got) if isinstance(got, Exception) else unparse(got),
                            {"kind": "C19", "batch": done[-400:], "rounds": 1})
                return
            del got
        gc.collect()
    t.case("C19:batch of %d" % len(srcs), True, sample="one transformer object, %d rounds" % rounds)


def _has_marker(n):
    return any(isinstance(x, specrt.FoldLambda) for x in _walk_all(n))


def _walk_all(n):
    yield n
    if isinstance(n, ast.AST):
        for f in n._fields:
            v = getattr(n, f, None)
            if isinstance(v, list):
                for x in v:
                    yield from _walk_all(x)
            elif v is not None:
                yield from _walk_all(v)


def envs_for(tier, rng):
    ls = INT_LISTS
    envs = []
    for a in ls[:7]:
        for b in ls[:5]:
            envs.append((a, b, [a, b, [1]]))
    if tier == "thorough":
        for a, b in itertools.product(ls, ls):
            envs.append((a, b, [b, a, [], [2, -3]]))
    return envs


def run(t):
    envs = envs_for(t.tier, t.rng)
    srcs = exprs(1 if t.tier == "quick" else 1)
    if t.tier == "thorough":
        # one more nesting level: every shortcut applied to every depth-1 expression that is a sequence
        extra = []
        for k in NAMES:
            for s in ["Select(ll, lambda l: %s(l))" % k2 for k2 in NAMES]:
                extra.append(f"{k}({s})")
            for s in exprs(1)[:40]:
                extra.append(f"{k}([{s}, 1])")
        srcs = srcs + extra
    t.rules.append("expressions with the five shortcut names in call / method / nested / bare / "
                   "other-arity positions; non-trivial = contains a one-argument shortcut call AND "
                   "a same-named look-alike; distinct by source text")
    t.bounds.append(f"{len(srcs)} expressions x {len(envs)} integer data sets (lists of length <= 5 over -3..5)")
    for s in srcs:
        check_one(t, s, envs)
    check_batch(t, srcs)
    t.bounds.append(f"one re-used transformer object over the {len(srcs)} expressions x 3 rounds")


def replay(payload, t):
    if "batch" in payload:
        check_batch(t, payload["batch"], payload.get("rounds", 1))
        return not t.violations
    envs = [(payload["a"], payload["b"], payload["ll"])] if "a" in payload else envs_for("quick", t.rng)
    check_one(t, payload["src"], envs)
    return not t.violations
