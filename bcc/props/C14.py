"""C14 — bounded contract check: intermediate tuples/lists/dicts are compiled away.
Contract (shape, NF): for chains whose later stages only take packages apart with constant
projections and whose final result holds no package, visit(q) contains no Tuple/List/Dict
construction, no projection out of one and no call of a lambda."""
import ast

from common import unparse, parse_expr
from props import simp_common as sc


def leftovers(r):
    out = []
    for x in ast.walk(r):
        if isinstance(x, (ast.Tuple, ast.List, ast.Dict)):
            out.append(type(x).__name__)
        elif isinstance(x, ast.Subscript):
            # an element of a collection FIELD of a record (e.jets[0]) is data access, not a
            # projection out of a package: no package key in the corpora is called like a field
            if isinstance(x.value, ast.Attribute) and x.value.attr in ("jets", "tracks", "eles"):
                continue
            out.append("Subscript")
        elif isinstance(x, ast.Call) and isinstance(x.func, ast.Lambda):
            out.append("called-lambda")
    return out


def check_one(t, src, scheme):
    q = parse_expr(src)
    replay = {"kind": "C14", "src": src}
    # domain: the chain is type correct (its projections really take packages apart) — decided by
    # evaluating it on the non-empty data sets
    import sem
    if not all(sem.run(q, {"ds": d})[0] == "ok" for d in sc.DATA[2:]):
        return
    try:
        r = sc.simplify(q)
    except Exception as ex:
        t.case("C14:" + src, False)
        t.violation("simplify_chained_calls.visit:no-exception", f"raises {type(ex).__name__}",
                    src, None, repr(ex), replay)
        return
    n_pack = len(sc.nodes_of(q, (ast.Tuple, ast.List, ast.Dict)))
    nested_sel = "Select(" in src[src.find("lambda"):] if "lambda" in src else False
    t.case("C14:" + src, n_pack >= 1 and nested_sel, sample=src)
    t.contract("NF(visit(q)): no package / projection / called lambda left")
    left = leftovers(r)
    if left:
        t.violation("simplify_chained_calls.visit:ensures NF(result)",
                    f"simplified query still contains {sorted(set(left))}", src, None, unparse(r),
                    replay)


def run(t):
    qs = sc.packaging_chains()
    # two packaging levels: repackage the projections and take them apart again
    more = []
    for s, sch in qs[::3]:
        if s.startswith("Select(") and sch == "distinct":
            more.append((f"Select(Select({s[7:s.find(', lambda')]}, lambda w: (w, 1)), "
                         f"lambda z: z[0])", sch))
    t.rules.append("linear chains Select/Where/SelectMany (<= 4 stages) whose first stage packages "
                   "(tuple/list/dict, nested to depth 2, incl. a packaged Select over a packaged "
                   "sequence) and whose later stages project with constant indices / keys / "
                   "attribute names, x binder schemes distinct/same/reuse; non-trivial = has a "
                   "package and a nested operator lambda; distinct by source text")
    # random deep queries whose packages (tuple / list / dict built in an earlier stage or inside
    # one lambda) are only taken apart with constant projections and never reach the result
    import gen
    rq = [q for q in gen.random_queries(t.rng, 300 if t.tier == "quick" else 12000,
                                        3 if t.tier == "quick" else 5)
          if any(m in q for m in ("'a':", ")[0]", ")[1]", "][0]", "][1]", "'k'"))]
    t.bounds.append(f"{len(qs)} chains + {len(rq)} random queries with packaging (seeded)")
    # First over a sequence that only BECOMES a Select of packages after fusion (a SelectMany whose
    # inner Select builds them), taken apart in the same lambda or in a later stage (seed C14_f)
    G = "Where(ds, lambda e: Count(SelectMany(e.jets, lambda j: j.tracks)) > 0)"
    PK = [("(t.pt, j.pt)", "[0]", "[1]"), ("[t.pt, j.pt]", "[1]", "[0]"),
          ("{'t': t.pt, 'j': j.pt}", "['t']", ".j"), ("(t, j)", "[0].pt", "[1].pt")]
    first_sm = []
    for pk, p1, p2 in PK:
        sm = f"SelectMany(e.jets, lambda j: Select(j.tracks, lambda t: {pk}))"
        first_sm += [f"Select({G}, lambda e: First({sm}){p1})",
                     f"Select(Select({G}, lambda e: First({sm})), lambda p: p{p2})",
                     f"Select(Select({G}, lambda e: First({sm})), lambda p: p{p1} + p{p2})",
                     f"Select({G}, lambda e: First(Where({sm}, lambda w: w{p1} > -100)){p2})"]
    # a pass-everything cut (a selection that is switched off) in the middle of a chain: what is
    # upstream of it still has to be compiled away (seed C14_h)
    noop = []
    for pk1, pr1 in (("(e.met, e.ht)", ("[0]", "[1]")), ("{'m': e.met, 'h': e.ht}", (".m", "['h']")),
                     ("[e.met, e.ht]", ("[1]", "[0]"))):
        for pk2, pr2 in (("(a{0}, a{1})", ("[0]", "[1]")), ("{{'x': a{0}, 'y': a{1}}}", ("['x']", ".y"))):
            two = f"Select(Select(ds, lambda e: {pk1}), lambda a: {pk2.format(*pr1)})"
            noop += [f"Select(Where({two}, lambda w: True), lambda b: b{pr2[0]} - b{pr2[1]})",
                     f"Select(Where(Where({two}, lambda w: True), lambda w: w{pr2[0]} > 0), lambda b: b{pr2[1]})",
                     f"Select(Where(Select(Where({two}, lambda w: True), lambda c: (c{pr2[1]}, 1)), "
                     f"lambda w: True), lambda b: b[0])"]
    noop += ["Select(ds, lambda e: Select(Where(Select(Select(e.jets, lambda j: (j.pt, j.eta)), "
             "lambda p: {'a': p[0], 'b': p[1]}), lambda d: True), lambda d: d.a + d['b']))",
             "Select(ds, lambda e: Count(Select(Where(Where(Select(Select(e.jets, lambda j: (j.pt, j)), "
             "lambda p: (p[1], p[0])), lambda d: True), lambda q: q[1] > q[0].eta), lambda r: r[0].pt)))"]
    n0 = len(t.cases) if hasattr(t, "cases") else None
    for s in noop:
        check_one(t, s, "no-op-where")
    for s in first_sm:
        check_one(t, s, "first-of-selectmany")
    for s, sch in qs:
        check_one(t, s, sch)
    for s in rq:
        if t.out_of_time():
            t.notes.append("time budget reached")
            break
        check_one(t, s, "random")


def replay(payload, t):
    check_one(t, payload["src"], "replay")
    return not t.violations
