"""C08 — bounded contract check: type following yields the declared types.
Contract on remap_by_types / Select / SelectMany / Where: the recorded type of an expression and
the item type of a derived stream equal what the annotations imply; the generator knows each
expression's type by construction (class models generated per run)."""
import ast
import typing
from typing import Any, Iterable, TypeVar, Generic, Optional, List

T = TypeVar("T")
U = TypeVar("U")


def make_models(variant=0):
    num = float if variant == 0 else int
    other = int if variant == 0 else float
    from func_adl import ObjectStream, register_func_adl_os_collection
    from func_adl.type_based_replacement import ObjectStreamInternalMethods

    class Track:
        def pt(self) -> num: ...
        def charge(self) -> other: ...
        def good(self) -> bool: ...
        def noann(self): ...

    class Particle:
        def mass(self) -> float: ...
        def idx(self) -> int: ...

    class Jet(Particle):
        def pt(self) -> num: ...
        def ntrk(self) -> other: ...
        def isGood(self) -> bool: ...
        def Tracks(self) -> Iterable[Track]: ...
        def lead(self) -> Track: ...

    class Coll(Iterable[T]):          # custom generic Iterable subclass
        def corner(self) -> T: ...
        def size(self) -> int: ...

    class Grid(Iterable[Iterable[T]]):    # element type is NOT its own parameter
        def diag(self) -> Iterable[T]: ...

    class Box(Generic[T, U]):
        def first(self) -> T: ...
        def second(self) -> U: ...
        def both(self) -> Iterable[T]: ...

    class IntBox(Box[int, float]):
        pass

    # type variables that are NOT in the base's order, and Generic[...] listed before the real
    # base (repaired defects: arguments were zipped with the base's variables; only the first
    # listed base was looked at)
    class Pairs(Iterable[U], Generic[T, U]):     # Pairs[str, float] iterates floats
        def key(self) -> T: ...

    class Base1(Generic[U]):
        def val(self) -> U: ...

    class Sub12(Base1[U], Generic[T, U]):         # Sub12[int, float].val() -> float
        def other(self) -> T: ...

    class Sub21(Generic[T], Base1[T]):            # Generic first
        pass

    class JetColl(Coll[Jet]):        # non-generic subclass of a generic Iterable subclass
        def best(self) -> Jet: ...

    @register_func_adl_os_collection
    class MyStream(ObjectStreamInternalMethods[T]):
        def Last(self) -> T:
            return self.item_type  # type: ignore

        def Size(self) -> int: ...

    # user dataclasses as record types: with eager annotations, and defined in a module that has
    # `from __future__ import annotations` (every annotation a STRING that has to be resolved:
    # seed C08_g read dataclasses.Field.type, the raw annotation)
    import dataclasses
    import sys
    import types

    @dataclasses.dataclass
    class Info:
        run: int
        w: float
        ok: bool

    modname = f"c08_future_models_{variant}"
    fut = types.ModuleType(modname)
    sys.modules[modname] = fut
    exec("from __future__ import annotations\nimport dataclasses\n"
         "@dataclasses.dataclass\nclass InfoS:\n    run: int\n    w: float\n    ok: bool\n"
         "    lead: 'Jet'\n", fut.__dict__)
    fut.Jet = Jet
    InfoS = fut.InfoS

    class Event:
        def info(self) -> Info: ...
        def infos(self) -> InfoS: ...
        def Jets(self, name: str = "j") -> Iterable[Jet]: ...
        def JColl(self) -> Coll[Jet]: ...
        def JC2(self) -> JetColl: ...
        def TGrid(self) -> Grid[Track]: ...
        def met(self) -> num: ...
        def n(self) -> other: ...
        def flag(self) -> bool: ...
        def lead(self) -> Jet: ...
        def box(self) -> Box[Jet, int]: ...
        def ibox(self) -> IntBox: ...
        def pairs(self) -> Pairs[str, float]: ...
        def sub12(self) -> Sub12[int, float]: ...
        def sub21(self) -> Sub21[float]: ...
        def untyped(self): ...
    return dict(Event=Event, Jet=Jet, Track=Track, Coll=Coll, Grid=Grid, Box=Box, IntBox=IntBox,
                JetColl=JetColl, Particle=Particle, num=num, other=other)


def cases(M):
    E, J, Tk = M["Event"], M["Jet"], M["Track"]
    it = lambda x: Iterable[x]
    base = _cases(M, E, J, Tk, it)
    if M["num"] is float:
        return base
    # second class model: the SAME class and method names declare other return types
    swap = {float: int, int: float}
    dep = ("met()", "n()", ".pt()", "ntrk()", "charge()")
    out = []
    for src, ty in base:
        if any(src.endswith(d) or (d + ")") in src and src.endswith(")") and False for d in dep) \
                and src.count("(") <= 4 and not any(o in src for o in ("+", "-", "*", "/", " if ")):
            last = src[src.rfind("."):]
            if any(last.startswith("." + d[:d.find("(")].strip(".")) for d in dep) \
                    and not src.startswith("e.ibox"):
                inner = ty
                if getattr(ty, "__args__", None):
                    continue
                out.append((src, swap.get(ty, ty)))
    return out


def _cases(M, E, J, Tk, it):
    base = [
        ("e.met()", float), ("e.n()", int), ("e.flag()", bool), ("e.lead()", J),
        ("e.lead().pt()", float), ("e.lead().mass()", float), ("e.lead().idx()", int),
        ("e.lead().lead().charge()", int), ("e.Jets()", it(J)), ("e.JColl()", M["Coll"][J]),
        ("e.JColl().corner()", J), ("e.JColl().corner().pt()", float),
        ("e.JColl().size()", int), ("e.JC2().best().ntrk()", int), ("e.JC2().corner()", J),
        ("e.box().first()", J), ("e.box().second()", int), ("e.box().both()", it(J)),
        ("e.ibox().first()", int), ("e.ibox().second()", float),
        ("e.untyped()", Any), ("e.lead().lead().noann()", Any),
        ("e.pairs().First()", float), ("e.pairs()[0]", float), ("e.pairs().key()", str),
        ("e.pairs().Select(lambda p: p + 1)", it(float)), ("e.pairs().Count()", int),
        ("e.sub12().val()", float), ("e.sub12().other()", int), ("e.sub21().val()", float),
        # collection operators
        ("e.Jets().First()", J), ("e.Jets().First().pt()", float), ("e.Jets().Count()", int),
        ("len(e.Jets())", int), ("e.Jets()[0]", J), ("e.Jets()[0].ntrk()", int),
        ("e.JColl().First().pt()", float), ("e.JColl()[1]", J), ("e.JC2().First()", J),
        ("e.TGrid().First()", it(Tk)), ("e.TGrid()[0]", it(Tk)), ("e.TGrid().diag()", it(Tk)),
        ("e.Jets().Select(lambda j: j.pt())", it(float)),
        ("e.Jets().Select(lambda j: j.ntrk())", it(int)),
        ("e.Jets().Select(lambda j: j.lead())", it(Tk)),
        ("e.Jets().Select(lambda j: j.Tracks())", it(it(Tk))),
        ("e.Jets().SelectMany(lambda j: j.Tracks())", it(Tk)),
        ("e.Jets().SelectMany(lambda j: j.Tracks()).First().charge()", int),
        ("e.Jets().Where(lambda j: j.pt() > 1)", it(J)),
        ("e.Jets().Where(lambda j: j.isGood()).First()", J),
        # operator lambdas passed by KEYWORD
        ("e.Jets().Where(filter=lambda j: j.pt() > 1)", it(J)),
        ("e.Jets().Where(filter=lambda j: j.pt() > 1).Count()", int),
        ("e.Jets().Where(filter=lambda j: j.isGood()).Select(lambda j: j.ntrk())", it(int)),
        ("e.Jets().Select(f=lambda j: j.pt())", it(float)),
        ("e.Jets().SelectMany(func=lambda j: j.Tracks())", it(Tk)),
        ("e.Jets().Select(lambda j: j.Tracks().Where(filter=lambda t: t.good()).Count())", it(int)),
        ("e.Jets().Select(lambda j: j.Tracks().Where(lambda t: t.good()).Count())", it(int)),
        ("e.Jets().Select(lambda j: j.Tracks().Select(lambda t: t.pt()))", it(it(float))),
        ("e.JColl().Select(lambda j: j.mass())", it(float)),
        ("e.JColl().Where(lambda j: j.pt() > 1).Count()", int),
        ("e.TGrid().Select(lambda r: r.Count())", it(int)),
        ("e.TGrid().SelectMany(lambda r: r)", it(Tk)),
        ("e.TGrid().Select(lambda r: r.First().pt())", it(float)),
        ("e.TGrid().Where(lambda r: r.Count() > 0)", M["Grid"][Tk]),
        ("e.Jets().Select(lambda e: e.pt())", it(float)),          # re-used parameter name
        ("e.Jets().Select(lambda j: j.Tracks().Select(lambda j: j.charge()))", it(it(int))),
        # operators of expressions
        ("e.met() > 1", bool), ("e.n() == 1", bool), ("e.flag() and e.met() > 1", bool),
        ("e.flag() or e.n() < 2", bool), ("not e.flag()", bool),
        ("e.n() + 1", int), ("e.n() * e.n()", int), ("e.n() - e.met()", float),
        ("e.n() / 2", float), ("e.met() + 1", float), ("-e.n()", int), ("-e.met()", float),
        ("e.n() + e.untyped()", Any), ("e.n() if e.flag() else 2", int),
        ("e.n() if e.flag() else e.met()", float), ("e.lead() if e.flag() else e.lead()", J),
        ("1", int), ("1.5", float), ("'s'", str), ("True", bool),
        # fields of user dataclasses (eager and string annotations)
        ("e.info().run", int), ("e.info().w", float), ("e.info().ok", bool),
        ("e.infos().run", int), ("e.infos().w", float), ("e.infos().ok", bool), ("e.infos().lead", J),
        ("e.infos().lead.pt()", float), ("e.infos().run + 1", int), ("e.infos().w + e.infos().run", float),
        ("e.infos()['run']", int), ("e.info()['w']", float),
        # dictionaries / tuples
        ("{'j': e.lead(), 'm': e.met()}.j", J), ("{'j': e.lead(), 'm': e.met()}['m']", float),
        ("{'j': e.lead(), 'm': e.met()}.j.pt()", float),
        # a key written twice: Python keeps the last value, so its type is the one that follows
        # (repaired by b1eaa38)
        ("{'a': e.met(), 'a': e.lead()}.a", J), ("{'a': e.lead(), 'b': 1, 'a': e.n()}.a", int),
        ("{'a': e.met(), 'a': e.lead()}.a.pt()", float),
        ("(e.lead(), e.n())[0]", J), ("(e.lead(), e.n())[1]", int), ("(e.lead(), e.n())[0].pt()", float),
        ("e.Jets().Select(lambda j: {'t': j.lead(), 'n': j.ntrk()}).Select(lambda d: d.t.charge())", it(int)),
        ("e.Jets().Select(lambda j: {'t': j.lead(), 'n': j.ntrk()}).First().n", int),
        ("e.Jets().Select(lambda j: (j, j.pt())).Select(lambda p: p[0].ntrk())", Any),
    ]
    return base


# ---- typed expression generator (types known by construction) ---------------------------------
class TGen:
    """Grows well-typed expressions from the class model; every production is one whose typing
    the fixed corpus above already exercises (no new typing rule is introduced here)."""

    def __init__(self, M, rng):
        self.M, self.rng = M, rng
        self.E, self.J, self.Tk = M["Event"], M["Jet"], M["Track"]
        self.num, self.other = M["num"], M["other"]
        self.k = 0

    def it(self, x):
        return Iterable[x]

    def fresh(self, scope):
        # sometimes re-use a name that is already bound (shadowing), mostly a new one
        if scope and self.rng.random() < 0.25:
            return self.rng.choice(scope)[0]
        self.k += 1
        return f"v{self.k}"

    def obj(self, ty, scope, d):
        """(source, type) of an expression of class type ty (Event / Jet / Track)."""
        r = self.rng
        vs = [n for n, t_ in scope if t_ is ty]
        opts = []
        if vs:
            opts += [lambda: r.choice(vs)] * 3
        if ty is self.J:
            opts.append(lambda: self.obj(self.E, scope, d - 1) + ".lead()")
            if d > 0:
                opts.append(lambda: self.coll(self.J, scope, d - 1) + ".First()")
                opts.append(lambda: self.coll(self.J, scope, d - 1) + "[0]")
                opts.append(lambda: self.obj(self.E, scope, d - 1) + ".JColl().corner()")
                opts.append(lambda: self.obj(self.E, scope, d - 1) + ".box().first()")
                opts.append(lambda: self.obj(self.E, scope, d - 1) + ".JC2().best()")
        if ty is self.Tk:
            opts.append(lambda: self.obj(self.J, scope, d - 1) + ".lead()")
            if d > 0:
                opts.append(lambda: self.coll(self.Tk, scope, d - 1) + ".First()")
        if not opts or (ty is self.E and not vs):
            return None
        if ty is self.E:
            return r.choice(vs)
        for _ in range(6):
            try:
                v = r.choice(opts)()
            except TypeError:
                v = None
            if v is not None:
                return v
        return None

    def coll(self, elt, scope, d):
        """source of an expression of type Iterable[elt] (elt: Jet, Track, num, other)."""
        r = self.rng
        opts = []
        if elt is self.J:
            opts.append(lambda: self.obj(self.E, scope, d - 1) + ".Jets()")
            opts.append(lambda: self.obj(self.E, scope, d - 1) + ".box().both()")
        if elt is self.Tk:
            opts.append(lambda: self.obj(self.J, scope, d - 1) + ".Tracks()")
            if d > 0:
                opts.append(lambda: self.obj(self.E, scope, d - 1) + ".TGrid().diag()")
                opts.append(lambda: self.smany(self.J, self.Tk, scope, d - 1))
        if d > 0:
            if elt in (self.J, self.Tk):
                opts.append(lambda: self.where(elt, scope, d - 1))
            src_elt = r.choice([self.J, self.Tk])
            opts.append(lambda: self.select(src_elt, elt, scope, d - 1))
        for _ in range(6):
            try:
                v = r.choice(opts)() if opts else None
            except TypeError:
                v = None
            if v is not None:
                return v
        return None

    def select(self, src_elt, elt, scope, d):
        c = self.coll(src_elt, scope, d)
        if c is None:
            return None
        v = self.fresh(scope)
        sc = [(n, t_) for n, t_ in scope if n != v] + [(v, src_elt)]
        body = self.val(elt, sc, d) if elt not in (self.J, self.Tk) else self.obj(elt, sc, d)
        kw = "f=" if self.rng.random() < 0.2 else ""
        return None if body is None else f"{c}.Select({kw}lambda {v}: {body})"

    def where(self, elt, scope, d):
        c = self.coll(elt, scope, d)
        if c is None:
            return None
        v = self.fresh(scope)
        sc = [(n, t_) for n, t_ in scope if n != v] + [(v, elt)]
        body = self.val(bool, sc, d)
        kw = "filter=" if self.rng.random() < 0.2 else ""
        return None if body is None else f"{c}.Where({kw}lambda {v}: {body})"

    def smany(self, src_elt, elt, scope, d):
        c = self.coll(src_elt, scope, d)
        if c is None:
            return None
        v = self.fresh(scope)
        sc = [(n, t_) for n, t_ in scope if n != v] + [(v, src_elt)]
        body = self.coll(elt, sc, d)
        kw = "func=" if self.rng.random() < 0.2 else ""
        return None if body is None else f"{c}.SelectMany({kw}lambda {v}: {body})"

    def val(self, ty, scope, d):
        """source of an expression of scalar type ty (num / other / bool)."""
        r = self.rng
        num, other = self.num, self.other
        opts = []
        j = lambda: self.obj(self.J, scope, d - 1)
        tk = lambda: self.obj(self.Tk, scope, d - 1)
        ev = lambda: self.obj(self.E, scope, d - 1)
        if ty is num:
            opts += [lambda: j() + ".pt()", lambda: tk() + ".pt()", lambda: ev() + ".met()"]
        if ty is other:
            opts += [lambda: j() + ".ntrk()", lambda: tk() + ".charge()", lambda: ev() + ".n()"]
        if ty is int:
            opts += [lambda: j() + ".idx()", lambda: str(r.randint(0, 9))]
            if d > 0:
                opts += [lambda: self.coll(r.choice([self.J, self.Tk]), scope, d - 1) + ".Count()",
                         lambda: "len(" + self.coll(r.choice([self.J, self.Tk]), scope, d - 1) + ")"]
        if ty is float:
            opts += [lambda: j() + ".mass()"]
        if ty is bool:
            opts += [lambda: j() + ".isGood()", lambda: tk() + ".good()", lambda: ev() + ".flag()"]
            if d > 0:
                a = r.choice([int, float])
                opts += [lambda: f"{self.val(a, scope, d - 1)} {r.choice(['>', '<', '==', '>=', '!='])} "
                                 f"{self.val(a, scope, d - 1)}",
                         lambda: f"({self.val(bool, scope, d - 1)} {r.choice(['and', 'or'])} "
                                 f"{self.val(bool, scope, d - 1)})",
                         lambda: f"(not {self.val(bool, scope, d - 1)})"]
        if d > 0 and ty in (int, float):
            if ty is int:
                opts.append(lambda: f"({self.val(int, scope, d - 1)} {r.choice(['+', '-', '*'])} "
                                    f"{self.val(int, scope, d - 1)})")
            else:
                opts.append(lambda: f"({self.val(r.choice([int, float]), scope, d - 1)} "
                                    f"{r.choice(['+', '-', '*'])} {self.val(float, scope, d - 1)})")
                opts.append(lambda: f"({self.val(int, scope, d - 1)} / {self.val(int, scope, d - 1)})")
            opts.append(lambda: f"({self.val(ty, scope, d - 1)} if {self.val(bool, scope, d - 1)} "
                                f"else {self.val(ty, scope, d - 1)})")
            opts.append(lambda: f"({self.val(ty, scope, d - 1)}, {self.val(bool, scope, d - 1)})[0]")
            opts.append(lambda: "{'a': " + str(self.val(ty, scope, d - 1)) + ", 'b': "
                                + str(self.val(bool, scope, d - 1)) + "}.a")
        for _ in range(8):
            try:
                v = r.choice(opts)() if opts else None
            except TypeError:
                v = None
            if v is not None and "None" not in v:
                return v
        return None

    def expression(self, d):
        r = self.rng
        scope = [("e", self.E)]
        kind = r.choice(["val", "val", "obj", "coll", "coll"])
        if kind == "val":
            ty = r.choice([int, float, bool])
            return self.val(ty, scope, d), ty
        if kind == "obj":
            ty = r.choice([self.J, self.Tk])
            return self.obj(ty, scope, d), ty
        elt = r.choice([self.J, self.Tk, int, float, bool])
        return self.coll(elt, scope, d), Iterable[elt]


def generated_cases(M, rng, n, depth):
    g = TGen(M, rng)
    out, seen = [], set()
    tries = 0
    while len(out) < n and tries < n * 20:
        tries += 1
        try:
            src, ty = g.expression(rng.randint(1, depth))
        except (TypeError, RecursionError):
            continue
        if src is None or "None" in src or len(src) > 400 or src in seen:
            continue
        try:
            ast.parse(src, mode="eval")
        except SyntaxError:
            continue
        seen.add(src)
        out.append((src, ty))
    return out


def same_type(a, b):
    if a is b or a == b:
        return True
    if str(a) == str(b):
        return True
    # a collection type is identified by its element type (Where on a nested collection records
    # Iterable[item], which is the same item type)
    from func_adl.util_types import is_iterable, unwrap_iterable
    try:
        if a is not Any and b is not Any and is_iterable(a) and is_iterable(b):
            return same_type(unwrap_iterable(a), unwrap_iterable(b))
    except Exception:
        pass
    return False


def run(t):
    from func_adl import ObjectStream
    from func_adl.type_based_replacement import remap_by_types, reset_global_functions
    reset_global_functions()
    run_model(t, make_models(0), 0)
    run_model(t, make_models(1), 1)       # same process, no reset: state must not leak
    reset_global_functions()


def run_model(t, M, variant):
    from func_adl import ObjectStream
    from func_adl.type_based_replacement import remap_by_types, reset_global_functions
    E = M["Event"]
    t.rules.append("class models with inheritance, Generic parameters (1 and 2), generic and "
                   "non-generic Iterable subclasses, an Iterable whose element type is not its own "
                   "parameter, a registered collection class, methods with and without return "
                   "annotations; well-typed expressions whose type is known by construction: method "
                   "chains, First/Count/len/subscript, Select/SelectMany/Where nested to depth 2 "
                   "with re-used parameter names, arithmetic promotion, comparisons, and/or/not, "
                   "conditionals, dictionary and tuple field access; stream-level operators and the "
                   "non-boolean Where refusal; non-trivial = expression contains a generic or "
                   "collection step; distinct by expression text")
    n_gen = 120 if t.tier == "quick" else 6000
    extra = generated_cases(M, t.rng, n_gen if variant == 0 else n_gen // 4, 3 if t.tier == "quick" else 4)
    t.bounds.append(f"model {variant}: {len(extra)} generated well-typed expressions (depth <= "
                    f"{3 if t.tier == 'quick' else 4}, seeded)")
    for src, exp in list(cases(M)) + extra:
        key = f"C08:m{variant}:" + src
        nontriv = any(x in src for x in ("Coll", "Grid", "box", "Select", "Where", "First", "["))
        t.case(key, nontriv, sample=f"{src} : {exp}")
        t.contract("remap_by_types: recorded type == annotated type")
        rp = {"kind": "C08", "src": src}
        try:
            _, _, ty = remap_by_types(ObjectStream[E](ast.Name("e", ast.Load())), {"e": E},
                                      ast.parse(src).body[0].value)
        except Exception as ex:
            t.violation("remap_by_types:no-exception on a well-typed expression",
                        f"raises {type(ex).__name__}: {str(ex)[:80]}", src, str(exp), repr(ex)[:100], rp)
            continue
        if exp is Any:
            continue        # unknown types may be followed or not: unconstrained
        if not same_type(ty, exp):
            t.violation("remap_by_types:ensures type == annotation-implied type",
                        "type follower disagrees with the annotations", src, str(exp), str(ty), rp)
    # stream level: Select gives the lambda's type, SelectMany its element type, Where keeps it and
    # rejects non-boolean filters
    from func_adl import EventDataset

    class DS(EventDataset):
        async def execute_result_async(self, a, title=None):
            return a
    J, Tk = M["Jet"], M["Track"]
    ds = DS(E)
    if variant != 0:
        return
    stream_cases = [
        (lambda: ds.Select("lambda e: e.met()"), float),
        (lambda: ds.Select("lambda e: e.Jets()"), Iterable[J]),
        (lambda: ds.SelectMany("lambda e: e.Jets()"), J),
        (lambda: ds.SelectMany("lambda e: e.Jets()").Select("lambda j: j.lead()"), Tk),
        (lambda: ds.SelectMany("lambda e: e.JColl()"), J),
        (lambda: ds.SelectMany("lambda e: e.TGrid()"), Iterable[Tk]),
        (lambda: ds.SelectMany("lambda e: e.TGrid()").SelectMany("lambda r: r"), Tk),
        (lambda: ds.Where("lambda e: e.met() > 1"), E),
        (lambda: ds.Where("lambda e: e.flag()").Select("lambda e: e.n()"), int),
        (lambda: ds.SelectMany("lambda e: e.Jets()").Where("lambda j: j.isGood()"), J),
        (lambda: ds.Select("lambda e: e.Jets().Select(lambda j: j.pt())"), Iterable[float]),
        (lambda: ds.Select("lambda e: e.Jets().Count()"), int),
        (lambda: ds.Select("lambda e: e.n() / 2"), float),
        (lambda: ds.MetaData({"a": 1}).Select("lambda e: e.lead()"), J),
        (lambda: ds.QMetaData({"a": 1}).SelectMany("lambda e: e.Jets()"), J),
        (lambda: ds.Select("lambda e: e.lead()").Where("lambda j: j.pt() > 0").Select("lambda j: j.ntrk()"), int),
    ]
    for i, (mk, exp) in enumerate(stream_cases):
        t.case(f"C08:stream:{i}", True, sample=f"stream case {i}: {exp}")
        t.contract("Select/SelectMany/Where: item type of the derived stream")
        try:
            s = mk()
        except Exception as ex:
            t.violation("operators:no-exception on a well-typed chain", f"raises {type(ex).__name__}",
                        f"stream case {i}", str(exp), repr(ex)[:100], {"kind": "C08", "src": f"stream:{i}"})
            continue
        if not same_type(s.item_type, exp):
            t.violation("operators:ensures item_type == annotation-implied type",
                        "derived stream has the wrong item type", f"stream case {i}", str(exp),
                        str(s.item_type), {"kind": "C08", "src": f"stream:{i}"})
    for src in ("lambda e: e.met()", "lambda e: e.Jets()", "lambda e: e.n() + 1", "lambda e: e.lead()"):
        t.case("C08:where-refusal:" + src, True)
        t.contract("Where: ValueError iff the filter is not boolean")
        try:
            ds.Where(src)
            t.violation("Where:raises ValueError iff the recorded type is not bool",
                        "non-boolean filter accepted", src, "ValueError", "accepted",
                        {"kind": "C08", "src": "where:" + src})
        except ValueError:
            pass
    t.bounds.append(f"{len(cases(M))} expressions, {len(stream_cases)} stream chains")


def replay(payload, t):
    run(t)
    return not [v for v in t.violations if v["replay"].get("src") == payload.get("src")]
