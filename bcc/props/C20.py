"""C20 — bounded contract check of calc_ast_hash on the real code.
Contract: result == H(ast.dump(a)) for a fixed total function H (so equal structure => equal
hash, independent of positions, formatting, the way a lambda was supplied, the process, non-field
annotations) and no exception for any query; single-edit neighbours hash differently (the MD5
collision clause is an ASSUMPTION, observed only)."""
import ast
import copy
import json
import os
import subprocess
import sys

import gen
from common import unparse, parse_expr

UNI = ["a", "é", "ÿ", "Ā", "ġ", "Ä¡", "漢", "😀", "ġ", "x\ny", "q'\"\\"]


def edits(q, rng):
    """Single-edit neighbours: operator, name, constant value, constant type, argument order,
    nesting."""
    out = []
    nodes = list(ast.walk(q))
    for i, n in enumerate(nodes):
        def mutate(fn):
            c = copy.deepcopy(q)
            m = list(ast.walk(c))[i]
            fn(m)
            return c
        if isinstance(n, ast.Name):
            out.append(("name", mutate(lambda m: setattr(m, "id", m.id + "_"))))
        if isinstance(n, ast.Attribute):
            out.append(("attr", mutate(lambda m: setattr(m, "attr", m.attr + "_"))))
        if isinstance(n, ast.Constant) and isinstance(n.value, int) and not isinstance(n.value, bool):
            out.append(("const-value", mutate(lambda m: setattr(m, "value", m.value + 1))))
            out.append(("const-type-float", mutate(lambda m: setattr(m, "value", float(m.value)))))
            if n.value in (0, 1):
                out.append(("const-type-bool", mutate(lambda m: setattr(m, "value", bool(m.value)))))
            out.append(("const-type-str", mutate(lambda m: setattr(m, "value", str(m.value)))))
        if isinstance(n, ast.BinOp):
            out.append(("operator", mutate(lambda m: setattr(m, "op", ast.Sub() if isinstance(
                m.op, ast.Add) else ast.Add()))))
            out.append(("operand-order", mutate(lambda m: (setattr(m, "left", m.right),
                                                           setattr(m, "right", n.left)))))
        if isinstance(n, ast.Compare):
            out.append(("cmp-operator", mutate(lambda m: setattr(m, "ops", [ast.LtE() if isinstance(
                m.ops[0], ast.Lt) else ast.Lt()]))))
        if isinstance(n, ast.Call) and len(n.args) >= 2:
            out.append(("arg-order", mutate(lambda m: setattr(m, "args", m.args[::-1]))))
        if isinstance(n, ast.Call) and len(n.args) >= 2 and isinstance(n.args[-2], ast.Call):
            def nest(m):
                last = m.args.pop()
                m.args[-1].args.append(last)
            out.append(("nesting", mutate(nest)))
        if isinstance(n, (ast.Tuple, ast.List)) and len(n.elts) >= 2:
            out.append(("elt-order", mutate(lambda m: setattr(m, "elts", m.elts[::-1]))))
            out.append(("tuple-vs-list", mutate(lambda m: None) if False else
                        _swap_seq(q, i)))
    return [(k, c) for k, c in out if c is not None and ast.dump(c) != ast.dump(q)]


def _swap_seq(q, i):
    c = copy.deepcopy(q)
    nodes = list(ast.walk(c))
    m = nodes[i]
    new = ast.List(m.elts, ast.Load()) if isinstance(m, ast.Tuple) else ast.Tuple(m.elts, ast.Load())
    for p in ast.walk(c):
        for f, v in ast.iter_fields(p):
            if v is m:
                setattr(p, f, new)
            elif isinstance(v, list):
                for j, x in enumerate(v):
                    if x is m:
                        v[j] = new
    return c


def _n_hard(tracks):
    return tracks.Where(lambda j: j.pt() > 30).Count()


def _scaled(x):
    return (lambda e: e + x)(1)


def _b_helper_collision(ds):
    return ds.SelectMany(lambda e: e.Jets("AntiKt4")).Select(lambda j: _n_hard(j.Tracks()))


def _b_helper_collision2(ds):
    return ds.SelectMany(lambda e: e.Electrons("Loose")).Select(lambda j: _n_hard(j.Clusters()))


def _b_called_lambda(ds):
    return ds.Select(lambda e: _scaled(e.met())).Where(lambda e: (lambda e: e > 0)(e))


def _b_plain(ds):
    return ds.Where(lambda e: e.met() > 1).Select(lambda e: (e.met(), e.Jets("x").Count()))


BUILDERS = [_b_helper_collision, _b_helper_collision2, _b_called_lambda, _b_plain]


def built_twice(t):
    """The same query built by the same code twice in one process, with other queries built in
    between, is the same structure and hashes the same ('nor the time'; seed C20_h: binder names
    invented while a helper is inlined came from a process-wide counter)."""
    from func_adl import EventDataset
    from func_adl.ast.ast_hash import calc_ast_hash

    class DS(EventDataset):
        async def execute_result_async(self, a, title=None):
            return a

    first = {}
    for rnd in range(3):
        for b in (BUILDERS if rnd != 1 else list(reversed(BUILDERS))):
            name = b.__name__
            t.case(f"C20:built-twice:{name}:{rnd}", True, sample=name)
            t.contract("the same query built again => equal hash")
            sent = b(DS()).value()
            h = calc_ast_hash(sent)
            if name not in first:
                first[name] = (h, ast.unparse(sent))
            elif first[name][0] != h:
                t.violation("calc_ast_hash:ensures result == H(dump(a)) [equal structure, equal "
                            "hash]", "the same query built a second time in this process hashes "
                            "differently", "built-twice:" + name, first[name][1],
                            ast.unparse(sent), {"kind": "C20", "src": "built-twice:" + name})
                return


def run(t):
    from func_adl.ast.ast_hash import calc_ast_hash
    built_twice(t)
    rng = t.rng
    quick = t.tier == "quick"
    base = [s for s, k in gen.chains(3, 1, "distinct", rng=rng, per_stage=4 if quick else 8)]
    base += ["DeltaR(abs(e.eta1), e.phi1)", "DeltaR(abs(e.eta1, e.phi1))",
             "ResultTTree(Select(ds, lambda e: (e.met, 1)), ['a', 'b'], 't', 'f.root')",
             "Select(ds, lambda e: f(g(e.x), e.y, h(e.z)))"]
    for u in UNI:
        base.append(f"Select(ds, lambda e: e.name == {u!r})")
        base.append(f"MetaData(ds, {{'k': {u!r}}})")
    t.rules.append("pairs (query, variant): equal structure re-built differently (reparsed from "
                   "unparse, deep-copied, positions shifted, non-field annotations attached, "
                   "hashed in a second process with another PYTHONHASHSEED) must hash equal; "
                   "every single-edit neighbour (name, attribute, constant value/type, operator, "
                   "operand/argument/element order, nesting, tuple-vs-list) must hash differently; "
                   "non-trivial = a pair of distinct objects; distinct by (query, edit)")
    hashes = {}
    cross = []
    for s in base:
        q = parse_expr(s)
        t.contract("calc_ast_hash: total")
        try:
            h = calc_ast_hash(q)
        except Exception as ex:
            t.case("C20:total:" + s, True, sample=s)
            t.violation("calc_ast_hash:no-exception", f"raises {type(ex).__name__} for a valid "
                        "query", s, None, repr(ex), {"kind": "C20", "src": s})
            continue
        cross.append((s, h))
        # equal structure, built differently
        variants = {
            "reparsed": parse_expr(ast.unparse(q)),
            "deepcopy": copy.deepcopy(q),
            "shifted-positions": ast.increment_lineno(copy.deepcopy(q), 17),
            "reformatted": parse_expr("(\n  " + ast.unparse(q).replace(", ", ",\n    ") + "\n)"),
        }
        ann = copy.deepcopy(q)
        for x in ast.walk(ann):
            x._q_metadata = {"a": 1}
            x._func_adl_executor = print
            x._old_ast = q
        variants["annotated"] = ann
        for k, v in variants.items():
            t.case(f"C20:eq:{k}:{s}", True, sample=f"{s} ~ {k}")
            t.contract("equal structure => equal hash")
            if ast.dump(v) != ast.dump(q):
                continue
            if calc_ast_hash(v) != h:
                t.violation("calc_ast_hash:ensures result == H(dump(a)) [equal structure, equal "
                            "hash]", f"variant '{k}' of the same structure hashes differently", s,
                            h, calc_ast_hash(v), {"kind": "C20", "src": s, "variant": k})
        # hashing twice (no hidden state), and after hashing something else
        calc_ast_hash(parse_expr("other(1)"))
        if calc_ast_hash(q) != h:
            t.violation("calc_ast_hash:deterministic", "second call returns another value", s, h,
                        calc_ast_hash(q), {"kind": "C20", "src": s})
        # a structurally different tree that re-uses the same root object / annotations
        for k, e in edits(q, rng)[: (12 if quick else 60)]:
            t.case(f"C20:ne:{k}:{s}:{ast.dump(e)[:80]}", True)
            t.contract("single edit => different hash (MD5 assumption)")
            if calc_ast_hash(e) == h:
                t.violation("calc_ast_hash:different-structure-different-hash",
                            f"edit '{k}' does not change the hash", s, ast.unparse(e), h,
                            {"kind": "C20", "src": s, "edit": k})
        # in-place edit of an already hashed tree must change the hash (no caching on the node)
        m = copy.deepcopy(q)
        h0 = calc_ast_hash(m)
        for x in ast.walk(m):
            if isinstance(x, ast.Name):
                x.id = x.id + "_renamed"
                break
        else:
            continue
        t.contract("hash follows in-place edits (no cache)")
        if calc_ast_hash(m) == h0:
            t.violation("calc_ast_hash:reads-only-the-current-structure",
                        "hash unchanged after the tree was edited in place", s, None, h0,
                        {"kind": "C20", "src": s, "edit": "in-place"})
    # second process, different hash seed
    prog = ("import ast,sys,json\nsys.path.insert(0, %r)\nfrom func_adl.ast.ast_hash import "
            "calc_ast_hash\nsrcs=json.load(sys.stdin)\nprint(json.dumps([calc_ast_hash(ast.parse(s, "
            "mode='eval').body) for s in srcs]))" % os.environ.get("VERIF_REPO", "/repo"))
    env = dict(os.environ, PYTHONHASHSEED="12345")
    p = subprocess.run([sys.executable, "-c", prog], input=json.dumps([s for s, _ in cross]),
                       capture_output=True, text=True, env=env, timeout=120)
    if p.returncode == 0:
        other = json.loads(p.stdout.strip().splitlines()[-1])
        for (s, h), h2 in zip(cross, other):
            t.case("C20:proc:" + s, True)
            t.contract("same hash in another process")
            if h != h2:
                t.violation("calc_ast_hash:process-independent", "hash differs in a second process",
                            s, h, h2, {"kind": "C20", "src": s, "variant": "process"})
    else:
        t.notes.append("second process failed: " + p.stderr[-200:])
    t.bounds.append(f"{len(base)} base queries")


def replay(payload, t):
    t.tier = "quick"
    run(t)
    return not [v for v in t.violations if v["input"] == payload.get("src")]
