"""Generated-source harness: properties about lambdas given as real Python callables need real
source files (the library recovers lambda text from the file).  A module is generated into a
scratch directory outside /repo and /verif, imported, and removed again."""
import importlib.util
import os
import shutil
import sys
import tempfile

_counter = [0]


def run_module(source, name_hint="gen", extra_globals=None):
    """Write `source` to a scratch file, import it, return the module; the file stays on disk only
    for the duration of the import (inspect reads it while the module body runs)."""
    base = os.environ.get("VERIF_SCRATCH") or tempfile.gettempdir()
    d = tempfile.mkdtemp(prefix="verif_src_", dir=base)
    _counter[0] += 1
    name = f"{name_hint}_{os.getpid()}_{_counter[0]}"
    path = os.path.join(d, name + ".py")
    try:
        with open(path, "w", encoding="utf-8") as f:
            f.write(source)
        spec = importlib.util.spec_from_file_location(name, path)
        mod = importlib.util.module_from_spec(spec)
        if extra_globals:
            mod.__dict__.update(extra_globals)
        sys.modules[name] = mod
        try:
            spec.loader.exec_module(mod)
        finally:
            sys.modules.pop(name, None)
        return mod
    finally:
        shutil.rmtree(d, ignore_errors=True)
        import linecache
        linecache.checkcache()


PRELUDE = '''import ast
from typing import Any
from func_adl import EventDataset
R = []
class _DS(EventDataset):
    async def execute_result_async(self, a, title=None):
        return a
ds = _DS()
'''


def case_block(i, stmt_expr):
    """Four lines: run one statement-expression, record ('ok', value) or ('err', exception)."""
    return (f"try:\n"
            f"    R.append(({i}, 'ok', {stmt_expr}))\n"
            f"except Exception as _ex:\n"
            f"    R.append(({i}, 'err', _ex))\n")
