"""C01 — bounded integration contract: a fluent query means what the user's chain computes.
Contract on value(): for pass in {id, M, A∘M, S∘M, S∘A∘M} (M method→function form, A aggregate
shortcuts, S chained-call simplification): sem(pass(AST handed to the executor), D) ==
the SAME chain run by Python directly on in-memory sequences, for every data set."""
import ast
import copy
import itertools

import sem
from props import srcgen

MODEL = '''
import dataclasses
from typing import Iterable, Any, NamedTuple
from func_adl import EventDataset

class JL(list):
    def Select(self, f):
        return JL(f(x) for x in self)
    def Where(self, f):
        return JL(x for x in self if f(x))
    def SelectMany(self, f):
        return JL(y for x in self for y in f(x))
    def Count(self):
        return len(self)
    def First(self):
        return self[0]

class Track:
    def __init__(self, pt):
        self._pt = pt
    def pt(self, scale: float = 10.0) -> float:
        # (another default than Jet.pt: a call followed with the wrong class shows in the value)
        return self._pt * scale
    def __repr__(self):
        return f"T({self._pt})"
    def __eq__(self, o):
        return isinstance(o, Track) and o._pt == self._pt

class Jet:
    def __init__(self, pt, eta, tracks):
        self._pt, self._eta, self._tracks = pt, eta, JL(tracks)
    def pt(self, scale: float = 1.0) -> float:
        return self._pt * scale
    def eta(self) -> float:
        return self._eta
    def shift(self, a: float, b: float = 3.0) -> float:
        return self._pt + a * b
    def Tracks(self) -> Iterable[Track]:
        return self._tracks
    def __repr__(self):
        return f"J({self._pt},{self._eta})"
    def __eq__(self, o):
        return isinstance(o, Jet) and (o._pt, o._eta, o._tracks) == (self._pt, self._eta, self._tracks)

class Event:
    def __init__(self, met, jets):
        self._met, self._jets = met, JL(jets)
    def met(self) -> float:
        return self._met
    def Jets(self, name: str = "std") -> Iterable[Jet]:
        return self._jets if name == "std" else JL(self._jets[:1])
    def __repr__(self):
        return f"E({self._met})"
    def __eq__(self, o):
        return isinstance(o, Event) and (o._met, o._jets) == (self._met, self._jets)

@dataclasses.dataclass
class Info:
    m: float
    n: int = 0

class Pair(NamedTuple):
    a: float
    b: float

def _t(*pts):
    return [Track(p) for p in pts]
DATASETS = [
    [],
    [Event(0.0, [])],
    [Event(3.0, [Jet(2.0, -1.0, _t(1.0, -2.0))]), Event(-1.0, []),
     Event(5.0, [Jet(1.0, 1.0, _t()), Jet(4.0, 0.5, _t(2.0, 2.0, 1.0)), Jet(4.0, 2.0, _t(3.0))])],
    [Event(2.0, [Jet(-3.0, 0.0, _t(2.0)), Jet(2.0, 2.0, _t(1.0))]), Event(2.0, [Jet(0.0, 0.0, _t())])],
]

class PS:
    "the user's chain run by Python directly on an in-memory sequence"
    def __init__(self, seq):
        self.seq = JL(seq)
    def Select(self, f):
        return PS(f(x) for x in self.seq)
    def Where(self, f):
        return PS(x for x in self.seq if f(x))
    def SelectMany(self, f):
        return PS(y for x in self.seq for y in f(x))
    def MetaData(self, d):
        return self
    def QMetaData(self, d):
        return self
    def AsAwkwardArray(self, cols=[]):
        return ("Result", "ResultAwkwardArray", self.seq, ([cols] if isinstance(cols, str) else cols,))
    def AsROOTTTree(self, f, t, cols=[]):
        return ("Result", "ResultTTree", self.seq, ([cols] if isinstance(cols, str) else cols, t, f))

SENT = []
class DS(EventDataset):
    async def execute_result_async(self, a, title=None):
        SENT.append(a)
        return a

CUT = 1.5
OFFSET = -2
v0 = "module global shadowed by lambda parameters"
v1 = 12345
j = -1
def add_offset(x):
    return x + OFFSET
def ratio(a, b):
    return a / (b + 10.0)
scale2 = lambda x: x * 2
typed = DS(Event)
untyped = DS()
NATIVE = {}
def _native(i, thunk):
    out = []
    for d in DATASETS:
        try:
            r = thunk(d)
            out.append(("ok", r.seq if isinstance(r, PS) else r))
        except Exception as ex:
            out.append(("err", type(ex).__name__))
    NATIVE[i] = out
'''

# stage tables: element kind -> [(operator, lambda body over {v}, resulting kind)]
STAGES = {
    "E": [("Select", "{v}.met()", "F"), ("Select", "{v}.Jets()", "Js"), ("SelectMany", "{v}.Jets()", "J"),
          ("Where", "{v}.met() > 1", "E"), ("Select", "({v}.met(), {v}.Jets().Count())", "TFI"),
          ("Select", "{v}.Jets().Select(lambda j: j.pt())", "Fs"),
          ("Select", "[j.pt(2.0) for j in {v}.Jets() if j.eta() > 0]", "Fs"),
          ("Select", "{v}.Jets().Where(lambda j: j.pt() > CUT).Count()", "I"),
          ("Select", "add_offset({v}.met())", "F"), ("Select", "Info(m={v}.met(), n={v}.Jets().Count())", "D"),
          ("Select", "Info({v}.met())", "D1"), ("Select", "Pair({v}.met(), b=scale2({v}.met()))", "P"),
          ("Where", "{v}.Jets().Count() > 0 and {v}.met() > 0", "E"),
          ("Select", "{v}.met() if {v}.Jets().Count() > 1 else -{v}.met()", "F"),
          ("Select", "{v}.Jets('first').Select(lambda j: j.shift(1.0))", "Fs"),
          ("SelectMany", "{v}.Jets().Select(lambda j: (j, {v}.met()))", "TJF"),
          ("Select", "{v}.Jets().Select(lambda j: j.Tracks().Where(lambda t: t.pt() > 0).Count())", "Is"),
          ("Select", "len({v}.Jets())", "I"),
          # and / or in value position on non-boolean operands (Python returns an operand)
          ("Select", "{v}.Jets().Count() and True", "U"), ("Select", "{v}.met() or 5.0", "Fb"),
          ("Select", "({v}.Jets().Count() and {v}.met()) + 1", "F"),
          ("Select", "ratio({v}.met(), b={v}.Jets().Count())", "F"),
          ("Select", "(lambda m: m * m + OFFSET)({v}.met())", "F"),
          ("Select", "Info(n={v}.Jets().Count(), m={v}.met())", "D"),
          ("Select", "Pair(b={v}.met(), a=1.0)", "P"),
          # the parameter used as a BARE name inside a nested lambda (module globals of the same
          # names exist: parameters shadow them)
          ("Select", "{v}.Jets().Select(lambda j: (j.pt(), {v})[1].met() + j.pt())", "Fs"),
          ("Select", "{v}.Jets().Where(lambda j: [j, {v}][1].met() > j.pt()).Count()", "I")],
    "J": [("Select", "{v}.pt()", "F"), ("Where", "{v}.pt(scale=2.0) > 1", "J"),
          # a nested lambda that re-uses the parameter's name for an object of ANOTHER class, the
          # outer variable used again afterwards (seed C01_h: the inner parameter's type leaked out)
          ("Select", "{v}.Tracks().Where(lambda {v}: {v}.pt() > 0).Count() + {v}.pt()", "F"),
          ("Select", "({v}.Tracks().Select(lambda {v}: {v}.pt()).Count(), {v}.pt(), {v}.shift(1.0))[1]", "F"),
          ("Select", "({v}.pt(), {v}.eta())", "TFF"), ("SelectMany", "{v}.Tracks()", "T"),
          ("Select", "{v}.shift(b=2.0, a={v}.eta())", "F"), ("Select", "{v}.Tracks().Count()", "I"),
          ("Select", "{{'pt': {v}.pt(), 'ntrk': {v}.Tracks().Count()}}", "DJ"),
          ("Where", "{v}.Tracks().Where(lambda t: t.pt() > 1).Count() > 0", "J")],
    "T": [("Select", "{v}.pt()", "F"), ("Where", "{v}.pt() > 0", "T")],
    "Js": [("Select", "{v}.Count()", "I"), ("SelectMany", "{v}", "J"),
           ("Select", "{v}.Select(lambda j: j.pt())", "Fs"), ("Where", "{v}.Count() > 0", "Js")],
    "Fs": [("Select", "{v}.Count()", "I"), ("SelectMany", "{v}", "F"), ("Where", "{v}.Count() > 1", "Fs")],
    "Is": [("SelectMany", "{v}", "I")],
    "F": [("Select", "{v} * 2", "F"), ("Where", "{v} > 0", "F"), ("Select", "add_offset({v})", "F"),
          # helpers called with keywords after earlier helper stages; a called lambda around them
          ("Select", "ratio({v} + {v}, b=(3.0 if 0 < 1 else {v}))", "F"),
          ("Select", "(lambda w: ratio({v}, b=w))(add_offset({v}))", "F"),
          ("Where", "ratio({v}, b=-1.0) >= ({v} + OFFSET) or {v} != 3.0", "F")],
    # a float that the library types bool (result of a value-position and/or, C08): usable as an
    # operand, not as a conditional's branch next to a float (designed refusal, C10)
    "Fb": [("Select", "{v} + 1.5", "F"), ("Where", "{v} > 0", "Fb"), ("Select", "add_offset({v})", "F")],
    "I": [("Select", "{v} + 1", "I"), ("Where", "{v} > 0", "I")],
    "TFI": [("Select", "{v}[0] + {v}[1]", "F"), ("Where", "{v}[1] > 0", "TFI"), ("Select", "{v}[1]", "I")],
    "TFF": [("Select", "{v}[0] * {v}[1]", "F"), ("Where", "{v}[0] > {v}[1]", "TFF")],
    "TJF": [("Select", "{v}[0].pt() + {v}[1]", "F"), ("Where", "{v}[1] > 0", "TJF"),
            ("Select", "{v}[0]", "J")],
    "D": [("Select", "{v}.m + {v}.n", "F"), ("Where", "{v}['n'] > 0", "D"), ("Select", "{v}.m", "F")],
    "D1": [("Select", "{v}.m", "F")],
    "P": [("Select", "{v}.a - {v}.b", "F")],
    "DJ": [("Select", "{v}.pt * {v}['ntrk']", "F"), ("Where", "{v}.ntrk > 0", "DJ")],
}
TERMINALS = [None, ".AsAwkwardArray(['c'])", ".AsROOTTTree('f.root', 't', 'c')", ".MetaData({'k': 1})",
             ".QMetaData({'q': 1})"]


class RandBody:
    """Random well-typed lambda bodies over the class model of MODEL (method form, defaults and
    keywords, nested operators, closures over outer parameters, comprehensions, called lambdas,
    tuple packaging + projection); kinds as in STAGES."""

    def __init__(self, rng, captures=False):
        self.rng, self.k, self.captures = rng, 0, captures

    def fresh(self, scope):
        if scope and self.rng.random() < 0.2:
            return self.rng.choice([n for n, _ in scope])
        self.k += 1
        return f"w{self.k}"

    def bind(self, scope, v, kind):
        return [(n, k) for n, k in scope if n != v] + [(v, kind)]

    def pick(self, opts):
        for _ in range(8):
            r = self.rng.choice(opts)()
            if r is not None:
                return r
        return None

    def vars(self, scope, kind):
        return [n for n, k in scope if k == kind]

    def flt(self, scope, d, operand=False):
        """a float-valued expression.  The library types `and` / `or` as bool (C08) and refuses a
        conditional whose branches are bool and float (a designed refusal, C10), so a value-position
        and/or is only generated as an OPERAND (of arithmetic or a comparison), never where its
        library type would become the type of a branch, a variable or a stage result."""
        r = self.rng
        opts = [lambda: repr(float(r.randint(-2, 4)))]
        for n in self.vars(scope, "F"):
            opts += [lambda n=n: n] * 2
        for n in self.vars(scope, "E"):
            opts += [lambda n=n: f"{n}.met()"] * 2
        for n in self.vars(scope, "J"):
            opts += [lambda n=n: f"{n}.{r.choice(['pt()', 'eta()', 'pt(2.0)', 'pt(scale=0.5)', 'shift(1.0)', 'shift(b=2.0, a=1.0)', 'shift(0.5, 2.0)'])}"] * 3
        for n in self.vars(scope, "T"):
            opts += [lambda n=n: f"{n}.pt()"] * 2
        if d > 0:
            opts += [lambda: self._bin(scope, d - 1), lambda: self._cond(scope, d - 1),
                     lambda: self._proj(scope, d - 1), lambda: self._called(scope, d - 1),
                     lambda: self._of_first(scope, d - 1)]
            if operand:
                opts += [lambda: self._valbool(scope, d - 1)] * 2
            if self.captures:
                opts += [lambda: f"add_offset({self.flt(scope, d - 1)})",
                         lambda: f"({self.flt(scope, d - 1)} + OFFSET)",
                         lambda: f"ratio({self.flt(scope, d - 1)}, b={self.flt(scope, d - 1)})"]
        return self.pick(opts)

    def _bin(self, scope, d):
        a, b = self.flt(scope, d, operand=True), self.flt(scope, d, operand=True)
        return None if None in (a, b) else f"({a} {self.rng.choice(['+', '-', '*'])} {b})"

    def _valbool(self, scope, d):
        a, b = self.flt(scope, d), self.flt(scope, d)
        if None in (a, b):
            return None
        return self.rng.choice([f"({a} and {b})", f"({a} or {b})", f"({a} and True)",
                                f"({a} or 1.0)"])

    def _cond(self, scope, d):
        a, b, c = self.flt(scope, d), self.boo(scope, d), self.flt(scope, d)
        return None if None in (a, b, c) else f"({a} if {b} else {c})"

    def _proj(self, scope, d):
        a, b = self.flt(scope, d), self.flt(scope, d)
        return None if None in (a, b) else self.rng.choice([f"({a}, {b})[0]", f"({b}, {a})[1]", f"[{a}, {b}][0]"])

    def _called(self, scope, d):
        a = self.flt(scope, d)
        p = self.fresh(scope)
        b = self.flt(self.bind(scope, p, "F"), d)
        return None if None in (a, b) else f"(lambda {p}: {b})({a})"

    def _of_first(self, scope, d):
        s = self.seq("J", scope, d)
        return None if s is None else f"{s}.First().{self.rng.choice(['pt()', 'eta()', 'shift(1.0)'])}"

    def intx(self, scope, d):
        opts = [lambda: str(self.rng.randint(0, 3))]
        for n in self.vars(scope, "I"):
            opts += [lambda n=n: n] * 2
        if d >= 0:
            def cnt():
                s = self.seq(self.rng.choice(["J", "T"]), scope, max(d - 1, 0))
                return None if s is None else self.rng.choice([f"{s}.Count()", f"len({s})"])
            opts += [cnt] * 3
        if d > 0:
            opts.append(lambda: f"({self.intx(scope, d - 1)} + {self.intx(scope, d - 1)})")
        return self.pick(opts)

    def boo(self, scope, d):
        r = self.rng
        if r.random() < 0.5:
            a, b = self.flt(scope, max(d - 1, 0), operand=True), self.flt(scope, max(d - 1, 0), operand=True)
        else:
            a, b = self.intx(scope, max(d - 1, 0)), self.intx(scope, max(d - 1, 0))
        if a is None or b is None:
            return None
        base = f"{a} {r.choice(['>', '<', '>=', '!='])} {b}"
        if d > 0 and r.random() < 0.3:
            c = self.boo(scope, d - 1)
            if c is not None:
                return f"({base} {r.choice(['and', 'or'])} {c})"
        return base

    def seq(self, ek, scope, d):
        opts = []
        if ek == "J":
            for n in self.vars(scope, "E"):
                opts += [lambda n=n: f"{n}.Jets()", lambda n=n: f"{n}.Jets('first')",
                         lambda n=n: f"{n}.Jets(name='std')"]
            for n in self.vars(scope, "Js"):
                opts.append(lambda n=n: n)
        if ek == "T":
            for n in self.vars(scope, "J"):
                opts += [lambda n=n: f"{n}.Tracks()"] * 2
        if ek == "F":
            for n in self.vars(scope, "Fs"):
                opts.append(lambda n=n: n)
        if d > 0:
            if ek in ("J", "T"):
                opts.append(lambda: self._where(ek, scope, d - 1))
                if ek == "T":
                    opts.append(lambda: self._smany("J", "T", scope, d - 1))
            if ek in ("F", "I"):
                opts += [lambda: self._select(ek, scope, d - 1), lambda: self._comp(ek, scope, d - 1)]
        return self.pick(opts) if opts else None

    def _where(self, ek, scope, d):
        s = self.seq(ek, scope, d)
        if s is None:
            return None
        v = self.fresh(scope)
        b = self.boo(self.bind(scope, v, ek), d)
        return None if b is None else f"{s}.Where(lambda {v}: {b})"

    def _select(self, ek, scope, d):
        sk = self.rng.choice(["J", "T"])
        s = self.seq(sk, scope, d)
        if s is None:
            return None
        v = self.fresh(scope)
        sc = self.bind(scope, v, sk)
        b = self.flt(sc, d) if ek == "F" else self.intx(sc, d)
        return None if b is None else f"{s}.Select(lambda {v}: {b})"

    def _comp(self, ek, scope, d):
        sk = self.rng.choice(["J", "T"])
        s = self.seq(sk, scope, d)
        if s is None:
            return None
        v = self.fresh(scope)
        sc = self.bind(scope, v, sk)
        b = self.flt(sc, d) if ek == "F" else self.intx(sc, d)
        c = self.boo(sc, 0)
        if b is None:
            return None
        return f"[{b} for {v} in {s}" + (f" if {c}]" if c is not None and self.rng.random() < 0.5 else "]")

    def _smany(self, sk, ek, scope, d):
        s = self.seq(sk, scope, d)
        if s is None:
            return None
        v = self.fresh(scope)
        b = self.seq(ek, self.bind(scope, v, sk), d)
        return None if b is None else f"{s}.SelectMany(lambda {v}: {b})"

    def stage(self, kind, v, d):
        """(operator, body with {v} placeholder, resulting kind) for a stream of element `kind`"""
        if kind not in ("E", "J", "T", "F", "I", "Js", "Fs"):
            return None
        scope = [(v, kind)]
        r = self.rng
        what = r.choice(["F", "F", "I", "B", "seqJ", "seqT", "seqF", "many", "Fb"])
        body = out = op = None
        if what == "F":
            body, op, out = self.flt(scope, d), "Select", "F"
        elif what == "Fb":
            body, op, out = self._valbool(scope, d), "Select", "Fb"
        elif what == "I":
            body, op, out = self.intx(scope, d), "Select", "I"
        elif what == "B":
            body, op, out = self.boo(scope, d), "Where", kind
        elif what == "seqJ":
            body, op, out = self.seq("J", scope, d), "Select", "Js"
        elif what == "seqF":
            body, op, out = self.seq("F", scope, d), "Select", "Fs"
        elif what == "seqT":
            body, op, out = self.seq("T", scope, d), "SelectMany", "T"
        else:
            ek = r.choice(["J", "F"])
            body, op, out = self.seq(ek, scope, d), "SelectMany", ek
        if body is None or v not in body:
            return None
        return op, body.replace("{", "{{").replace("}", "}}").replace(v, "{v}"), out


def build_chains(rng, n_chains, max_len, rand_p=0.0):
    chains = []
    for _ in range(n_chains):
        kind = "E"
        stages = []
        for depth in range(rng.randint(1, max_len)):
            opts = STAGES.get(kind)
            if not opts:
                break
            op, body, k2 = rng.choice(opts)
            if rand_p and rng.random() < rand_p:
                # a randomly generated body instead of one from the table
                rb = RandBody(rng, captures=rng.random() < 0.3)
                st = None
                for _ in range(6):
                    st = rb.stage(kind, "qq", rng.randint(1, 3))
                    if st is not None:
                        break
                if st is not None:
                    op, body, k2 = st
            stages.append((op, body, f"v{depth}"))
            kind = k2
        term = rng.choice(TERMINALS)
        chains.append((stages, term))
    chains.append(([("Select", "ratio({v}.met(), b={v}.Jets().Count())", "v0"),
                    ("Select", "add_offset({v})", "v1"),
                    ("Select", "ratio({v} + {v}, b=(3.0 if 0 < 1 else {v}))", "v2")], None))
    chains.append(([("Select", "{v}.met()", "v0"),
                    ("Select", "(lambda w: ratio({v}, b=w))(add_offset({v}))", "v1")], None))
    # every single stage at least once, directly on the root
    for op, body, k2 in STAGES["E"]:
        chains.append(([(op, body, "v0")], None))
    for op, body, k2 in STAGES["J"]:
        chains.append(([("SelectMany", "{v}.Jets()", "v0"), (op, body, "v1")], None))
    return chains


def chain_source(root, stages, term, how):
    """black-style wrapped: one operator per line, lambda given as callable / str / ast."""
    lines = [f"    {root}"]
    for op, body, v in stages:
        lam = f"lambda {v}: {body.format(v=v)}"
        if how == "callable":
            lines.append(f"    .{op}({lam})")
        elif how == "str":
            lines.append(f"    .{op}({lam!r})")
        else:
            lines.append(f"    .{op}(ast.parse({lam!r}).body[0].value)")
    if term:
        lines.append(f"    {term}")
    return "(\n" + "\n".join(lines) + "\n)"


def uses_captures(stages):
    return any(n in b for _, b, _ in stages for n in ("CUT", "OFFSET", "add_offset", "ratio", "scale2",
                                                      "Info", "Pair"))


def run(t):
    from func_adl.ast.func_adl_ast_utils import change_extension_functions_to_calls
    from func_adl.ast.aggregate_shortcuts import aggregate_node_transformer
    from func_adl.ast.function_simplifier import simplify_chained_calls
    rng = t.rng
    quick = t.tier == "quick"
    chains = build_chains(rng, 60 if quick else 1500, 3 if quick else 4, 0.25 if quick else 0.6)
    t.rules.append("operator chains (length <= 3 quick / 4 thorough, kind-directed so they are well "
                   "typed; branching from the two shared roots) over a class model with methods that "
                   "have defaults; lambda bodies: attributes/method calls with defaults and keywords, "
                   "arithmetic, comparisons, conditionals, tuples, dicts via dataclass/NamedTuple "
                   "sugar, nested Select/Where/SelectMany/First/Count, single-for comprehensions, "
                   "captured values and one-line helpers, called lambdas; supplied as Python "
                   "callables (generated source), source strings and ASTs; typed and untyped roots; "
                   "optional terminal; 4 data sets incl. empty collections; five backend passes; "
                   "non-trivial = chain of >= 2 stages or a nested operator; distinct by "
                   "(root, how, chain text)")
    parts = ["import ast\nR = []\n", MODEL]
    index = []
    n = 0
    for stages, term in chains:
        for root in ("typed", "untyped"):
            hows = ["callable", "str", "ast"] if not uses_captures(stages) else ["callable"]
            if quick:
                hows = hows[: 1 + (n % 2)]
            for how in hows:
                src = chain_source(root, stages, term, how)
                parts.append(f"try:\n    _s = {src.replace(chr(10), chr(10) + '    ')}\n"
                             f"    SENT.clear()\n    _s.value()\n"
                             f"    R.append(({n}, 'ok', SENT[0]))\n"
                             f"except Exception as _ex:\n    R.append(({n}, 'err', _ex))\n")
                nat = chain_source("PS(_d)", stages, term, "callable")
                parts.append(f"_native({n}, lambda _d: {nat.replace(chr(10), chr(10) + '    ')})\n")
                index.append((n, root, how, stages, term, src))
                n += 1
    # the SAME lambdas (one source location, one code object) used for several queries with
    # different captured values: a query-building helper called repeatedly (seed C01_f: a cache
    # of recovered lambdas keyed by the code object kept the first call's captured values)
    BUILDS = [(1.0, 2.0), (5.0, 3.0), (-1.0, 0.5), (5.0, 3.0)]
    parts.append("def _build(root, cut, scale):\n    return (\n        root\n"
                 "        .Where(lambda v0: v0.met() > cut)\n"
                 "        .Select(lambda v0: (v0.met() * scale, v0.Jets().Where(lambda j: j.pt() > cut).Count()))\n    )\n"
                 "RB = []\n")
    for k, (cut, scale) in enumerate(BUILDS):
        for root in ("typed", "untyped"):
            parts.append(f"try:\n    SENT.clear()\n    _build({root}, {cut}, {scale}).value()\n"
                         f"    RB.append(({k}, {root!r}, 'ok', SENT[0]))\n"
                         f"except Exception as _ex:\n    RB.append(({k}, {root!r}, 'err', _ex))\n")
        parts.append(f"_native('b{k}', lambda _d: _build(PS(_d), {cut}, {scale}))\n")
    mod = srcgen.run_module("".join(parts), "c01")
    for k, root, st, val in mod.RB:
        key = f"C01:{root}:callable:_build(cut={BUILDS[k][0]}, scale={BUILDS[k][1]}) [call #{k}]"
        t.case(key, True, sample=key)
        t.contract("sem(sent AST, D) == native chain(D) for every call of a query-building helper")
        rp = {"kind": "C01", "key": key}
        if st == "err":
            t.violation("operators/value:no-exception on a well-typed chain",
                        f"raises {type(val).__name__}: {str(val)[:100]}", key, "a query", repr(val)[:160], rp)
            continue
        for di, (d, nat) in enumerate(zip(mod.DATASETS, mod.NATIVE[f"b{k}"])):
            if nat[0] != "ok":
                continue
            got = sem.run(val, {"EventDataset": (lambda d=d: mod.JL(d))})
            want = ("ok", sem.force(nat[1]))
            if got != want:
                t.violation("value:ensures sem(id(AST handed to the executor)) == native chain",
                            "the query computes something else than the user's chain",
                            f"{key}  [data set {di}]", want, f"{got} via {ast.unparse(val)[:300]}", rp)
                break
    by_n = {r[0]: r for r in mod.R}
    env_base = {k: getattr(mod, k) for k in ("add_offset", "ratio", "scale2", "Info", "Pair")}
    for nn, root, how, stages, term, src in index:
        rec = by_n[nn]
        key = f"C01:{root}:{how}:{src}"
        nested = len(stages) >= 2 or any("lambda" in b or " for " in b for _, b, _ in stages)
        t.case(key, nested, sample=f"[{root}/{how}] {src}")
        rp = {"kind": "C01", "key": key}
        if rec[1] == "err":
            t.contract("value(): builds and executes")
            t.violation("operators/value:no-exception on a well-typed chain",
                        f"raises {type(rec[2]).__name__}: {str(rec[2])[:100]}", key, "a query",
                        repr(rec[2])[:160], rp)
            continue
        sent = rec[2]
        M = change_extension_functions_to_calls(copy.deepcopy(sent))
        passes = {"id": sent, "M": M}
        try:
            passes["A.M"] = aggregate_node_transformer().visit(copy.deepcopy(M))
            passes["S.M"] = simplify_chained_calls().visit(copy.deepcopy(M))
            passes["S.A.M"] = simplify_chained_calls().visit(copy.deepcopy(passes["A.M"]))
        except Exception as ex:
            t.violation("backend passes:no-exception", f"raises {type(ex).__name__}: {str(ex)[:80]}",
                        key, None, repr(ex)[:120], rp)
            continue
        for di, (d, nat) in enumerate(zip(mod.DATASETS, mod.NATIVE[nn])):
            if nat[0] != "ok":
                continue
            want = ("ok", sem.force(nat[1]))
            for pname, q in passes.items():
                env = dict(env_base)
                env["EventDataset"] = lambda d=d: mod.JL(d)
                got = sem.run(q, env)
                t.contract(f"sem({pname}(sent AST), D) == native chain(D)")
                if got != want:
                    t.violation(f"value:ensures sem({pname}(AST handed to the executor)) == native chain",
                                "the query computes something else than the user's chain",
                                f"{key}  [data set {di}]", want, f"{got} via {ast.unparse(q)[:300]}",
                                rp)
                    break
            else:
                continue
            break
    t.bounds.append(f"{len(index)} (chain, root, how) cases x 4 data sets x 5 passes")


def replay(payload, t):
    run(t)
    return not [v for v in t.violations if v["replay"].get("key") == payload.get("key")]
