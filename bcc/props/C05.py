"""C05 — bounded contract check: captured one-line helpers are inlined faithfully.
Contract on Select (lambda given as a Python callable that calls captured single-return functions
or lambdas): sem(emitted lambda) == what Python computes calling the helper; helpers that cannot be
inlined stay calls by name (then the emitted lambda still mentions the helper's name)."""
import ast

import sem
from props import srcgen
from props.C04 import HEADER as DATA_HEADER

HELPERS = '''
def h_id(a):
    return a
def h_inc(a):
    return a + 1
def h_two(a, b):
    return a * 10 - b
def h_swap(x, y):
    return y - x
def h_cond(a, b):
    return a if a > b else b
def h_tuple(a, b):
    return (a, b)[1]
def h_attr(o):
    return o.x + o.y
def h_shadow(a):
    return (lambda a: a + 1)(a * 2)
def h_shadow2(a, seq):
    return seq.Select(lambda a: a.pt + 1).Count() + a
def h_nested_same(a, seq):
    return seq.Where(lambda j: j.pt > a).Select(lambda a: a.pt)
def h_deep1(a):
    return h_inc(a) * 2
def h_deep2(a, b):
    return h_deep1(a) + h_two(b, a)
def h_deep3(a):
    return h_deep2(h_inc(a), a)
def h_doc(a):
    "a docstring"
    return a - 1
def h_default(a, b=5):
    return a + b
def h_jets(e):
    return e.jets
def h_sel(seq, w):
    return seq.Select(lambda j: j.pt * w)
H_OFF = -2
H_SCALE = 3
def h_glob(a):
    return a * H_SCALE + H_OFF
def h_glob2(a):
    return h_glob(a) - H_OFF
def _mk_closure(k):
    def h_clo(a):
        return a + k
    return h_clo
h_clo5 = _mk_closure(5)
h_clo7 = _mk_closure(7)
def h_rec(a):
    return a if a < 1 else h_rec(a - 1)
l_inc = lambda a: a + 1
l_two = lambda a, b: a - b
l_id = lambda a: a
def h_multi(a):
    b = a + 1
    return b
'''

# lambdas using the helpers; second item: may the helper stay un-inlined (call by name)?
CASES = [
    "lambda e: h_id(e.x)", "lambda e: h_id(e).x", "lambda e: h_inc(e.x)", "lambda e: h_inc(h_inc(e.x))",
    "lambda e: h_two(e.x, e.y)", "lambda e: h_two(e.y, e.x)", "lambda e: h_two(b=e.y, a=e.x)",
    "lambda e: h_two(e.x, b=e.y)", "lambda e: h_swap(e.x, e.y)", "lambda x: h_swap(3, x.x)",
    "lambda x: h_swap(x.y, x.x)", "lambda y: h_swap(y.x, y.y)", "lambda a: h_two(a.y, a.x)",
    "lambda b: h_two(b.x, b.y)", "lambda e: h_cond(e.x, e.y)", "lambda e: h_tuple(e.x, e.y)",
    "lambda e: h_attr(e)", "lambda o: h_attr(o)",
    "lambda e: h_shadow(e.x)", "lambda a: h_shadow(a.x)",
    "lambda e: h_shadow2(e.x, e.jets)", "lambda a: h_shadow2(a.x, a.jets)",
    "lambda e: h_nested_same(e.y, e.jets)", "lambda j: h_nested_same(j.y, j.jets)",
    "lambda e: h_deep1(e.x)", "lambda e: h_deep2(e.x, e.y)", "lambda e: h_deep3(e.x)",
    "lambda a: h_deep3(a.x)", "lambda e: h_doc(e.x)", "lambda e: h_default(e.x)",
    "lambda e: h_default(e.x, 2)", "lambda e: h_default(e.x, b=e.y)",
    "lambda e: h_jets(e).Select(lambda j: j.pt)", "lambda e: h_sel(e.jets, e.x)",
    "lambda e: h_sel(h_jets(e), h_inc(e.x))", "lambda j: h_sel(j.jets, j.x)",
    "lambda w: h_sel(w.jets, w.x)", "lambda e: e.jets.Select(lambda j: h_two(j.pt, e.x))",
    "lambda e: e.jets.Select(lambda a: h_two(a.pt, e.x))",
    "lambda e: e.jets.Select(lambda a: h_inc(a.pt)).Count() + h_id(e.x)",
    "lambda e: l_inc(e.x)", "lambda e: l_two(e.x, e.y)", "lambda e: l_id(e).y",
    "lambda a: l_two(a.y, a.x)", "lambda e: h_inc(e.x) - h_inc(7)", "lambda e: h_two(e.x, 2) - h_two(7, e.x)",
    "lambda e: h_two(h_two(e.x, e.y), h_two(e.y, e.x))", "lambda e: [h_inc(j.pt) for j in e.jets]",
    "lambda e: h_multi(e.x)",
    "lambda e: h_glob(e.x)", "lambda e: h_glob2(e.y) + h_glob(e.x)", "lambda e: h_clo5(e.x) - h_clo7(e.y)",
    "lambda e: e.jets.Select(lambda j: h_glob(j.pt))", "lambda H_OFF: h_glob(H_OFF.x)",
]


def run(t):
    t.rules.append("single-return helper functions and lambdas defined in a generated module "
                   "(bodies: a bare parameter, arithmetic, conditional, projection, attribute "
                   "access, nested lambdas re-using a parameter name, operators over a sequence "
                   "argument, helpers calling helpers to depth 3, docstring, defaults) x call "
                   "shapes (positional, keyword, re-ordered, partially keyword, defaulted) x "
                   "argument expressions that mention names bound inside the helper or equal to "
                   "its parameters, the same helper used twice; oracle = Python calling the "
                   "helper; non-trivial = a helper with >= 1 parameter is called; distinct by text")
    parts = [srcgen.PRELUDE, DATA_HEADER, HELPERS]
    for i, lam in enumerate(CASES):
        parts.append(srcgen.case_block(i, f"ds.Select({lam})"))
        parts.append(f"_native({i}, ({lam}))\n")
    mod = srcgen.run_module("".join(parts), "c05")
    helper_env = {k: getattr(mod, k) for k in dir(mod) if k.startswith(("h_", "l_"))}
    for rec in mod.R:
        i = rec[0]
        lam = CASES[i]
        t.case("C05:" + lam, True, sample=lam)
        rp = {"kind": "C05", "lam": lam}
        t.contract("Select: sem(emitted lambda) == Python calling the helper")
        if rec[1] == "err":
            if "h_multi" in lam and isinstance(rec[2], ValueError):
                continue
            t.violation("Select:no-exception for a single-return helper",
                        f"raises {type(rec[2]).__name__}: {str(rec[2])[:80]}", lam, "a query",
                        repr(rec[2])[:160], rp)
            continue
        emitted = rec[2].query_ast.args[1]
        for d, nat in zip(mod.DATA, mod.NATIVE[i]):
            if nat[0] != "ok":
                continue
            # helpers that were left as calls by name are looked up by name (allowed)
            env = dict(helper_env)
            env["d0"] = d
            got = sem.run(ast.Call(emitted, [ast.Name("d0", ast.Load())], []), env)
            want = ("ok", sem.force(nat[1]))
            if got != want:
                t.violation("Select:ensures sem(emitted lambda) == native call of the helper",
                            "inlined helper computes something else", lam, want,
                            f"{got} via {ast.unparse(emitted)}", rp)
                break
    t.bounds.append(f"{len(CASES)} lambdas over 23 helpers, 3 data objects")


def replay(payload, t):
    run(t)
    return not [v for v in t.violations if v["replay"].get("lam") == payload.get("lam")]
