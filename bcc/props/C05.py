"""C05 — bounded contract check: captured one-line helpers are inlined faithfully.
Contract on Select (lambda given as a Python callable that calls captured single-return functions
or lambdas): sem(emitted lambda) == what Python computes calling the helper; helpers that cannot be
inlined stay calls by name (then the emitted lambda still mentions the helper's name)."""
import ast

import sem
from props import srcgen
from props.C04 import HEADER as DATA_HEADER

HELPERS = '''
def h_id(a):
    return a
def h_inc(a):
    return a + 1
def h_two(a, b):
    return a * 10 - b
def h_swap(x, y):
    return y - x
def h_cond(a, b):
    return a if a > b else b
def h_tuple(a, b):
    return (a, b)[1]
def h_attr(o):
    return o.x + o.y
def h_shadow(a):
    return (lambda a: a + 1)(a * 2)
def h_shadow2(a, seq):
    return seq.Select(lambda a: a.pt + 1).Count() + a
def h_nested_same(a, seq):
    return seq.Where(lambda j: j.pt > a).Select(lambda a: a.pt)
def h_deep1(a):
    return h_inc(a) * 2
def h_deep2(a, b):
    return h_deep1(a) + h_two(b, a)
def h_deep3(a):
    return h_deep2(h_inc(a), a)
def h_doc(a):
    "a docstring"
    return a - 1
def h_default(a, b=5):
    return a + b
def h_jets(e):
    return e.jets
def h_sel(seq, w):
    return seq.Select(lambda j: j.pt * w)
H_OFF = -2
H_SCALE = 3
def h_glob(a):
    return a * H_SCALE + H_OFF
def h_glob2(a):
    return h_glob(a) - H_OFF
def _mk_closure(k):
    def h_clo(a):
        return a + k
    return h_clo
h_clo5 = _mk_closure(5)
h_clo7 = _mk_closure(7)
def h_rec(a):
    return a if a < 1 else h_rec(a - 1)
l_inc = lambda a: a + 1
l_two = lambda a, b: a - b
l_id = lambda a: a
def h_multi(a):
    b = a + 1
    return b
# helpers whose parameters are not all plain positional ones, a parameter named like another
# helper, a decorated helper: inlined faithfully or left as calls by name
def h_kwo(x, *, k=2):
    return x * k
def h_pos(a, /, b=1):
    return a + b
def h_var(x, *rest):
    return (x, rest)[0] + 1
def h_in(y):
    return h_inc(y)
def h_out(h_inc):
    return h_in(h_inc)
# a lambda nested inside another un-called lambda in the helper's body, the innermost one using the
# helper's parameter and named like the use site's binder (seed C05_g: only the innermost frame was
# consulted for the names that must not be captured)
def h_hard(ev):
    return ev.jets.Select(lambda j: j.tracks.Select(lambda t: t.pt > ev.x))
def h_hard2(ev, cut):
    return ev.jets.Select(lambda j: j.tracks.Where(lambda a: a.pt > cut).Select(lambda t: t.pt + ev.y))
def h_in2(y):
    return h_multi(y)
def h_out2(h_multi):
    return h_in2(h_multi)
import functools
def _twice(f):
    @functools.wraps(f)
    def w(a):
        return 2 * f(a)
    return w
@_twice
def h_wrapped(a): return a + 3
'''

# lambdas using the helpers; second item: may the helper stay un-inlined (call by name)?
CASES = [
    "lambda e: h_id(e.x)", "lambda e: h_id(e).x", "lambda e: h_inc(e.x)", "lambda e: h_inc(h_inc(e.x))",
    "lambda e: h_two(e.x, e.y)", "lambda e: h_two(e.y, e.x)", "lambda e: h_two(b=e.y, a=e.x)",
    "lambda e: h_two(e.x, b=e.y)", "lambda e: h_swap(e.x, e.y)", "lambda x: h_swap(3, x.x)",
    "lambda x: h_swap(x.y, x.x)", "lambda y: h_swap(y.x, y.y)", "lambda a: h_two(a.y, a.x)",
    "lambda b: h_two(b.x, b.y)", "lambda e: h_cond(e.x, e.y)", "lambda e: h_tuple(e.x, e.y)",
    "lambda e: h_attr(e)", "lambda o: h_attr(o)",
    "lambda e: h_shadow(e.x)", "lambda a: h_shadow(a.x)",
    "lambda e: h_shadow2(e.x, e.jets)", "lambda a: h_shadow2(a.x, a.jets)",
    "lambda e: h_nested_same(e.y, e.jets)", "lambda j: h_nested_same(j.y, j.jets)",
    "lambda e: h_deep1(e.x)", "lambda e: h_deep2(e.x, e.y)", "lambda e: h_deep3(e.x)",
    "lambda a: h_deep3(a.x)", "lambda e: h_doc(e.x)", "lambda e: h_default(e.x)",
    "lambda e: h_default(e.x, 2)", "lambda e: h_default(e.x, b=e.y)",
    "lambda e: h_jets(e).Select(lambda j: j.pt)", "lambda e: h_sel(e.jets, e.x)",
    "lambda e: h_sel(h_jets(e), h_inc(e.x))", "lambda j: h_sel(j.jets, j.x)",
    "lambda w: h_sel(w.jets, w.x)", "lambda e: e.jets.Select(lambda j: h_two(j.pt, e.x))",
    "lambda e: e.jets.Select(lambda a: h_two(a.pt, e.x))",
    "lambda e: e.jets.Select(lambda a: h_inc(a.pt)).Count() + h_id(e.x)",
    "lambda e: l_inc(e.x)", "lambda e: l_two(e.x, e.y)", "lambda e: l_id(e).y",
    "lambda a: l_two(a.y, a.x)", "lambda e: h_inc(e.x) - h_inc(7)", "lambda e: h_two(e.x, 2) - h_two(7, e.x)",
    "lambda e: h_two(h_two(e.x, e.y), h_two(e.y, e.x))", "lambda e: [h_inc(j.pt) for j in e.jets]",
    "lambda e: h_multi(e.x)",
    "lambda e: h_glob(e.x)", "lambda e: h_glob2(e.y) + h_glob(e.x)", "lambda e: h_clo5(e.x) - h_clo7(e.y)",
    "lambda e: e.jets.Select(lambda j: h_glob(j.pt))", "lambda H_OFF: h_glob(H_OFF.x)",
    "lambda e: h_kwo(e.x)", "lambda e: h_kwo(e.x, k=e.y)", "lambda e: h_pos(e.x)", "lambda e: h_pos(e.x, 4)",
    "lambda e: h_var(e.x)", "lambda e: h_var(e.x, e.y)", "lambda e: h_out(e.x)", "lambda e: h_wrapped(e.x)",
    "lambda e: h_two(*(e.x, e.y))", "lambda e: h_out2(e.x)",
    "lambda t: h_hard(t)", "lambda j: h_hard(j)", "lambda t: h_hard2(t, t.x)", "lambda a: h_hard2(a, a.y)",
    "lambda j: h_hard2(j, j.x)",
]


# ---- random helpers and use sites (seeded) ------------------------------------------------------
class RandHelpers:
    """Integer-valued single-return helpers g0..gN (parameters from a small pool so that names
    collide with use-site binders, defaults, calls to earlier helpers by position / keyword,
    nested and called lambdas, module globals) and lambdas that use them on the DATA objects."""

    POOL = ["a", "b", "x", "e", "j"]

    def __init__(self, rng, n):
        self.rng = rng
        self.sigs = []          # (name, [param], n_defaults)
        self.defs = []
        for i in range(n):
            self.defs.append(self.make(i))

    def intx(self, names, d, helpers=True):
        r = self.rng
        opts = [lambda: str(r.randint(0, 4))]
        if names:
            opts += [lambda: r.choice(names)] * 4
        opts += [lambda: r.choice(["H_OFF", "H_SCALE"])]
        if d > 0:
            opts += [lambda: f"({self.intx(names, d - 1)} {r.choice(['+', '-', '*'])} {self.intx(names, d - 1)})",
                     lambda: f"({self.intx(names, d - 1)} if {self.intx(names, d - 1)} > {self.intx(names, d - 1)} else {self.intx(names, d - 1)})",
                     lambda: f"({self.intx(names, d - 1)}, {self.intx(names, d - 1)})[{r.randint(0, 1)}]",
                     lambda: self.called(names, d - 1)]
            if helpers and self.sigs:
                opts += [lambda: self.call(names, d - 1)] * 3
        if d > 0 and r.random() < 0.6:
            opts = opts[-(4 + (3 if helpers and self.sigs else 0)):]      # prefer compound forms
        return r.choice(opts)()

    def called(self, names, d):
        p = self.rng.choice(self.POOL)
        return f"(lambda {p}: {self.intx([n for n in names if n != p] + [p], d)})({self.intx(names, d)})"

    def call(self, names, d, arg=None):
        r = self.rng
        name, params, ndef = r.choice(self.sigs)
        arg = arg or (lambda: self.intx(names, d, helpers=r.random() < 0.4))
        k = len(params)
        given = k if ndef == 0 or r.random() < 0.5 else k - r.randint(1, ndef)
        vals = [arg() for _ in range(given)]
        npos = r.randint(0, given)
        parts = vals[:npos] + [f"{params[i]}={vals[i]}" for i in range(npos, given)]
        if npos < given and r.random() < 0.5:
            kw = parts[npos:]
            r.shuffle(kw)
            parts = parts[:npos] + kw
        return f"{name}({', '.join(parts)})"

    def make(self, i):
        r = self.rng
        k = r.randint(1, 3)
        params = r.sample(self.POOL, k)
        ndef = r.randint(0, k - 1) if r.random() < 0.4 else 0
        body = self.intx(params, r.randint(2, 3))
        ps = [p if j < k - ndef else f"{p}={r.randint(1, 6)}" for j, p in enumerate(params)]
        self.sigs.append((f"g{i}", params, ndef))
        return f"def g{i}({', '.join(ps)}):\n    return {body}\n"

    def use(self):
        """a lambda over one DATA object calling the helpers"""
        r = self.rng
        v = r.choice(self.POOL + ["v"])
        leaf = lambda: r.choice([f"{v}.x", f"{v}.y", str(r.randint(0, 3))])
        kind = r.randrange(4)
        if kind == 0:
            return f"lambda {v}: {self.call([], 1, leaf)}"
        if kind == 1:
            return f"lambda {v}: {self.call([], 1, leaf)} - {self.call([], 1, leaf)}"
        w = r.choice(self.POOL)
        if w == v:
            w = "q"
        inner_leaf = lambda: r.choice([f"{w}.pt", f"{v}.x", f"{w}.eta", str(r.randint(0, 3))])
        if kind == 2:
            return f"lambda {v}: {v}.jets.Select(lambda {w}: {self.call([], 1, inner_leaf)})"
        return (f"lambda {v}: {v}.jets.Where(lambda {w}: {self.call([], 1, inner_leaf)} > {leaf()})"
                f".Count() + {self.call([], 1, leaf)}")


def random_cases(rng, n_helpers, n_uses):
    rh = RandHelpers(rng, n_helpers)
    uses, seen = [], set()
    for _ in range(n_uses * 3):
        u = rh.use()
        if u not in seen and len(u) < 300:
            seen.add(u)
            uses.append(u)
        if len(uses) >= n_uses:
            break
    return "".join(rh.defs), uses


def run(t):
    t.rules.append("single-return helper functions and lambdas defined in a generated module "
                   "(bodies: a bare parameter, arithmetic, conditional, projection, attribute "
                   "access, nested lambdas re-using a parameter name, operators over a sequence "
                   "argument, helpers calling helpers to depth 3, docstring, defaults) x call "
                   "shapes (positional, keyword, re-ordered, partially keyword, defaulted) x "
                   "argument expressions that mention names bound inside the helper or equal to "
                   "its parameters, the same helper used twice; oracle = Python calling the "
                   "helper; non-trivial = a helper with >= 1 parameter is called; distinct by text")
    quick = t.tier == "quick"
    rdefs, ruses = random_cases(t.rng, 8 if quick else 40, 40 if quick else 1500)
    cases = list(CASES) + ruses
    t.bounds.append(f"{len(ruses)} random use sites over {8 if quick else 40} random helpers (seeded)")
    parts = [srcgen.PRELUDE, DATA_HEADER, HELPERS, rdefs]
    for i, lam in enumerate(cases):
        parts.append(srcgen.case_block(i, f"ds.Select({lam})"))
        parts.append(f"_native({i}, ({lam}))\n")
    mod = srcgen.run_module("".join(parts), "c05")
    helper_env = {k: getattr(mod, k) for k in dir(mod)
                  if k.startswith(("h_", "l_", "H_")) or (k[0] == "g" and k[1:].isdigit())}
    for rec in mod.R:
        i = rec[0]
        lam = cases[i]
        t.case("C05:" + lam, True, sample=lam)
        rp = {"kind": "C05", "lam": lam}
        t.contract("Select: sem(emitted lambda) == Python calling the helper")
        if rec[1] == "err":
            if "h_multi" in lam and isinstance(rec[2], ValueError):
                continue
            t.violation("Select:no-exception for a single-return helper",
                        f"raises {type(rec[2]).__name__}: {str(rec[2])[:80]}", lam, "a query",
                        repr(rec[2])[:160], rp)
            continue
        emitted = rec[2].query_ast.args[1]
        for d, nat in zip(mod.DATA, mod.NATIVE[i]):
            if nat[0] != "ok":
                continue
            # helpers that were left as calls by name are looked up by name (allowed)
            env = dict(helper_env)
            env["d0"] = d
            got = sem.run(ast.Call(emitted, [ast.Name("d0", ast.Load())], []), env)
            want = ("ok", sem.force(nat[1]))
            if got != want:
                t.violation("Select:ensures sem(emitted lambda) == native call of the helper",
                            "inlined helper computes something else", lam, want,
                            f"{got} via {ast.unparse(emitted)}", rp)
                break
    t.bounds.append(f"{len(CASES)} directed lambdas over 23 helpers, 3 data objects")


def replay(payload, t):
    run(t)
    return not [v for v in t.violations if v["replay"].get("lam") == payload.get("lam")]
