"""C06 — bounded contract check: comprehension and data-class sugar lowers to equivalent queries.
Contracts: sem(resolve_syntatic_sugar(l)) == what CPython computes for the comprehension;
convert_call_to_dict binds exactly as the constructor (inspect.Signature.bind as oracle) in field
order, raises ValueError for unknown / surplus arguments, tuple targets and async."""
import ast
import copy
import dataclasses
import inspect
import itertools
from typing import NamedTuple

import sem
from props import srcgen
from props.C04 import HEADER as DATA_HEADER

ELTS = ["{v}.pt", "{v}.pt + 1", "({v}.pt, {v}.eta)", "{v}.pt * e.x", "{v}", "e.y", "1"]
CONDS = ["{v}.pt > 0", "{v}.eta < 2", "{v}.pt != e.x", "True", "{v}.pt > e.y and {v}.eta > -3"]


def comp_sources(quick, rng):
    out = []
    for kind in ("[{body}]", "list({body})"):
        for elt in ELTS:
            for n_if in range(0, 4):
                for conds in itertools.permutations(CONDS[:4], n_if):
                    ifs = "".join(f" if {c.format(v='j')}" for c in conds)
                    body = f"{elt.format(v='j')} for j in e.jets{ifs}"
                    if kind.startswith("list"):
                        body = f"({body})"
                        out.append(f"lambda e: list{body}" if False else f"lambda e: {body}")
                    else:
                        out.append(f"lambda e: [{body}]")
    if quick:
        out = out[:40] + rng.sample(out[40:], 80)
    nested = [
        "lambda e: [[t.pt for t in j.tracks] for j in e.jets]",
        "lambda e: [[t.pt + j.pt for t in j.tracks if t.pt > 0] for j in e.jets if j.pt > 0]",
        "lambda e: [t for t in [j.pt for j in e.jets] if t > 1]",
        "lambda e: [j.pt for j in [k for k in e.jets if k.pt > 0]]",
        "lambda e: [j.pt for j in e.jets if len([t for t in j.tracks if t.pt > 0]) > 0]",
        "lambda e: [j.pt for j in e.jets if [t.pt for t in j.tracks if t.pt > j.pt]]" if False else
        "lambda e: [j.eta for j in e.jets if j.pt > e.x]",
        "lambda e: e.jets.Select(lambda j: [t.pt for t in j.tracks])",
        "lambda e: e.jets.Where(lambda j: len([t for t in j.tracks if t.pt > 0]) > 0).Count()",
        "lambda e: [e.x for j in e.jets]", "lambda e: [e for j in e.jets]",
        "lambda e: [[e.x for t in j.tracks] for j in e.jets]",
        "lambda e: [[j for t in j.tracks] for j in e.jets]",
        "lambda e: [e.pt for e in e.jets]", "lambda e: [[j.pt for j in j.tracks] for j in e.jets]",
        "lambda j: [j.pt for j in j.jets if j.pt > 0]",
        "lambda e: [x.pt for x in e.jets] + [x.eta for x in e.jets]" if False else
        "lambda e: ([x.pt for x in e.jets], [x.eta for x in e.jets if x.pt > 0])",
        "lambda e: (j.pt for j in e.jets)", "lambda e: sum_([j.pt for j in e.jets])" if False else
        "lambda e: len([j.pt for j in e.jets if j.pt > 0])",
        "lambda e: {'a': [j.pt for j in e.jets], 'b': e.x}",
        "lambda e: [j.pt if j.eta > 0 else -j.pt for j in e.jets]",
        "lambda e: [j.pt for j in e.jets.Where(lambda k: k.pt > 0)]",
        "lambda e: [(j.pt, [t.pt for t in j.tracks if t.pt > e.x]) for j in e.jets if j.eta > e.y]",
        # a loop variable named like a module global (j = 7, q = 11 exist), re-bound by a nested
        # comprehension in one `if` and used again in a later one (seed C06_h: leaving the inner
        # scope un-bound the name for the rest of the outer comprehension)
        "lambda e: [j.pt for j in e.jets if len([j for j in j.tracks if j.pt > 0]) >= 0 if j.pt > 0]",
        "lambda e: [q.pt + 1 for q in e.jets if len([q.pt for q in q.tracks]) >= 0 if q.eta < 2]",
        "lambda e: [(j.eta, len([j.pt for j in j.tracks])) for j in e.jets if j.pt > 0]",
        # ... with the name used BARE afterwards (an attribute of it would hide the replacement)
        "lambda e: [q * 2 for q in [k.pt for k in e.jets] if len([q for q in e.jets]) >= 0 if q > 1]",
        "lambda e: [j + 1 for j in [k.eta for k in e.jets] if len([j.pt for j in e.jets if j.pt > 0]) >= 0 if j < 2]",
        "lambda e: [(q, len([q for q in e.jets])) for q in [k.pt for k in e.jets] if q != e.x]",
        "lambda e: e.jets.Select(lambda q: [q.pt for q in q.tracks]).Select(lambda q: len(q))",
    ]
    return out + nested


BAD = ["lambda e: [a + b for a, b in e.pairs]", "lambda e: [j.pt for j in e.jets for t in j.tracks]"]


def dataclass_models():
    @dataclasses.dataclass
    class DC1:
        x: int

    @dataclasses.dataclass
    class DC3:
        x: int
        y: int = 2
        z: int = 3

    @dataclasses.dataclass
    class DC4:
        x: int
        y: int = 2
        z: int = 3
        t: int = 4

    class NT2(NamedTuple):
        a: int
        b: int = 7

    class NT4(NamedTuple):
        a: int
        b: int
        c: int = 1
        d: int = 2
    return [DC1, DC3, DC4, NT2, NT4]


def same_name_models():
    """Distinct record classes that share module and qualified name (a class built inside a helper
    that is called more than once) but declare different fields: every constructor call is bound
    by the signature of ITS class, whatever was lowered before in the same process (seed C06_e)."""
    def make(order, kind):
        if kind == "dc":
            return dataclasses.make_dataclass("Rec", [(n, int) for n in order])
        return NamedTuple("Rec", [(n, int) for n in order])
    out = []
    for kind in ("dc", "nt"):
        for order in (["pt", "eta"], ["eta", "pt"], ["eta", "phi", "pt"], ["pt", "eta"]):
            c = make(order, kind)
            c.__qualname__ = "same_name_models.<locals>.Rec"
            out.append(c)
    return out


def call_shapes(fields):
    out = []
    n = len(fields)
    for n_pos in range(n + 2):
        rest = fields[n_pos:]
        for k in range(min(len(rest), 3) + 1):
            for kws in itertools.permutations(rest, k):
                out.append((n_pos, list(kws)))
        out.append((n_pos, ["nope"]))
        if n_pos >= 1 and n_pos <= n:
            out.append((n_pos, [fields[0]]))     # keyword repeats a positionally bound field
    return out


def check_dataclass(t, cls, n_pos, kws, tag=""):
    from func_adl.ast.syntatic_sugar import resolve_syntatic_sugar
    fields = [f.name for f in dataclasses.fields(cls)] if dataclasses.is_dataclass(cls) \
        else list(cls._fields)
    args = [ast.parse(f"e.p{i}", mode="eval").body for i in range(n_pos)]
    kwn = [ast.keyword(arg=k, value=ast.parse(f"e.k_{k}", mode="eval").body) for k in kws]
    call = ast.Call(ast.Constant(value=cls), args, kwn)
    lam = ast.fix_missing_locations(ast.Lambda(
        ast.arguments(posonlyargs=[], args=[ast.arg("e")], kwonlyargs=[], kw_defaults=[], defaults=[]),
        call))
    key = f"C06:dc:{cls.__name__}{tag}:{n_pos}:{kws}"
    t.case(key, len(kws) > 0 and len(fields) >= 3, sample=f"{cls.__name__}({n_pos} positional, keywords {kws})")
    t.contract("convert_call_to_dict: keys bound exactly as the constructor binds them")
    rp = {"kind": "C06", "key": key}
    # oracle: python's own binding (without defaults: only the given arguments become keys)
    sig = inspect.signature(cls)
    try:
        ba = sig.bind_partial(*[f"e.p{i}" for i in range(n_pos)], **{k: f"e.k_{k}" for k in kws})
        expected = dict(ba.arguments)
        expected = {k: expected[k] for k in fields if k in expected}
    except TypeError:
        expected = "ValueError"
    before = ast.dump(call)
    try:
        r = resolve_syntatic_sugar(copy.deepcopy(lam))
        got_node = r.body
    except ValueError:
        got_node = "ValueError"
    except Exception as ex:
        t.violation("convert_call_to_dict:refusal is ValueError", f"raises {type(ex).__name__}",
                    key, expected, repr(ex)[:120], rp)
        return
    if expected == "ValueError":
        if got_node != "ValueError":
            t.violation("convert_call_to_dict:raises ValueError for unknown or surplus arguments",
                        "malformed constructor call accepted", key, "ValueError",
                        ast.unparse(got_node), rp)
        return
    if got_node == "ValueError":
        t.violation("convert_call_to_dict:raises ValueError only for malformed uses",
                    "a call Python accepts was refused", key, expected, "ValueError", rp)
        return
    if not isinstance(got_node, ast.Dict):
        t.violation("convert_call_to_dict:ensures result is a Dict", "not lowered", key, expected,
                    ast.unparse(got_node), rp)
        return
    # the spec function of the deductive proof (lower_sugar with its record-constructor case), run
    # natively, against the real code - and its refusal predicate against Python's own binding
    import sugar as spec_sugar
    import specrt
    t.contract("resolve_syntatic_sugar == lower_sugar (spec, native) on record constructors")
    want_node = spec_sugar.lower_sugar(copy.deepcopy(lam)).body
    if not specrt.same(got_node, want_node) or spec_sugar.dc_bad(call, fields):
        t.violation("syntax_transformer.visit_Call:ensures same(result, lower_sugar(node))",
                    "the lowering differs from the spec function the proof refers to", key,
                    ast.unparse(want_node), ast.unparse(got_node), rp)
        return
    got = {ast.literal_eval(k): ast.unparse(v) for k, v in zip(got_node.keys, got_node.values)}
    if got != expected or list(got.keys()) != list(expected.keys()):
        t.violation("convert_call_to_dict:ensures keys/values == Signature.bind(call), field order",
                    "dictionary does not bind the arguments as the constructor does", key,
                    expected, got, rp)


def run(t):
    from func_adl import EventDataset
    rng = t.rng
    quick = t.tier == "quick"
    t.rules.append("single-for comprehensions / generator expressions: 7 element expressions x 0..3 "
                   "if-clauses in every order, nested in element / iterable / condition position and "
                   "inside operator lambdas, targets colliding with outer names; oracle = CPython "
                   "evaluating the comprehension on lists; dataclass / NamedTuple models with 1..4 "
                   "fields x every positional count x keyword subsets in every order x unknown / "
                   "surplus / repeated arguments, oracle = inspect.Signature.bind; tuple targets and "
                   "multi-for are refused; non-trivial = >= 1 if-clause or nesting / >= 3 fields "
                   "with keywords; distinct by text")
    comps = comp_sources(quick, rng)
    n_str = len(comps)
    # the comprehensions that nest or re-bind names are ALSO given as Python callables: the capture
    # pass runs before the lowering and has to respect the same binders (seed C06_h); the module
    # has globals j, q, e2 with the names of loop variables
    comps = comps + [c for c in comps if c.count(" for ") > 1 and "'" not in c]
    parts = [srcgen.PRELUDE, DATA_HEADER]
    for i, lam in enumerate(comps):
        if i < n_str:
            parts.append(srcgen.case_block(i, f"ds.Select({lam!r})"))      # string lambdas
        else:
            parts.append(srcgen.case_block(i, f"ds.Select({lam})"))        # callables
        parts.append(f"_native({i}, ({lam}))\n")
    mod = srcgen.run_module("".join(parts), "c06")
    for rec in mod.R:
        i = rec[0]
        lam = comps[i]
        form = "str" if i < n_str else "callable"
        t.case(f"C06:{form}:" + lam, " if " in lam or lam.count(" for ") > 1, sample=lam)
        rp = {"kind": "C06", "key": lam}
        t.contract("resolve_syntatic_sugar: sem(lowered) == CPython's comprehension")
        if rec[1] == "err":
            t.violation("resolve_syntatic_sugar:no-exception on a single-for comprehension",
                        f"raises {type(rec[2]).__name__}: {str(rec[2])[:80]}", lam, "a query",
                        repr(rec[2])[:140], rp)
            continue
        emitted = rec[2].query_ast.args[1]
        left = [n for n in ast.walk(emitted) if isinstance(n, (ast.ListComp, ast.GeneratorExp))]
        if left:
            t.violation("resolve_syntatic_sugar:ensures no comprehension is left",
                        "a comprehension survived the lowering", lam, None, ast.unparse(emitted), rp)
            continue
        for d, nat in zip(mod.DATA, mod.NATIVE[i]):
            if nat[0] != "ok":
                continue
            got = sem.run(ast.Call(emitted, [ast.Name("d0", ast.Load())], []), {"d0": d})
            val = nat[1]
            if hasattr(val, "__next__"):
                continue
            want = ("ok", sem.force(val))
            if got != want:
                t.violation("resolve_syntatic_sugar:ensures sem(lowered) == comprehension value",
                            "lowered query computes another sequence", lam, want,
                            f"{got} via {ast.unparse(emitted)}", rp)
                break
    from func_adl.ast.syntatic_sugar import resolve_syntatic_sugar
    # the spec function of the deductive proof (lower_sugar), run natively, against the real code
    import sugar as spec_sugar
    import specrt
    multi = ["lambda e: [x.pt + y.pt for x in e.jets for y in x.tracks]",
             "lambda e: [y.pt for x in e.jets if x.pt > 1 for y in x.tracks if y.pt > 0 if y.pt < 9]",
             "lambda e: [[y.pt for y in x.tracks] for x in e.jets if x.eta > 0]",
             "lambda e: Sum(x.pt for x in e.jets if x.pt > [t.pt for t in x.tracks][0])"]
    for lam in list(comps) + multi:
        t.case("C06:spec:" + lam, lam.count(" for ") > 1, sample=lam)
        t.contract("resolve_syntatic_sugar == lower_sugar (spec, native), structurally")
        tree = ast.parse(lam, mode="eval").body
        try:
            want = spec_sugar.lower_sugar(copy.deepcopy(tree))
        except NotImplementedError:
            continue
        got = resolve_syntatic_sugar(copy.deepcopy(tree))
        if not specrt.same(got, want):
            t.violation("resolve_syntatic_sugar:ensures same(result, lower_sugar(a))",
                        "the lowering differs from the spec", lam, ast.unparse(want),
                        ast.unparse(got), {"kind": "C06", "key": lam})
    for lam in BAD:
        t.case("C06:bad:" + lam, True)
        t.contract("resolve_syntatic_sugar: tuple targets / multi-for handled")
        try:
            r = resolve_syntatic_sugar(ast.parse(lam, mode="eval").body)
            if "a, b" in lam:
                t.violation("resolve_generator:raises ValueError for a tuple target", "accepted", lam,
                            "ValueError", ast.unparse(r), {"kind": "C06", "key": lam})
        except ValueError:
            pass
    for cls in dataclass_models():
        fields = [f.name for f in dataclasses.fields(cls)] if dataclasses.is_dataclass(cls) \
            else list(cls._fields)
        shapes = call_shapes(fields)
        for n_pos, kws in shapes:
            check_dataclass(t, cls, n_pos, kws)
    for cls in same_name_models():
        fields = [f.name for f in dataclasses.fields(cls)] if dataclasses.is_dataclass(cls) \
            else list(cls._fields)
        for n_pos, kws in ((len(fields), []), (1, [fields[-1]]), (0, list(reversed(fields)))):
            check_dataclass(t, cls, n_pos, kws, tag="#" + "".join(f[0] for f in fields))
    t.bounds.append(f"{len(comps)} comprehension lambdas, 5 class models, 8 same-named record classes")


def replay(payload, t):
    run(t)
    return not [v for v in t.violations if v["replay"].get("key") == payload.get("key")]
