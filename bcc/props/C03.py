"""C03 — bounded contract check: source recovery returns the lambda that was actually passed.
Contract on parse_as_ast(callable, caller): the recorded lambda is structurally the lambda the
generator wrote at that call (a sufficient condition for behavioural identity), or the library
raises; documented layouts must be recovered without error.  The tokenizer heuristic is outside
any verifier here (DESIGN §5): this property is claimed at the bounded level only."""
import ast
import itertools
import textwrap

from props import srcgen

BODIES = ["{v}.a", "{v}.b > 1", "{v}.c + 1", "({v}.a, {v}.b)", "{v}.jets.Select(lambda {w}: {w}.pt)",
          "{v}.name == 'lambda q: (q,'", "{v}.d[0]", "f({v}.a, k={v}.b)",
          "{v}.jets.Where(lambda {w}: {w}.pt > {v}.a).Count()"]


BOOLS = ["{v}.b > 1", "{v}.a == {v}.c", "{v}.name == 'lambda q: (q,'",
         "{v}.jets.Where(lambda {w}: {w}.pt > {v}.a).Count() > 0", "{v}.a > 1 and {v}.b < 2"]


def L(v, i, w=None, boolean=False):
    pool = BOOLS if boolean else BODIES
    return "lambda {v}: ".format(v=v) + pool[i % len(pool)].format(v=v, w=w or "j")


def layouts(quick, rng):
    """(code, intended [(method, lambda text)], must_succeed, label)"""
    out = []
    ops = ["Select", "Where", "SelectMany"]
    k = itertools.count()

    def nxt():
        return next(k)
    for rep in range(2 if quick else 6):
        i = nxt()
        # 1. one lambda per call
        for op in ops:
            lam = L('e', i, boolean=(op == "Where"))
            out.append((f"ds.{op}({lam})", [(op, lam)], True, "one-per-line"))
        # 2. several calls on a line, different methods, same arg names
        a, b, c = L('e', i), L('e', i + 1, boolean=True), L('e', i + 2)
        out.append((f"ds.Select({a}).Where({b})", [("Select", a), ("Where", b)], True, "line:methods-differ"))
        out.append((f"ds.Where({b}).SelectMany({c}).Select({a})",
                    [("Where", b), ("SelectMany", c), ("Select", a)], True, "line:3-methods-differ"))
        # 3. same method, different arg names
        a, b = L('x', i), L('y', i + 3)
        out.append((f"ds.Select({a}).Select({b})", [("Select", a), ("Select", b)], True, "line:args-differ"))
        # 4. same method, same arg names on one line: ambiguous -> may raise, never wrong
        a, b = L('x', i), L('x', i + 1)
        out.append((f"ds.Select({a}).Select({b})", [("Select", a), ("Select", b)], False, "line:ambiguous"))
        # 5. black-style wrapped chain
        a, b, c = L('e', i), L('e', i + 1, boolean=True), L('e', i + 4)
        out.append((f"(\n    ds.Select({a})\n    .Where({b})\n    .Select({c})\n)",
                    [("Select", a), ("Where", b), ("Select", c)], True, "black-wrapped"))
        out.append((f"(\n    ds.Select({a})\n    .Select({c})\n    .Where({b})\n)",
                    [("Select", a), ("Select", c), ("Where", b)], True, "black-wrapped:same-method-lines"))
        # 6. multi-line bodies
        out.append((f"ds.Select(lambda e: (\n    e.a,\n    e.b + {i},\n))",
                    [("Select", f"lambda e: (e.a, e.b + {i})")], True, "multi-line-body"))
        out.append((f"ds.Select(\n    lambda e: e.a + {i}\n)", [("Select", f"lambda e: e.a + {i}")], True,
                    "break-after-paren"))
        out.append((f"ds.Select(\n    lambda e: e.jets.Select(\n        lambda j: j.pt + {i}\n    )\n)",
                    [("Select", f"lambda e: e.jets.Select(lambda j: j.pt + {i})")], True,
                    "break-nested"))
        out.append((f"ds.Where(lambda e: e.a > {i} and\n         e.b < 2)",
                    [("Where", f"lambda e: e.a > {i} and e.b < 2")], True, "break-in-body"))
        # 8. comments and strings with code-like content
        out.append((f"ds.Select(lambda e: e.name == \"lambda x: (x,\")  # lambda y: y.b, (",
                    [("Select", "lambda e: e.name == 'lambda x: (x,'")], True, "comment+string"))
        out.append((f"ds.Select(lambda e: (e.a, ')', '[lambda') )  # ) lambda e: e.zz",
                    [("Select", "lambda e: (e.a, ')', '[lambda')")], True, "brackets-in-strings"))
        out.append((f"ds.Select(  # a comment, with (brackets\n    lambda e: e.a - {i}  # lambda e: e.b\n)",
                    [("Select", f"lambda e: e.a - {i}")], True, "comments-between"))
        # 10. nested lambdas with equal argument names, then another call on a continuation line
        a = f"lambda x: x.jets.Select(lambda x: x.pt + {i})"
        b = f"lambda x: x.b + {i}"
        out.append((f"(\n    ds.Select({a})\n    .Select({b})\n)", [("Select", a), ("Select", b)], False,
                    "nested-same-name+continuation"))
        out.append((f"ds.Select({a})", [("Select", a)], False, "nested-same-name"))
        out.append((f"ds.Select(lambda x: x.jets.Select(lambda y: y.pt + {i})).Select(lambda y: y + 1)",
                    [("Select", f"lambda x: x.jets.Select(lambda y: y.pt + {i})"), ("Select", "lambda y: y + 1")],
                    False, "inner-name-equals-later-arg"))
        # 12. the passed lambda is not the one directly after the method name
        a, b = L('e', i), L('f', i + 1)
        out.append((f"ds.Select(({a}) if False else ({b}))", [("Select", b)], False, "conditional-else"))
        out.append((f"ds.Select(({a}) if True else ({b}))", [("Select", a)], False, "conditional-then"))
        out.append((f"ds.Select(f={b})", [("Select", b)], False, "keyword-argument"))
        out.append((f"ds.Select(ident({b}))", [("Select", b)], False, "through-wrapper"))
        out.append((f"ds.Select(ident2({a}, {b}))", [("Select", b)], False, "wrapper-picks-second"))
        # lambda on the previous physical line of the same expression, same method, same args
        out.append((f"ds.Select(lambda x: x.a + {i}).Select(\n    lambda x: x.b + {i}\n)",
                    [("Select", f"lambda x: x.a + {i}"), ("Select", f"lambda x: x.b + {i}")], False,
                    "first-token-on-line:same-args"))
        out.append((f"ds.Select(lambda x: x.a + {i}).Select(\n    lambda y: y.b + {i}\n)",
                    [("Select", f"lambda x: x.a + {i}"), ("Select", f"lambda y: y.b + {i}")], True,
                    "first-token-on-line:args-differ"))
        out.append((f"ds.Select(lambda x: x.a + {i}).SelectMany(\n    lambda x: x.jets\n)",
                    [("Select", f"lambda x: x.a + {i}"), ("SelectMany", "lambda x: x.jets")], True,
                    "first-token-on-line:methods-differ"))
        # the method name ends a line, its bracket opens the next; an equal-looking lambda sits on
        # the line the scan backs up to (repaired by 7e3b1db: used to record that earlier lambda)
        out.append((f"(ds\n.Select\n(lambda x: x.a + {i}).Select\n(lambda\n x: x.name == 'n')\n)",
                    [("Select", f"lambda x: x.a + {i}"), ("Select", "lambda x: x.name == 'n'")], False,
                    "name-then-newline:same-args"))
        out.append((f"(ds\n  .SelectMany(lambda e: e  # lambda z: z.q, (\n        .a).Select(lambda e: (e.a, e.b + {i})).Select  # ) ]\n"
                    f"    (lambda e: e  # lambda z: z.q, (\n        .jets)\n)",
                    [("SelectMany", "lambda e: e.a"), ("Select", f"lambda e: (e.a, e.b + {i})"),
                     ("Select", "lambda e: e.jets")], False, "name-then-newline:comments"))
        # comment-only and blank physical lines between the bracket and the lambda (token rows and
        # physical lines must stay in step: seed C03_e), alone and with an equal-looking call on
        # the following line
        out.append((f"ds.Select(\n    # note (lambda q: q,\n    lambda e: e.a + {i}\n)",
                    [("Select", f"lambda e: e.a + {i}")], True, "comment-only-line"))
        out.append((f"ds.Select(\n\n    lambda e: e.a + {i}\n)",
                    [("Select", f"lambda e: e.a + {i}")], True, "blank-line"))
        out.append((f"(ds.Select(\n    # note\n    lambda e: e.a + {i})\n    .Select(lambda e: e.b + {i}))",
                    [("Select", f"lambda e: e.a + {i}"), ("Select", f"lambda e: e.b + {i}")], False,
                    "comment-only-line:same-args-next-line"))
        out.append((f"(ds.Select(\n\n    lambda e: e.a + {i})\n    .Select(lambda e: e.b + {i}))",
                    [("Select", f"lambda e: e.a + {i}"), ("Select", f"lambda e: e.b + {i}")], False,
                    "blank-line:same-args-next-line"))
        out.append((f"(ds.Where(\n    # c1\n\n    # c2\n    lambda e: e.a > {i})\n    .Where(lambda e: e.b > {i})\n    .Where(lambda e: e.c > {i}))",
                    [("Where", f"lambda e: e.a > {i}"), ("Where", f"lambda e: e.b > {i}"),
                     ("Where", f"lambda e: e.c > {i}")], False, "comment+blank-lines:same-args-next-lines"))
        out.append((f"(ds.Where(lambda e: e.pt > {i}).Where\n(lambda e: e.pt > 5)\n)",
                    [("Where", f"lambda e: e.pt > {i}"), ("Where", "lambda e: e.pt > 5")], False,
                    "name-then-newline:where"))
    return out


def random_layouts(rng, n):
    """Random chains (1..3 operator calls, argument names from a pool of three so that they
    collide, bodies with nested lambdas of equal or different names and lambda-like strings) laid
    out with random line breaks between ANY two tokens inside the enclosing parentheses, random
    indentation and code-like comments.  Such layouts may be refused; they must never record a
    different lambda."""
    import io
    import tokenize
    out = []
    ops = ["Select", "Where", "SelectMany"]
    for _ in range(n):
        k = rng.randint(1, 3)
        stages = []
        for _s in range(k):
            op = rng.choice(ops)
            v = rng.choice(["x", "y", "e"])
            w = v if rng.random() < 0.3 else rng.choice(["j", "x", "y"])
            lam = L(v, rng.randrange(40), w=w, boolean=(op == "Where"))
            stages.append((op, lam))
        flat = "(ds" + "".join(f".{op}({lam})" for op, lam in stages) + ")"
        toks = list(tokenize.generate_tokens(io.StringIO(flat).readline))
        pieces = []
        p_break = rng.choice([0.05, 0.15, 0.35])
        prev_end = 0
        for i, tk in enumerate(toks):
            if tk.type in (tokenize.ENDMARKER, tokenize.NEWLINE, tokenize.NL):
                continue
            gap = flat[prev_end:tk.start[1]] if tk.start[0] == 1 else " "
            if 0 < i and pieces and rng.random() < p_break and tk.string != ")" or \
                    (pieces and tk.string == "." and rng.random() < 0.5):
                cm = rng.choice(["", "", "  # lambda z: z.q, (", "  # ) ]"])
                # now and then whole physical lines that carry no code token
                extra = rng.choice(["", "", "", "\n", "\n    # only a comment", "\n\n  # lambda q: (q"])
                gap = cm + extra + "\n" + " " * rng.choice([0, 2, 4, 8])
            pieces.append(gap + tk.string)
            prev_end = tk.end[1]
        code = "".join(pieces)
        try:
            ast.parse(code, mode="eval")
        except SyntaxError:
            continue
        out.append((code, stages, False, "random-layout"))
    return out


CONTEXTS = [
    ("top", "{stmt}"),
    ("def", "def _ctx{n}():\n    return {stmt}\n_r = _ctx{n}()"),
    ("class", "class _C{n}:\n    def m(self):\n        return {stmt}\n_r = _C{n}().m()"),
    ("if", "if True:\n    if 1 == 1:\n        _r = {stmt}"),
    ("decorated", "@deco\ndef _ctx{n}():\n    x = 1\n    return {stmt}\n_r = _ctx{n}()"),
    ("listcomp", "_r = [{stmt} for _ in range(1)][0]"),
    # the call sits on the line of a one-line def (repaired defect: the enclosing function was
    # recorded instead of the lambda); used for single-line layouts only
    ("def1", "def _ctx{n}(): return {stmt}\n_r = _ctx{n}()"),
]


def render(n, code, ctx_tmpl):
    """Place a (possibly multi-line) expression into a context, re-indenting continuation lines."""
    head = ctx_tmpl.split("{stmt}")[0]
    last_line = head.split("\n")[-1]
    indent = len(last_line) - len(last_line.lstrip())
    lines = code.split("\n")
    body = lines[0] + "".join("\n" + " " * indent + ln for ln in lines[1:])
    txt = ctx_tmpl.format(stmt=body, n=n)
    if "_r = " not in txt:
        txt = "_r = " + txt
    return txt


def lambdas_of_chain(q):
    out = []
    while isinstance(q, ast.Call) and isinstance(q.func, ast.Name) and len(q.args) == 2:
        out.append((q.func.id, q.args[1]))
        q = q.args[0]
    return list(reversed(out))


def run(t):
    rng = t.rng
    quick = t.tier == "quick"
    t.rules.append("generated source files: layouts (one lambda per call; several calls on a line "
                   "told apart by method name / argument names / ambiguous; black-style wrapped "
                   "chains; multi-line bodies; line breaks after the parenthesis and inside bodies; "
                   "comments and strings containing `lambda`, brackets, commas; nested lambdas with "
                   "equal argument names on the first or a continuation line; lambdas behind a "
                   "conditional, a keyword, a wrapper; lambda as first token of a physical line) x "
                   "enclosing contexts (top level, def, class method, nested if, decorated def, "
                   "comprehension) = indentation 0..3, plus one-line defs; non-trivial = at least "
                   "two lambdas compete on the scanned lines; distinct by (context, layout text)")
    lays = layouts(quick, rng)
    rl = random_layouts(rng, 60 if quick else 3000)
    t.bounds.append(f"{len(rl)} random layouts (seeded)")
    lays = lays + rl
    parts = [srcgen.PRELUDE,
             "def ident(f):\n    return f\ndef ident2(a, b):\n    return b\ndef deco(f):\n    return f\n"
             "def f1(e): return e.a + 1\ndef f2(e):\n    'doc'\n    return e.b\n"]
    index = []
    n = 0
    for code, intended, must, label in lays:
        ctxs = CONTEXTS if not quick else [CONTEXTS[n % len(CONTEXTS)], CONTEXTS[(n + 3) % len(CONTEXTS)]]
        if quick and "\n" not in code and label in ("one-per-line", "line:methods-differ", "line:args-differ"):
            ctxs = ctxs + [CONTEXTS[-1]]
        for cname, ctmpl in ctxs:
            if cname == "def1" and "\n" in code:
                continue
            if "  #" in code and cname == "listcomp":
                continue       # a trailing comment cannot sit inside a one-line comprehension
            txt = render(n, code, ctmpl)
            block = "try:\n" + textwrap.indent(txt, "    ") + f"\n    R.append(({n}, 'ok', _r))\n" \
                    f"except Exception as _ex:\n    R.append(({n}, 'err', _ex))\n"
            parts.append(block)
            index.append((n, code, intended, must, f"{label}@{cname}"))
            n += 1
    # one-line defs and named functions
    for fname, want in (("f1", "lambda e: e.a + 1"), ("f2", "lambda e: e.b")):
        parts.append(srcgen.case_block(n, f"ds.Select({fname})"))
        index.append((n, f"ds.Select({fname})", [("Select", want)], True, "one-line-def"))
        n += 1
    # the same lambda expression (one source location, one code object) passed several times with
    # other captured values: every time the recorded lambda is the callable passed THAT time (seed
    # C03_h: recovered lambdas cached per code object, with the first call's values baked in)
    parts.append("def _bq(cut, lo):\n    return ds.Where(lambda x: x.a > cut and x.b < lo)\n")
    for cut, lo in ((10, 1), (20, 2), (10, 1), (5, 0)):
        parts.append(srcgen.case_block(n, f"_bq({cut}, {lo})"))
        index.append((n, f"_bq({cut}, {lo})", [("Where", f"lambda x: x.a > {cut} and x.b < {lo}")], True,
                      "same-lambda-other-captures"))
        n += 1
    # a function behind a functools.wraps decorator computes something else than its own source
    # says: it may be refused, the undecorated body must never be recorded (repaired defect)
    parts.append("import functools\ndef _dbl(f):\n    @functools.wraps(f)\n    def w(e):\n        return 2 * f(e)\n    return w\n"
                 "@_dbl\ndef f3(e): return e.a + 3\n")
    parts.append(srcgen.case_block(n, "ds.Select(f3)"))
    index.append((n, "ds.Select(f3)", [("Select", "lambda e: 2 * (e.a + 3)")], False, "wrapped-function"))
    n += 1
    src = "".join(parts)
    try:
        compile(src, "<gen>", "exec")
    except SyntaxError as ex:
        t.notes.append(f"generator produced invalid source: {ex}")
        raise
    mod = srcgen.run_module(src, "c03")
    by_n = {r[0]: r for r in mod.R}
    for nn, code, intended, must, label in index:
        rec = by_n.get(nn)
        key = f"C03:{label}:{code}"
        t.case(key, len(intended) >= 2 or code.count("lambda") >= 2, sample=f"[{label}] {code}")
        t.contract("parse_as_ast(callable): recorded lambda == the lambda written at that call, or raises")
        rp = {"kind": "C03", "key": key}
        if rec is None:
            t.violation("harness:every statement ran", "no record", key, None, None, rp)
            continue
        if rec[1] == "err":
            if must:
                t.violation("parse_as_ast:documented layouts are recovered without error",
                            f"raises {type(rec[2]).__name__}: {str(rec[2])[:100]}", key,
                            [x[1] for x in intended], repr(rec[2])[:160], rp)
            continue
        got = lambdas_of_chain(rec[2].query_ast)
        want = [(m, ast.dump(ast.parse(s, mode="eval").body)) for m, s in intended]
        gotd = [(m, ast.dump(l)) for m, l in got]
        if gotd != want:
            t.violation("parse_as_ast:ensures recorded lambda == passed lambda",
                        "a DIFFERENT lambda was silently recorded", key,
                        [s for _, s in intended], [ast.unparse(l) for _, l in got], rp)
    t.bounds.append(f"{len(index)} placements ({len(lays)} layouts x contexts)")


def readline_contract(t):
    """The sidecar contract of _line_string_reader.readline on the real class: the k-th call
    returns the k-th stored line from the start line on, then '' for ever (bounded stand-in for
    the engine-P obligations, which need the function to stay inside the engine's subset)."""
    from func_adl.util_ast import _line_string_reader
    pool = ["x = 1\n", "\n", "    # comment (lambda\n", "  \n", "ds.Select(\n", "#\n", "    lambda e: e.a)\n"]
    n = 0
    for size in range(0, 5):
        for lines in itertools.product(pool, repeat=size):
            if size == 4 and n % 7:
                n += 1
                continue
            n += 1
            lines = list(lines)
            for start in range(0, size + 1):
                key = f"C03:readline:{lines!r}@{start}"
                t.case(key, any(not ln.strip() or ln.strip().startswith("#") for ln in lines[start:]))
                t.contract("_line_string_reader.readline: k-th call == k-th stored line, then ''")
                want = lines[start:] + ["", ""]
                try:
                    r = _line_string_reader(lines, start)
                    got = [r.readline() for _ in range(size - start + 2)]
                except Exception as ex:
                    t.violation("readline:raises nothing (no index error past the end)",
                                f"raises {type(ex).__name__}", key, want, repr(ex)[:120],
                                {"kind": "C03", "key": key})
                    continue
                if got != want:
                    t.violation("readline:ensures result == nth(lines, current) and current advances by one",
                                "the reader's rows are not the physical lines", key, want, got,
                                {"kind": "C03", "key": key})


_run_layouts = run


def run(t):
    _run_layouts(t)
    readline_contract(t)


def replay(payload, t):
    run(t)
    return not [v for v in t.violations if v["replay"].get("key") == payload.get("key")]
