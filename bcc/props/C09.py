"""C09 — bounded contract check: callbacks fire at every matching call site, class before method,
nothing else fires; their MetaData lands on the source chain upstream of the operator; returned
call-site rewrites (incl. [param] removal, parameters by value) are what the query contains."""
import ast
import itertools
from typing import Iterable, Any, TypeVar

T = TypeVar("T")


def make_world(log, placement):
    """placement: set of {'class','method','function','param'}: which callbacks are registered."""
    from func_adl import (func_adl_callback, func_adl_callable, func_adl_parameterized_call,
                          ObjectStream)

    def mk_cb(tag, rewrite=None):
        def cb(s, a):
            log.append((tag, ast.unparse(a)))
            s2 = s.MetaData({"cb": tag, "n": len(log)})
            if rewrite:
                a = rewrite(a)
            return s2, a
        return cb

    def rename(newname):
        def r(a):
            import copy
            b = copy.copy(a)
            b.func = ast.Attribute(value=a.func.value, attr=newname, ctx=ast.Load())
            return b
        return r

    class Track:
        def pt(self) -> float: ...
    if "method" in placement:
        Track.pt = func_adl_callback(mk_cb("Track.pt-method"))(Track.pt)

    class Particle:
        def mass(self) -> float: ...

    class Jet(Particle):
        def pt(self) -> float: ...
        def eta(self) -> float: ...
        def Tracks(self) -> Iterable[Track]: ...
        def attr(self, name: str) -> float: ...

    def fix_arg(a):
        # a rewrite that REPLACES an existing positional argument (repaired defect: it was lost
        # when the call site sat inside a nested lambda)
        return ast.Call(a.func, [ast.Constant(a.args[0].value + "_fixed")] + a.args[1:], a.keywords)
    if "method" in placement:
        Jet.pt = func_adl_callback(mk_cb("Jet.pt-method", rename("pt_calib")))(Jet.pt)
        Jet.attr = func_adl_callback(mk_cb("Jet.attr-method", fix_arg))(Jet.attr)
    if "class" in placement:
        Jet = func_adl_callback(mk_cb("Jet-class"))(Jet)

    def pcb(s, a, param):
        log.append(("param", ast.unparse(a), repr(param)))
        return s.MetaData({"cb": "param", "p": repr(param)}), a, float

    class Event:
        def Jets(self, name: str = "j") -> Iterable[Jet]: ...
        def lead(self) -> Jet: ...
        def met(self) -> float: ...

        @func_adl_parameterized_call(pcb)
        @property
        def getAttr(self): ...
    if "class" in placement:
        Event = func_adl_callback(mk_cb("Event-class"))(Event)

    if "function" in placement:
        def fproc(s, a):
            log.append(("function", ast.unparse(a)))
            return s.MetaData({"cb": "function"}), a

        @func_adl_callable(fproc)
        def MySqrt(x: float, scale: float = 2.0) -> float: ...

        def fproc2(s, a):
            # a processor that REPLACES the call node (repaired defect: lost, together with the
            # filled-in default, when the call is the whole body of a nested lambda)
            log.append(("function", ast.unparse(a)))
            return s.MetaData({"cb": "function"}), ast.Call(ast.Name("MyCal_be", ast.Load()), a.args, a.keywords)

        @func_adl_callable(fproc2)
        def MyCal(x: float, scale: float = 2.0) -> float: ...
    return Event, Jet, Track


QUERIES = [
    # (operator, lambda, expected invocations as (tag-prefix) in order when all placements active)
    ("Select", "lambda e: e.met()"),
    ("Select", "lambda e: e.lead().pt()"),
    ("Select", "lambda e: e.lead().eta() + e.lead().pt()"),
    ("Select", "lambda e: e.lead().mass()"),
    ("Select", "lambda e: e.Jets().Select(lambda j: j.pt())"),
    ("Select", "lambda e: e.Jets().Select(lambda j: j.Tracks().Select(lambda t: t.pt()))"),
    ("Where", "lambda e: e.Jets().Where(lambda j: j.pt() > 1).Count() > 0"),
    ("SelectMany", "lambda e: e.Jets().Select(lambda j: j.eta())"),
    ("Select", "lambda e: MySqrt(e.met())"),
    ("Select", "lambda e: e.Jets().Select(lambda j: MySqrt(j.eta(), scale=3.0))"),
    ("Select", "lambda e: e.getAttr[5]('x')"),
    ("Select", "lambda e: e.getAttr['a', 2]('y') + e.met()"),
    ("Select", "lambda e: e.Jets().Select(lambda j: e.getAttr[1.5]('z'))"),
    # operator lambdas passed by KEYWORD
    ("Select", "lambda e: e.Jets().Where(filter=lambda j: j.pt() > 1).Count()"),
    ("Select", "lambda e: e.Jets().Select(f=lambda j: j.pt())"),
    ("Select", "lambda e: e.Jets().Select(lambda j: j.Tracks().Where(filter=lambda t: t.pt() > 0).Count())"),
    ("Where", "lambda e: e.Jets().Where(filter=lambda j: MySqrt(j.eta()) > 1).Count() > 0"),
    ("Select", "lambda e: 1"),
    ("Select", "lambda e: e.other.pt()"),
    ("Select", "lambda e: MyCal(e.met())"),
    ("Select", "lambda e: e.Jets().Select(lambda j: MyCal(j.eta()))"),
    ("Select", "lambda e: e.Jets().Select(lambda j: MyCal(j.eta(), scale=3.0) + 1)"),
    ("Where", "lambda e: e.Jets().Where(lambda j: MyCal(j.eta()) > 1).Count() > 0"),
    # a callback that replaces an existing argument, at the top and inside nested lambdas
    ("Select", "lambda e: e.lead().attr('x')"),
    ("Select", "lambda e: e.Jets().Select(lambda j: j.attr('x'))"),
    ("Where", "lambda e: e.Jets().Where(lambda j: j.attr('x') > j.pt()).Count() > 0"),
    ("Select", "lambda e: e.Jets().Select(lambda j: j.Tracks().Select(lambda t: j.attr('x') + t.pt()))"),
]


class RandCB:
    """Random typed lambdas over the callback model (no First: the independent walker does not
    model it): method calls on Event / Jet / Track receivers at any depth, nested Select / Where
    over typed collections, arithmetic, comparison, conditional, tuple projection, MySqrt."""

    def __init__(self, rng):
        self.rng, self.k = rng, 0

    def fresh(self, scope):
        if scope and self.rng.random() < 0.2:
            return self.rng.choice([n for n, _ in scope])
        self.k += 1
        return f"u{self.k}"

    def bind(self, scope, v, kind):
        return [(n, k) for n, k in scope if n != v] + [(v, kind)]

    def jet(self, scope):
        js = [n for n, k in scope if k == "Jet"]
        es = [n for n, k in scope if k == "Event"]
        opts = [lambda: self.rng.choice(js)] * (2 if js else 0) + \
               [lambda: f"{self.rng.choice(es)}.lead()"] * (1 if es else 0)
        return self.rng.choice(opts)() if opts else None

    def flt(self, scope, d):
        r = self.rng
        es = [n for n, k in scope if k == "Event"]
        ts = [n for n, k in scope if k == "Track"]
        opts = [lambda: repr(float(r.randint(0, 3)))]
        if es:
            opts += [lambda: f"{r.choice(es)}.met()"] * 2
        if self.jet(scope) is not None:
            opts += [lambda: f"{self.jet(scope)}.{r.choice(['pt()', 'eta()', 'mass()'])}"] * 4
        if ts:
            opts += [lambda: f"{r.choice(ts)}.pt()"] * 3
        if d > 0:
            opts += [lambda: f"({self.flt(scope, d - 1)} {r.choice(['+', '-', '*'])} {self.flt(scope, d - 1)})",
                     lambda: f"({self.flt(scope, d - 1)} if {self.boo(scope, d - 1)} else {self.flt(scope, d - 1)})",
                     lambda: f"({self.flt(scope, d - 1)}, {self.flt(scope, d - 1)})[{r.randint(0, 1)}]",
                     lambda: f"MySqrt({self.flt(scope, d - 1)})",
                     lambda: f"MySqrt({self.flt(scope, d - 1)}, scale={self.flt(scope, d - 1)})",
                     lambda: self.count(scope, d - 1)]
        return r.choice(opts)()

    def boo(self, scope, d):
        a, b = self.flt(scope, d), self.flt(scope, d)
        base = f"{a} {self.rng.choice(['>', '<', '>='])} {b}"
        if d > 0 and self.rng.random() < 0.3:
            return f"({base} {self.rng.choice(['and', 'or'])} {self.boo(scope, d - 1)})"
        return base

    def seq(self, scope, d):
        """(source, element kind) of a typed collection, possibly filtered"""
        r = self.rng
        es = [n for n, k in scope if k == "Event"]
        opts = []
        if es:
            opts.append(lambda: (f"{r.choice(es)}.Jets()", "Jet"))
        if self.jet(scope) is not None:
            opts.append(lambda: (f"{self.jet(scope)}.Tracks()", "Track"))
        if not opts:
            return None
        src, k = r.choice(opts)()
        if d > 0 and r.random() < 0.4:
            v = self.fresh(scope)
            kw = "filter=" if r.random() < 0.25 else ""
            src = f"{src}.Where({kw}lambda {v}: {self.boo(self.bind(scope, v, k), d - 1)})"
        return src, k

    def count(self, scope, d):
        s = self.seq(scope, d)
        return "1.0" if s is None else f"{s[0]}.Count()"

    def query(self):
        r = self.rng
        scope = [("e", "Event")]
        d = r.randint(1, 3)
        kind = r.randrange(4)
        if kind == 0:
            return "Select", f"lambda e: {self.flt(scope, d)}"
        if kind == 1:
            return "Where", f"lambda e: {self.boo(scope, d)}"
        s = self.seq(scope, d)
        v = self.fresh(scope)
        body = self.flt(self.bind(scope, v, s[1]), d - 1)
        sel = f"{s[0]}.Select({'f=' if r.random() < 0.25 else ''}lambda {v}: {body})"
        return ("Select" if kind == 2 else "SelectMany"), f"lambda e: {sel}"


def random_queries(rng, n):
    g = RandCB(rng)
    out, seen = [], set()
    for _ in range(n * 4):
        try:
            op, src = g.query()
        except (RecursionError, IndexError, TypeError):
            continue
        if src in seen or len(src) > 300 or "None" in src:
            continue
        seen.add(src)
        out.append((op, src))
        if len(out) >= n:
            break
    return out


def expected_sites(src, placement):
    """Matching call sites in evaluation order: for each method call on a typed receiver the class
    callback (if registered) then the method callback (if registered)."""
    tree = ast.parse(src).body[0].value
    types = {}       # crude type follower of the MODEL (independent of the library): by method name
    ret = {"attr": None, "met": None, "lead": "Jet", "Jets": "Jet*", "Tracks": "Track*", "pt": None, "eta": None,
           "mass": None, "Select": "same", "Where": "same", "Count": None, "First": "elem"}
    sites = []

    def ty(n, env):
        if isinstance(n, ast.Name):
            return env.get(n.id)
        if isinstance(n, ast.Call) and isinstance(n.func, ast.Attribute):
            recv = ty(n.func.value, env)
            m = n.func.attr
            if recv in ("Event", "Jet", "Track"):
                owner = {"Event": ["met", "lead", "Jets"], "Jet": ["pt", "eta", "Tracks", "mass", "attr"],
                         "Track": ["pt"]}[recv]
                if m in owner:
                    for a in n.args:
                        ty(a, env)
                    if "class" in placement and recv in ("Event", "Jet"):
                        sites.append(f"{recv}-class")
                    if "method" in placement and (recv, m) in (("Jet", "pt"), ("Track", "pt"), ("Jet", "attr")):
                        sites.append(f"{recv}.{m}-method")
                    return ret[m]
                return None
            if recv and recv.endswith("*") and m in ("Select", "Where"):
                lam = n.args[0] if n.args else n.keywords[0].value
                ty(lam.body, dict(env, **{lam.args.args[0].arg: recv[:-1]}))
                return recv if m == "Where" else None
            for a in n.args:
                ty(a, env)
            return None
        if isinstance(n, ast.Call) and isinstance(n.func, ast.Name) and n.func.id in ("MySqrt", "MyCal"):
            for a in n.args:
                ty(a, env)
            for k in n.keywords:
                ty(k.value, env)
            if "function" in placement:
                sites.append("function")
            return None
        if isinstance(n, ast.Call) and isinstance(n.func, ast.Subscript):
            for a in n.args:
                ty(a, env)
            if isinstance(n.func.value, ast.Attribute) and ty(n.func.value.value, env) == "Event":
                sites.append("param")
            return None
        for c in ast.iter_child_nodes(n):
            ty(c, env)
        return None
    lam = tree
    ty(lam.body, {lam.args.args[0].arg: "Event"})
    return sites


def run(t):
    from func_adl import EventDataset
    from func_adl.type_based_replacement import reset_global_functions
    import func_adl.type_based_replacement as tbr
    t.rules.append("callback placements (every subset of class / method / function processor, plus "
                   "the parameterized property) x 15 operator lambdas with matching call sites at "
                   "depth 0..2 in Select/Where/SelectMany lambdas of the stream and of typed "
                   "collections, inherited methods, untyped receivers, parameter tuples of length "
                   "1..2; the expected invocation list comes from an independent walk of the lambda; "
                   "non-trivial = at least one callback is expected; distinct by (placement, lambda)")
    placements = []
    for r in range(4):
        for c in itertools.combinations(["class", "method", "function"], r):
            placements.append(set(c))
    rq = random_queries(t.rng, 25 if t.tier == "quick" else 600)
    t.bounds.append(f"{len(rq)} random typed lambdas per placement (seeded)")
    for placement in placements:
        for op, src in list(QUERIES) + rq:
            reset_global_functions()
            log = []
            Event, Jet, Track = make_world(log, placement)

            class DS(EventDataset):
                async def execute_result_async(self, a, title=None):
                    return a
            ds = DS(Event)
            key = f"C09:{sorted(placement)}:{op}:{src}"
            if ("MySqrt" in src or "MyCal" in src) and "function" not in placement:
                continue
            exp = expected_sites(src, placement)
            t.case(key, len(exp) > 0, sample=key)
            t.contract("operators: invocation log == matching call sites, class before method")
            rp = {"kind": "C09", "key": key}
            try:
                s = getattr(ds, op)(src)
            except Exception as ex:
                t.violation("operators:no-exception", f"raises {type(ex).__name__}: {str(ex)[:80]}",
                            key, exp, repr(ex)[:120], rp)
                continue
            got = [x[0] for x in log]
            if got != exp:
                t.violation("process_method_callbacks:ensures trace == [class cb]? ++ [method cb]? "
                            "per matching call site, in evaluation order",
                            "callback invocations differ from the matching call sites", key, exp,
                            got, rp)
                continue
            # metadata: every MetaData a callback attached is on the args[0] chain BELOW the new
            # operator, in invocation order (innermost first = first attached)
            q = s.query_ast
            chain = []
            node = q.args[0]
            while isinstance(node, ast.Call) and isinstance(node.func, ast.Name) \
                    and node.func.id == "MetaData":
                chain.append(ast.literal_eval(node.args[1]))
                node = node.args[0]
            t.contract("callback MetaData on the source chain upstream of the operator")
            tags = [d.get("cb") for d in reversed(chain)]
            if tags != [("param" if e == "param" else e) for e in exp]:
                t.violation("operators:ensures callbacks' MetaData is on args[0] chain of the result",
                            "metadata missing / misplaced / reordered", key, exp, tags, rp)
                continue
            md_elsewhere = [n for n in ast.walk(q.args[1]) if isinstance(n, ast.Call)
                            and isinstance(n.func, ast.Name) and n.func.id == "MetaData"]
            if md_elsewhere:
                t.violation("operators:callback MetaData never stays inside the lambda",
                            "MetaData left inside the emitted lambda", key, None,
                            ast.unparse(q.args[1]), rp)
            # rewrites returned by callbacks are what the lambda contains
            text = ast.unparse(q.args[1])
            if "Jet.pt-method" in exp:
                t.contract("returned rewrite is emitted")
                if "pt_calib" not in text:
                    t.violation("process_method_callbacks:ensures the returned call node is emitted",
                                "rewrite returned by the method callback is not in the query", key,
                                "…pt_calib()…", text, rp)
            if "MyCal" in src:
                t.contract("rewrite returned by a function processor is emitted, defaults filled")
                if "MyCal(" in text or "MyCal_be(" not in text or \
                        ("scale" not in src and ", 2.0)" not in text):
                    t.violation("process_function_call:ensures the returned call node is emitted",
                                "the rewrite returned by the function's processor (or the default "
                                "it was given) is not in the query", key, "…MyCal_be(…, 2.0)…", text, rp)
            if "Jet.attr-method" in exp:
                t.contract("returned rewrite of an existing argument is emitted")
                if "attr('x')" in text or "attr('x_fixed')" not in text:
                    t.violation("process_method_callbacks:ensures the returned call node is emitted",
                                "the argument replaced by the method callback is not in the query",
                                key, "…attr('x_fixed')…", text, rp)
            if "param" in exp:
                t.contract("[param] subscript removed, parameters passed by value")
                if "getAttr[" in text:
                    t.violation("process_parameterized_method_call:subscript removed",
                                "the [param] subscript is still in the emitted query", key, None,
                                text, rp)
                want = {"lambda e: e.getAttr[5]('x')": "5", "lambda e: e.getAttr['a', 2]('y') + e.met()": "('a', 2)",
                        "lambda e: e.Jets().Select(lambda j: e.getAttr[1.5]('z'))": "1.5"}[src]
                gotp = [x[2] for x in log if x[0] == "param"]
                if gotp != [want]:
                    t.violation("process_parameterized_method_call:parameters passed by value",
                                "callback received other parameters", key, want, gotp, rp)
    reset_global_functions()
    t.bounds.append(f"{len(placements)} placements x {len(QUERIES)} lambdas")


def replay(payload, t):
    run(t)
    return not [v for v in t.violations if v["replay"].get("key") == payload.get("key")]
