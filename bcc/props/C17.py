"""C17 — bounded contract check of change_extension_functions_to_calls on the real code.
Contract (same text as the sidecar): same(result, erase_method_form(q, names)); lemma instances:
no_method_op(result), idempotence; semantic clause: sem(result) == sem(q) on every data set."""
import ast
import copy

import gen
import sem
import specrt
import erase as spec
from common import unparse, parse_expr
from data import datasets


def to_method_form(n, rng, names, p=0.5):
    """Randomly turn function-form operator calls Op(s, args…) into s.Op(args…)."""
    class T(ast.NodeTransformer):
        def visit_Call(self, node):
            self.generic_visit(node)
            if isinstance(node.func, ast.Name) and node.func.id in names and node.args \
                    and rng.random() < p:
                return ast.Call(ast.Attribute(node.args[0], node.func.id, ast.Load()),
                                node.args[1:], node.keywords)
            return node
    return ast.fix_missing_locations(T().visit(copy.deepcopy(n)))


def check_one(t, src, data):
    try:
        _check_one(t, src, data)
    except RecursionError:
        # the converted "tree" cannot be walked: it is cyclic or shares a growing list (seed C17_h:
        # one keyword list shared by every call node the library builds)
        t.violation("change_extension_functions_to_calls:ensures same(result, erase_method_form(q))",
                    "the result is not a finite tree (walking it does not terminate)", src, None,
                    "RecursionError while examining the result", {"kind": "C17", "src": src})


def _check_one(t, src, data):
    from func_adl.ast.func_adl_ast_utils import (change_extension_functions_to_calls,
                                                 default_list_of_functions)
    names = list(default_list_of_functions)
    q = parse_expr(src)
    has_method = not spec.no_method_op(q, names)
    lookalike = any(isinstance(x, ast.Call) and isinstance(x.func, ast.Attribute)
                    and x.func.attr not in names for x in ast.walk(q))
    t.case("C17:" + src, has_method and lookalike, sample=src)
    replay = {"kind": "C17", "src": src}
    expected = spec.erase_method_form(copy.deepcopy(q), names)
    try:
        got = change_extension_functions_to_calls(copy.deepcopy(q))
    except Exception as ex:
        t.violation("change_extension_functions_to_calls:no-exception",
                    f"raises {type(ex).__name__}", src, None, repr(ex), replay)
        return
    t.contract("same(result, erase_method_form(q, names))")
    if not specrt.same(got, expected):
        t.violation("change_extension_functions_to_calls:ensures same(result, erase_method_form(q))",
                    "result differs from the spec (a method-form operator call was not rewritten, "
                    "or something else changed)", src, unparse(expected), unparse(got), replay)
        return
    if not spec.no_method_op(got, names):
        t.violation("change_extension_functions_to_calls:no_method_op(result)",
                    "a method-form operator call remains", src, None, unparse(got), replay)
        return
    again = change_extension_functions_to_calls(copy.deepcopy(got))
    t.contract("idempotent")
    if not specrt.same(again, got):
        t.violation("change_extension_functions_to_calls:idempotent", "second application changes "
                    "the tree", src, unparse(got), unparse(again), replay)
        return
    # a converted tree that is edited in place afterwards (a method-form sub-query grafted under
    # the same root) is an ordinary input again: every method-form operator call in it is
    # rewritten (seed C17_f: a "converted" tag on the root made the second pass a no-op)
    if has_method and isinstance(got, ast.Call) and got.args:
        edited = got
        edited.args[0] = copy.deepcopy(q)
        expected2 = spec.erase_method_form(copy.deepcopy(edited), names)
        again2 = change_extension_functions_to_calls(edited)
        t.contract("result of a conversion, edited in place, converts like any other tree")
        if not specrt.same(again2, expected2) or not spec.no_method_op(again2, names):
            t.violation("change_extension_functions_to_calls:ensures same(result, erase_method_form(q))",
                        "a converted tree that was edited in place is not converted again", src,
                        unparse(expected2), unparse(again2), dict(replay, step="re-convert after edit"))
            return
        got = change_extension_functions_to_calls(copy.deepcopy(q))
    for i, d in enumerate(data):
        r0 = sem.run(q, {"ds": d})
        if r0[0] != "ok":
            continue
        r1 = sem.run(got, {"ds": d})
        t.contract("sem(result) == sem(q)")
        if r1 != r0:
            t.violation("change_extension_functions_to_calls:sem-equal",
                        "value differs on a data set", f"{src}  [data set {i}]", r0, r1,
                        dict(replay, data=i))
            return


def sources(t):
    rng = t.rng
    from func_adl.ast.func_adl_ast_utils import default_list_of_functions
    names = list(default_list_of_functions)
    quick = t.tier == "quick"
    base = []
    for scheme in ("distinct", "same"):
        base += [s for s, k in gen.chains(3, 1, scheme, method=False, rng=rng,
                                          per_stage=5 if quick else 9)]
        base += [s for s, k in gen.chains(3, 1, scheme, method=True, rng=rng,
                                          per_stage=5 if quick else 9)]
    out = []
    for s in base:
        out.append(s)
        q = parse_expr(s)
        for _ in range(1 if quick else 3):
            out.append(ast.unparse(to_method_form(q, rng, names)))
    # hand-shaped look-alikes named in the property: non-operator methods of the same shape,
    # operator names as attributes/bare names, operators in arguments of non-operator methods
    out += [
        "ds.Select(lambda e: e.scaled(e.jets.Select(lambda j: j.pt).Count()))",
        "ds.Select(lambda e: e.jets.Where(lambda j: j.shift(j.tracks.Count(), b=2) > 1).Count())",
        "ds.Select(lambda e: (e.jets.Count(), e.MET()))",
        "ds.SelectMany(lambda e: e.jets).Select(lambda j: j.ptk(k=j.tracks.Select(lambda t: t.pt).Sum()))",
        "ds.Select(lambda e: e.jets.First().ptk())",
        "First(ds.Select(lambda e: e.jets.Select(lambda j: j.pt).Max()))",
        "ds.Select(lambda e: {'n': e.jets.Count(), 'm': e.met}).Select(lambda d: d.n + d['m'])",
        "ds.Select(lambda e: e.jets.Select(lambda j: j.tracks.Where(lambda t: t.pt > 0).Count()).Sum())",
        "ds.Select(lambda e: e.jets.Aggregate(0, lambda acc, j: acc + j.pt))",
        "ds.Select(lambda e: e.jets).Select(lambda js: js.Select(lambda j: j.pt).Min())",
        # keyword arguments of method-form operator calls are arguments: kept (repaired defect:
        # they were dropped, e.g. the filter of jets.Where(filter=...))
        "ds.Select(lambda e: e.jets.Aggregate(0, func=lambda acc, j: acc + j.pt))",
        "ds.Select(lambda e: e.jets.Where(filter=lambda j: j.pt > 1).Count())",
        "ds.Select(f=lambda e: e.jets.Select(f=lambda j: j.tracks.Where(filter=lambda t: t.pt > 0).Count()))",
        "ds.SelectMany(func=lambda e: e.jets).Where(filter=lambda j: j.pt > 0)",
    ]
    # lexical neighbours of the operator names used as ORDINARY method names (must be left alone)
    for k in names:
        for v in (k + "s", k + "Code", k.lower(), k[:-1], "My" + k, k[:6] + "X", k + "ed"):
            if v not in names and v.isidentifier():
                out.append(f"ds.Select(lambda e: e.info().{v}(e.met))")
                out.append(f"ds.Select(lambda e: e.jets.Count()).{v}()")
    seen = set()
    res = []
    for s in out:
        if s not in seen:
            seen.add(s)
            res.append(s)
    return res


def run(t):
    data = datasets()
    srcs = sources(t)
    t.rules.append("operator chains (length <= 3, lambda bodies to depth 1 with "
                   "nested operators) in function form, method form and random mixtures, plus "
                   "look-alike shapes; non-trivial = has a method-form operator call AND a "
                   "non-operator method call; distinct by source text")
    t.bounds.append(f"{len(srcs)} queries x {len(data)} data sets")
    for s in srcs:
        if t.out_of_time():
            t.notes.append("time budget reached")
            break
        check_one(t, s, data)


def replay(payload, t):
    check_one(t, payload["src"], datasets())
    return not t.violations
