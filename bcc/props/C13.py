"""C13 — bounded contract check: embedded Python values keep their exact value.
Contract on as_ast / as_literal and on every API entry point that embeds a value:
literal_eval(emitted literal) == value and type(...) is type(value); every Constant inside an
emitted lambda has a transportable scalar type, anything else is refused with ValueError."""
import ast
import itertools
import math
from typing import Any

ALPH = ["'", '"', "\\", "\n", "\r", "\t", "(", ")", "[", "]", "{", "}", ",", ":", "#", "+", "a",
        "0", " ", "é", "Ā", "😀", "\0", "%", "'''", "x' + 'y", "__import__('os')", "\\n", "\\x41",
        "\ud800"]


# strings that read like Python literals, names or numbers when they appear inside the printed
# form of a container (seed C13_f: a textual fix-up of `inf` also hit quoted strings)
WORDS = ["inf", "-inf", "nan", "None", "True", "False", "1e999", "x ? -inf : y", " inf ", "inf,inf",
         "lambda", "0x10", "1_000", "b'x'", "u'a'", "...", "Ellipsis", "1e5", "1.", "-0.0", "1j",
         "{}", "[inf]", "(nan,)", "'inf'"]


def strings(tier, rng):
    out = [""]
    out += WORDS[:14]
    out += ALPH
    out += WORDS[14:]
    for a, b in itertools.product(ALPH[:20], ALPH[:20]):
        out.append(a + b)
    if tier == "thorough":
        for a, b, c in itertools.product(ALPH[:16], repeat=3):
            out.append(a + b + c)
    else:
        for _ in range(400):
            out.append("".join(rng.choice(ALPH) for _ in range(3)))
    seen = set()
    res = []
    for s in out:
        if s not in seen:
            seen.add(s)
            res.append(s)
    return res


SCALARS = [0, 1, -1, 2**63, -2**63 - 1, 10**50, 0.0, -0.0, 1e-300, 1e308, 0.1, 1.5, True, False,
           None, b"", b"ab\x00\xff", b"'"]


def same_value(a, b):
    if type(a) is not type(b):
        return False
    if isinstance(a, float):
        return (a == b and math.copysign(1, a) == math.copysign(1, b)) or (a != a and b != b)
    if isinstance(a, (list, tuple)):
        return len(a) == len(b) and all(same_value(x, y) for x, y in zip(a, b))
    if isinstance(a, dict):
        return list(a.keys()) == list(b.keys()) and all(same_value(a[k], b[k]) for k in a) and \
            all(type(x) is type(y) for x, y in zip(a.keys(), b.keys()))
    return a == b


def check_literal(t, where, node, value, src):
    t.contract(f"{where}: literal_eval(emitted) == value, same type")
    rp = {"kind": "C13", "where": where, "value": repr(value)}
    try:
        got = ast.literal_eval(node)
    except Exception as ex:
        t.violation(f"{where}:ensures literal_eval(result) == p", "emitted node is not a literal",
                    src, repr(value), f"{type(ex).__name__}: {ast.dump(node)[:200]}", rp)
        return
    if not same_value(got, value):
        t.violation(f"{where}:ensures literal_eval(result) == p",
                    "literal evaluates to a different value/type", src, repr(value), repr(got), rp)


_G_SEL = "nominal"
_G_CUT = 30
def _hsel(j): return j.pt(_G_SEL) > _G_CUT


def captured_through_helper(t, DS):
    """Values captured by an inlined one-line helper, the SAME helper used for several queries
    while its globals change between them: each query embeds the values of its own moment (seed
    C13_h: the recovered helper body was cached with the first query's literals baked in)."""
    for sel, cut in (("nominal", 30), ("q'\"\\\n", 30.5), ("b", True), ("", -0.0), ("nominal", 30)):
        globals()["_G_SEL"], globals()["_G_CUT"] = sel, cut
        key = f"helper globals ({sel!r}, {cut!r})"
        t.case("captured-through-helper:" + key, True, sample=key)
        t.contract("captured through a helper: the literals equal the values at the call, same type")
        try:
            s = DS().Where(
                lambda j: _hsel(j)
            )
        except Exception as ex:
            t.violation("captured-through-helper:no-exception", f"raises {type(ex).__name__}", key,
                        repr((sel, cut)), repr(ex)[:200], {"kind": "C13", "where": "helper", "value": key})
            continue
        got = [c.value for c in ast.walk(s.query_ast.args[1]) if isinstance(c, ast.Constant)]
        kf = lambda v: (type(v).__name__, repr(v))     # (ast.walk is breadth first: compare as a multiset)
        if sorted(map(kf, got)) != sorted(map(kf, [sel, cut])):
            t.violation("captured-through-helper:ensures literal_eval(result) == p",
                        "the query embeds other values than the helper's variables hold now", key,
                        repr([sel, cut]), repr(got), {"kind": "C13", "where": "helper", "value": key})


def run(t):
    from func_adl import EventDataset
    from func_adl.util_ast import as_ast, as_literal, check_ast
    from func_adl.ast.meta_data import remove_empty_metadata

    class DS(EventDataset):
        async def execute_result_async(self, a, title=None):
            return a
    rng = t.rng
    strs = strings(t.tier, rng)
    values = list(strs) + SCALARS
    # nestings to depth 2
    nest = []
    pool = strs[:40] + SCALARS
    for v in pool:
        nest += [[v], (v,), {"k": v}, [v, [v]], {"k": [v, (v, 1)]}]
    for a, b in itertools.islice(itertools.product(strs[1:25], strs[1:25]), 300):
        nest.append({a: b})
        nest.append([a, b])
    t.rules.append("all strings of length <= 2 (quick; <= 3 thorough) over quote, backslash, CR/LF, "
                   "NUL, brackets, operators, code-like text, non-latin-1 and astral characters, "
                   "lone surrogate; ints incl. 2**63 and 10**50, floats incl. -0.0/1e-300/1e308, "
                   "bool, None, bytes; list/tuple/dict nestings to depth 2 — at every entry point "
                   "(as_ast, as_literal, MetaData, AsPandasDF, AsAwkwardArray, AsROOTTTree, "
                   "AsParquetFiles, declared defaults, captured variables); non-trivial = value "
                   "contains a character outside [a-z0-9] or is not a str; distinct by (entry, repr)")

    def nontriv(v):
        return not (isinstance(v, str) and v.isalnum() and v.isascii())
    for v in values + nest:
        key = repr(v)
        t.case("as_ast:" + key, nontriv(v), sample=f"as_ast({key[:60]})")
        try:
            n = as_ast(v)
        except Exception as ex:
            t.violation("as_ast:no-exception", f"raises {type(ex).__name__}", key, key,
                        repr(ex)[:200], {"kind": "C13", "where": "as_ast", "value": key})
            continue
        check_literal(t, "as_ast", n, v, key)
        if not isinstance(v, (list, tuple, dict)):
            t.case("as_literal:" + key, nontriv(v))
            check_literal(t, "as_literal", as_literal(v), v, key)
    ds = DS()
    for v in strs:
        key = repr(v)
        # column names / tree and file names
        for where, build, pick in (
            ("AsROOTTTree(filename)", lambda: ds.AsROOTTTree(v, "t", "c"), lambda q: q.args[3]),
            ("AsROOTTTree(treename)", lambda: ds.AsROOTTTree("f", v, "c"), lambda q: q.args[2]),
            ("AsParquetFiles(filename)", lambda: ds.AsParquetFiles(v, "c"), lambda q: q.args[2]),
        ):
            t.case(f"{where}:{key}", nontriv(v))
            try:
                q = build().query_ast
            except Exception as ex:
                t.violation(f"{where}:no-exception", f"raises {type(ex).__name__}", key, key,
                            repr(ex)[:200], {"kind": "C13", "where": where, "value": key})
                continue
            check_literal(t, where, pick(q), v, key)
        for where, build in (("AsPandasDF(columns=str)", lambda: ds.AsPandasDF(v)),
                             ("AsAwkwardArray(columns=str)", lambda: ds.AsAwkwardArray(v)),
                             ("AsROOTTTree(columns=str)", lambda: ds.AsROOTTTree("f", "t", v)),
                             ("AsParquetFiles(columns=str)", lambda: ds.AsParquetFiles("f", v))):
            t.case(f"{where}:{key}", nontriv(v))
            try:
                q = build().query_ast
            except Exception as ex:
                t.violation(f"{where}:no-exception", f"raises {type(ex).__name__}", key, key,
                            repr(ex)[:200], {"kind": "C13", "where": where, "value": key})
                continue
            check_literal(t, where, q.args[1], [v], key)   # a single name becomes a one-element list
        for where, build in (("AsPandasDF(columns=list)", lambda: ds.AsPandasDF([v, "b"])),
                             ("AsAwkwardArray(columns=list)", lambda: ds.AsAwkwardArray([v, v]))):
            t.case(f"{where}:{key}", nontriv(v))
            try:
                q = build().query_ast
            except Exception as ex:
                t.violation(f"{where}:no-exception", f"raises {type(ex).__name__}", key, key,
                            repr(ex)[:200], {"kind": "C13", "where": where, "value": key})
                continue
            check_literal(t, where, q.args[1], [v, "b"] if "Pandas" in where else [v, v], key)
    for v in nest[:600] + [{"s": s} for s in strs[:200]]:
        if not isinstance(v, dict):
            v = {"k": v}
        key = repr(v)
        t.case("MetaData:" + key, True)
        try:
            q = ds.MetaData(v).query_ast
        except Exception as ex:
            t.violation("MetaData:no-exception", f"raises {type(ex).__name__}", key, key,
                        repr(ex)[:200], {"kind": "C13", "where": "MetaData", "value": key})
            continue
        check_literal(t, "MetaData", q.args[1], v, key)
    captured_through_helper(t, DS)
    # declared defaults and captured variables: every Constant in an emitted lambda is transportable
    from func_adl import func_adl_callable
    from func_adl.type_based_replacement import reset_global_functions
    transportable = (str, int, float, bool, complex, bytes, type(None))
    for v in (strs[:60] + SCALARS + [[1], {"a": 1}, (1, 2), object(), {1, 2}]):
        key = repr(v)[:80]
        t.case("default:" + key, True)
        reset_global_functions()

        def mk(default):
            @func_adl_callable()
            def fdef(x: float = default) -> float: ...
            return fdef
        try:
            mk(v)
            s = DS().Select("lambda e: fdef()")
            ok = True
        except ValueError:
            ok = False
            s = None
        except Exception as ex:
            t.violation("declared-default:refusal is ValueError", f"raises {type(ex).__name__}",
                        key, "ValueError or literal", repr(ex)[:200],
                        {"kind": "C13", "where": "default", "value": key})
            continue
        finally:
            reset_global_functions()
        t.contract("declared default: literal equal to the default, or ValueError")
        if isinstance(v, transportable):
            if not ok:
                t.violation("declared-default:transportable value accepted", "ValueError for a "
                            "transportable default", key, key, "ValueError",
                            {"kind": "C13", "where": "default", "value": key})
            else:
                lam = s.query_ast.args[1]
                check_literal(t, "declared-default", lam.body.args[0], v, key)
        else:
            if ok:
                consts = [c for c in ast.walk(s.query_ast) if isinstance(c, ast.Constant)
                          and not isinstance(c.value, transportable)]
                if consts:
                    t.violation("check_ast:every Constant in an emitted lambda is transportable",
                                "non-transportable constant emitted", key, "ValueError",
                                ast.dump(consts[0])[:120],
                                {"kind": "C13", "where": "default", "value": key})
    # check_ast contract: returns normally iff every Constant in the tree is transportable —
    # a non-transportable Constant placed in every expression context must be refused
    CONTEXTS = ["HOLE", "f(HOLE)", "f(1, HOLE)", "f(k=HOLE)", "f(1, k=HOLE)", "e.m(a=1, b=HOLE)",
                "e.x + HOLE", "-HOLE", "HOLE if e.x else 1", "1 if HOLE else 2", "(1, HOLE)",
                "[HOLE]", "{'k': HOLE}", "{HOLE: 1}", "e[HOLE]", "HOLE[0]", "HOLE.attr",
                "e.x > HOLE", "e.a and HOLE", "e.jets.Select(lambda j: j.pt + HOLE)",
                "e.jets.Select(lambda j: f(j, w=HOLE))", "(lambda a: a)(HOLE)", "f(*[HOLE])",
                "f(**{'k': HOLE})", "[j for j in HOLE]", "[HOLE for j in e.jets]",
                "[j for j in e.jets if HOLE]", "f'{HOLE}'", "e.m()[1:HOLE]"]
    BAD = [object(), [25, 30], {"a": 1}, (1, 2), {1, 2}, ds]
    GOOD = ["s", 1, 2.5, True, None, b"x", 1j]

    class Fill(ast.NodeTransformer):
        def __init__(self, value):
            self.value = value

        def visit_Name(self, node):
            if node.id == "HOLE":
                return ast.copy_location(ast.Constant(value=self.value), node)
            return node
    for ctx in CONTEXTS:
        for v in BAD + GOOD:
            tree = ast.fix_missing_locations(Fill(v).visit(ast.parse("lambda e: " + ctx, mode="eval").body))
            key = f"check_ast:{ctx}:{type(v).__name__}"
            t.case(key, True, sample=f"check_ast(lambda e: {ctx}) with HOLE := Constant({type(v).__name__})")
            t.contract("check_ast: returns iff every Constant is transportable, else ValueError")
            try:
                check_ast(tree)
                refused = False
            except ValueError:
                refused = True
            except Exception as ex:
                t.violation("check_ast:raises only ValueError", f"raises {type(ex).__name__}", key,
                            "ValueError", repr(ex)[:100], {"kind": "C13", "where": "check_ast", "value": key})
                continue
            want = any(v is b for b in BAD)
            # the spec function of the deductive proof of check_ast, run natively
            import legal as spec_legal
            t.contract("check_ast: refuses iff not all_legal(tree)  (spec, native)")
            if refused != (not spec_legal.all_legal(tree)):
                t.violation("check_ast:raises ValueError iff not all_legal(a)",
                            f"the spec all_legal says {spec_legal.all_legal(tree)} in context `{ctx}`",
                            key, None, "refused" if refused else "accepted",
                            {"kind": "C13", "where": "check_ast", "value": key})
            if refused != want:
                t.violation("check_ast:returns iff every Constant has a transportable type",
                            ("non-transportable constant accepted" if want else
                             "transportable constant refused") + f" in context `{ctx}`", key,
                            "ValueError" if want else "accepted",
                            "accepted" if want else "ValueError",
                            {"kind": "C13", "where": "check_ast", "value": key})
    t.bounds.append(f"{len(strs)} strings, {len(SCALARS)} scalars, {len(nest)} nestings, "
                    f"{len(CONTEXTS)} expression contexts x {len(BAD) + len(GOOD)} constants")


def replay(payload, t):
    run(t)
    return not [v for v in t.violations if v["replay"].get("value") == payload.get("value")
                and v["replay"].get("where") == payload.get("where")]
