"""Kind-directed enumerators of query expressions over the in-memory data model (data.py).

Kinds: 'E' event, 'J' jet, 'T' track, 'I' int, 'B' bool, ('seq', k), ('tup', k1, k2),
('lst', k1, k2), ('dict', (('a', k1), ('b', k2))).
Everything is produced as SOURCE TEXT (function form unless method=True), so that inputs are
distinct-by-text and replayable."""
import itertools
import random

LEAF = {
    "E": [("{v}.met", "I"), ("{v}.jets", ("seq", "J")), ("{v}.tracks", ("seq", "T")),
          ("{v}.scaled(2)", "I"), ("{v}.MET()", "I")],
    "J": [("{v}.pt", "I"), ("{v}.eta", "I"), ("{v}.tracks", ("seq", "T")), ("{v}.ptk()", "I"),
          ("{v}.shift(1, b=2)", "I")],
    "T": [("{v}.pt", "I"), ("{v}.z0", "I"), ("{v}.ptk(3)", "I")],
    "I": [("{v}", "I"), ("{v} + 1", "I"), ("-{v}", "I"), ("{v} * 2", "I")],
    "B": [("{v}", "B")],
}


class Names:
    """Binder naming schemes: 'distinct' | 'same' | 'reuse' (an inner lambda re-uses the name of
    an enclosing, still live binder with probability 1/2, decided by position parity)."""

    def __init__(self, scheme):
        self.scheme = scheme
        self.k = 0

    def fresh(self, outer):
        self.k += 1
        if self.scheme == "same":
            return "x"
        if self.scheme == "reuse" and outer and self.k % 2 == 0:
            return outer[-1]
        return f"v{self.k}"


def call(op, src, lam, method):
    return f"{src}.{op}({lam})" if method else f"{op}({src}, {lam})"


def call0(op, src, method):
    return f"{src}.{op}()" if method else f"{op}({src})"


def project(v, kind):
    """All constant projections of a packaged value: [(expr, kind)]"""
    out = []
    if isinstance(kind, tuple):
        if kind[0] in ("tup", "lst"):
            for i, k in enumerate(kind[1:]):
                out.append((f"{v}[{i}]", k))
        elif kind[0] == "dict":
            for i, (key, k) in enumerate(kind[1]):
                out.append((f"{v}[{key!r}]" if i % 2 == 0 else f"{v}.{key}", k))
    return out


def scalars(v, kind, depth):
    """Expressions of any kind computed from variable v of the given kind, up to depth."""
    res = []
    if isinstance(kind, str):
        for t, k in LEAF.get(kind, []):
            res.append((t.format(v=v), k))
    else:
        for e, k in project(v, kind):
            res.append((e, k))
            if depth >= 1 and isinstance(k, (str,)) and k in LEAF:
                for t, k2 in LEAF[k][:2]:
                    res.append((t.format(v=f"{e}"), k2))
    return res


def bodies(v, kind, depth, names, outer, method=False, want=None, limit=40, rng=None):
    """Lambda bodies for a parameter v of `kind`: [(src, out_kind)]."""
    base = scalars(v, kind, depth)
    out = list(base)
    ints = [e for e, k in base if k == "I"]
    seqs = [(e, k) for e, k in base if isinstance(k, tuple) and k[0] == "seq"]
    if depth >= 1:
        # arithmetic, comparison, conditional, packaging
        for a, b in itertools.islice(itertools.combinations(ints, 2), 3):
            out.append((f"{a} + {b}", "I"))
            out.append((f"{a} > {b}", "B"))
            out.append((f"{a} if {b} > 0 else -{a}", "I"))
        for a in ints[:3]:
            out.append((f"{a} > 1", "B"))
        pk = base[:4]
        for (a, ka), (b, kb) in itertools.islice(itertools.combinations(pk, 2), 4):
            out.append((f"({a}, {b})", ("tup", ka, kb)))
            out.append((f"[{a}, {b}]", ("lst", ka, kb)))
            out.append((f"{{'a': {a}, 'b': {b}}}", ("dict", (("a", ka), ("b", kb)))))
        # nested operators over sub-sequences
        for s, sk in seqs:
            ek = sk[1]
            w = names.fresh(outer + [v])
            inner = bodies(w, ek, depth - 1, names, outer + [v], method)
            for b, bk in inner[:5]:
                if bk == "B":
                    out.append((call("Where", s, f"lambda {w}: {b}", method), sk))
                    out.append((call0("Count", call("Where", s, f"lambda {w}: {b}", method),
                                      method), "I"))
                else:
                    out.append((call("Select", s, f"lambda {w}: {b}", method), ("seq", bk)))
                    if bk == "I":
                        out.append((f"Sum({call('Select', s, f'lambda {w}: {b}', method)})", "I"))
                    if isinstance(bk, tuple) and bk[0] == "seq":
                        out.append((call("SelectMany", s, f"lambda {w}: {b}", method),
                                    ("seq", bk[1])))
            # a nested lambda that refers to the OUTER variable (closure / capture cases)
            if isinstance(kind, str) and kind in LEAF and LEAF[kind][0][1] == "I":
                oi = LEAF[kind][0][0].format(v=v)
                li = [e for e, k in scalars(w, ek, 0) if k == "I"][:1]
                for x in li:
                    out.append((call("Select", s, f"lambda {w}: {x} + {oi}", method), ("seq", "I")))
                    out.append((call("Where", s, f"lambda {w}: {x} > {oi}", method), sk))
                    out.append((call("Select", s, f"lambda {w}: ({w}, {oi})", method),
                                ("seq", ("tup", ek, "I"))))
            out.append((call0("Count", s, method), "I"))
            out.append((call0("First", s, method), ek))
    if want is not None:
        out = [(e, k) for e, k in out if want(k)]
    if rng is not None and len(out) > limit:
        out = rng.sample(out, limit)
    return out[:limit]


def is_seq(k):
    return isinstance(k, tuple) and k[0] == "seq"


def chains(max_len, depth, scheme, method=False, rng=None, per_stage=6, root="ds", root_kind="E"):
    """Linear operator chains from the root: [(src, elem_kind)] including all prefixes."""
    names = Names(scheme)
    out = []
    frontier = [(root, root_kind, 0)]
    while frontier:
        src, kind, n = frontier.pop()
        if n >= max_len:
            continue
        v = names.fresh([])
        bs = bodies(v, kind, depth, names, [], method, rng=rng, limit=60)
        stages = []
        for b, bk in bs:
            if bk == "B":
                stages.append((call("Where", src, f"lambda {v}: {b}", method), kind))
            else:
                stages.append((call("Select", src, f"lambda {v}: {b}", method), bk))
                if is_seq(bk):
                    stages.append((call("SelectMany", src, f"lambda {v}: {b}", method), bk[1]))
        if rng is not None and len(stages) > per_stage:
            stages = rng.sample(stages, per_stage)
        else:
            stages = stages[:per_stage]
        for s, k in stages:
            out.append((s, k))
            frontier.append((s, k, n + 1))
    return out
