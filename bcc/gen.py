"""Kind-directed enumerators of query expressions over the in-memory data model (data.py).

Kinds: 'E' event, 'J' jet, 'T' track, 'I' int, 'B' bool, ('seq', k), ('tup', k1, k2),
('lst', k1, k2), ('dict', (('a', k1), ('b', k2))).
Everything is produced as SOURCE TEXT (function form unless method=True), so that inputs are
distinct-by-text and replayable."""
import itertools
import random

LEAF = {
    "E": [("{v}.met", "I"), ("{v}.jets", ("seq", "J")), ("{v}.tracks", ("seq", "T")),
          ("{v}.scaled(2)", "I"), ("{v}.MET()", "I")],
    "J": [("{v}.pt", "I"), ("{v}.eta", "I"), ("{v}.tracks", ("seq", "T")), ("{v}.ptk()", "I"),
          ("{v}.shift(1, b=2)", "I")],
    "T": [("{v}.pt", "I"), ("{v}.z0", "I"), ("{v}.ptk(3)", "I")],
    "I": [("{v}", "I"), ("{v} + 1", "I"), ("-{v}", "I"), ("{v} * 2", "I")],
    "B": [("{v}", "B")],
}


class Names:
    """Binder naming schemes: 'distinct' | 'same' | 'reuse' (an inner lambda re-uses the name of
    an enclosing, still live binder with probability 1/2, decided by position parity)."""

    def __init__(self, scheme):
        self.scheme = scheme
        self.k = 0

    def fresh(self, outer):
        self.k += 1
        if self.scheme == "same":
            return "x"
        if self.scheme == "reuse" and outer and self.k % 2 == 0:
            return outer[-1]
        return f"v{self.k}"


def call(op, src, lam, method):
    return f"{src}.{op}({lam})" if method else f"{op}({src}, {lam})"


def call0(op, src, method):
    return f"{src}.{op}()" if method else f"{op}({src})"


def project(v, kind):
    """All constant projections of a packaged value: [(expr, kind)]"""
    out = []
    if isinstance(kind, tuple):
        if kind[0] in ("tup", "lst"):
            for i, k in enumerate(kind[1:]):
                out.append((f"{v}[{i}]", k))
        elif kind[0] == "dict":
            for i, (key, k) in enumerate(kind[1]):
                out.append((f"{v}[{key!r}]" if i % 2 == 0 else f"{v}.{key}", k))
    return out


def scalars(v, kind, depth):
    """Expressions of any kind computed from variable v of the given kind, up to depth."""
    res = []
    if isinstance(kind, str):
        for t, k in LEAF.get(kind, []):
            res.append((t.format(v=v), k))
    else:
        for e, k in project(v, kind):
            res.append((e, k))
            if depth >= 1 and isinstance(k, (str,)) and k in LEAF:
                for t, k2 in LEAF[k][:2]:
                    res.append((t.format(v=f"{e}"), k2))
    return res


def bodies(v, kind, depth, names, outer, method=False, want=None, limit=40, rng=None):
    """Lambda bodies for a parameter v of `kind`: [(src, out_kind)]."""
    base = scalars(v, kind, depth)
    out = list(base)
    ints = [e for e, k in base if k == "I"]
    seqs = [(e, k) for e, k in base if isinstance(k, tuple) and k[0] == "seq"]
    if depth >= 1:
        # arithmetic, comparison, conditional, packaging
        for a, b in itertools.islice(itertools.combinations(ints, 2), 3):
            out.append((f"{a} + {b}", "I"))
            out.append((f"{a} > {b}", "B"))
            out.append((f"{a} if {b} > 0 else -{a}", "I"))
        for a in ints[:3]:
            out.append((f"{a} > 1", "B"))
        pk = base[:4]
        for (a, ka), (b, kb) in itertools.islice(itertools.combinations(pk, 2), 4):
            out.append((f"({a}, {b})", ("tup", ka, kb)))
            out.append((f"[{a}, {b}]", ("lst", ka, kb)))
            out.append((f"{{'a': {a}, 'b': {b}}}", ("dict", (("a", ka), ("b", kb)))))
        # nested operators over sub-sequences
        for s, sk in seqs:
            ek = sk[1]
            w = names.fresh(outer + [v])
            inner = bodies(w, ek, depth - 1, names, outer + [v], method)
            for b, bk in inner[:5]:
                if bk == "B":
                    out.append((call("Where", s, f"lambda {w}: {b}", method), sk))
                    out.append((call0("Count", call("Where", s, f"lambda {w}: {b}", method),
                                      method), "I"))
                else:
                    out.append((call("Select", s, f"lambda {w}: {b}", method), ("seq", bk)))
                    if bk == "I":
                        out.append((f"Sum({call('Select', s, f'lambda {w}: {b}', method)})", "I"))
                    if isinstance(bk, tuple) and bk[0] == "seq":
                        out.append((call("SelectMany", s, f"lambda {w}: {b}", method),
                                    ("seq", bk[1])))
            # a nested lambda that refers to the OUTER variable (closure / capture cases)
            if isinstance(kind, str) and kind in LEAF and LEAF[kind][0][1] == "I":
                oi = LEAF[kind][0][0].format(v=v)
                li = [e for e, k in scalars(w, ek, 0) if k == "I"][:1]
                for x in li:
                    out.append((call("Select", s, f"lambda {w}: {x} + {oi}", method), ("seq", "I")))
                    out.append((call("Where", s, f"lambda {w}: {x} > {oi}", method), sk))
                    out.append((call("Select", s, f"lambda {w}: ({w}, {oi})", method),
                                ("seq", ("tup", ek, "I"))))
            out.append((call0("Count", s, method), "I"))
            out.append((call0("First", s, method), ek))
    if want is not None:
        out = [(e, k) for e, k in out if want(k)]
    if rng is not None and len(out) > limit:
        out = rng.sample(out, limit)
    return out[:limit]


def is_seq(k):
    return isinstance(k, tuple) and k[0] == "seq"


def chains(max_len, depth, scheme, method=False, rng=None, per_stage=6, root="ds", root_kind="E"):
    """Linear operator chains from the root: [(src, elem_kind)] including all prefixes."""
    names = Names(scheme)
    out = []
    frontier = [(root, root_kind, 0)]
    while frontier:
        src, kind, n = frontier.pop()
        if n >= max_len:
            continue
        v = names.fresh([])
        bs = bodies(v, kind, depth, names, [], method, rng=rng, limit=60)
        stages = []
        for b, bk in bs:
            if bk == "B":
                stages.append((call("Where", src, f"lambda {v}: {b}", method), kind))
            else:
                stages.append((call("Select", src, f"lambda {v}: {b}", method), bk))
                if is_seq(bk):
                    stages.append((call("SelectMany", src, f"lambda {v}: {b}", method), bk[1]))
        if rng is not None and len(stages) > per_stage:
            stages = rng.sample(stages, per_stage)
        else:
            stages = stages[:per_stage]
        for s, k in stages:
            out.append((s, k))
            frontier.append((s, k, n + 1))
    return out


# ---- random deep queries (thorough tiers of C02 / C18) ------------------------------------------
class RandQ:
    """Kind-directed random generator of CLOSED queries over the data model, function form.
    Covers nested operators, closures over outer binders, called lambdas (1 and 2 positional
    parameters), First push-through, packaging into tuple/list/dict followed by constant projection,
    arithmetic / comparison / conditional, and binder-name re-use (probability `reuse`)."""

    FIELDS = {"E": [("met", "I"), ("jets", ("seq", "J")), ("tracks", ("seq", "T"))],
              "J": [("pt", "I"), ("eta", "I"), ("tracks", ("seq", "T"))],
              "T": [("pt", "I"), ("z0", "I")]}
    METHODS = {"E": [("MET()", "I"), ("scaled(2)", "I")],
               "J": [("ptk()", "I"), ("shift(1, b=2)", "I"), ("ptk(3)", "I")],
               "T": [("ptk(3)", "I")]}

    def __init__(self, rng, reuse=0.3):
        self.rng, self.reuse, self.k = rng, reuse, 0

    def fresh(self, scope):
        if scope and self.rng.random() < self.reuse:
            return self.rng.choice(scope)[0]
        self.k += 1
        return f"v{self.k}"

    def bind(self, scope, v, kind):
        return [(n, k) for n, k in scope if n != v] + [(v, kind)]

    def pick(self, opts):
        for _ in range(8):
            r = self.rng.choice(opts)()
            if r is not None:
                return r
        return None

    def obj(self, kind, scope, d):
        """an expression of record kind E / J / T"""
        vs = [n for n, k in scope if k == kind]
        vs += [self.unpack(n, k, 0) for n, k in scope if isinstance(k, tuple) and k[0] == "pk" and k[2] == kind]
        opts = [lambda: self.rng.choice(vs)] * (3 if vs else 0)
        if d > 0 and kind in ("J", "T"):
            opts.append(lambda: self._first(kind, scope, d - 1))
            opts.append(lambda: self._proj(kind, scope, d - 1))
        if d > 0 and vs:
            opts.append(lambda: self._called(kind, scope, d - 1))
        return self.pick(opts) if opts else None

    def _first(self, kind, scope, d):
        s = self.seq(kind, scope, d)
        return None if s is None else f"First({s})"

    def _proj(self, kind, scope, d):
        """package two values, take one back out with a constant selector"""
        a = self.any_of(kind, scope, d)
        b = self.intx(scope, 0)
        if a is None or b is None:
            return None
        form = self.rng.randrange(5)
        return [f"({a}, {b})[0]", f"({b}, {a})[1]", f"[{a}, {b}][0]", f"{{'a': {a}, 'b': {b}}}.a",
                f"{{'a': {b}, 'k': {a}}}['k']"][form]

    def _called(self, kind, scope, d):
        """(lambda p: <kind from p>)(arg) / two-parameter form"""
        ak = self.rng.choice(["I", "J", "T", "E"])
        arg = self.any_of(ak, scope, d)
        if arg is None:
            return None
        p = self.fresh(scope)
        body = self.any_of(kind, self.bind(scope, p, ak), d)
        if body is None:
            return None
        if self.rng.random() < 0.4:
            q = self.fresh(scope)
            if q != p:
                arg2 = self.intx(scope, 0)
                body2 = self.any_of(kind, self.bind(self.bind(scope, p, ak), q, "I"), d)
                if arg2 is not None and body2 is not None:
                    return f"(lambda {p}, {q}: {body2})({arg}, {arg2})"
        return f"(lambda {p}: {body})({arg})"

    def any_of(self, kind, scope, d):
        if kind == "I":
            return self.intx(scope, d)
        if kind == "B":
            return self.boolx(scope, d)
        if isinstance(kind, tuple):
            return self.seq(kind[1], scope, d)
        return self.obj(kind, scope, d)

    def intx(self, scope, d):
        r = self.rng
        objs = [(n, k) for n, k in scope if isinstance(k, str) and k in self.FIELDS]
        objs += [(self.unpack(n, k, 0), k[2]) for n, k in scope
                 if isinstance(k, tuple) and k[0] == "pk" and k[2] in self.FIELDS]
        ints = [n for n, k in scope if k == "I"]
        ints += [self.unpack(n, k, 1) for n, k in scope if isinstance(k, tuple) and k[0] == "pk"]
        opts = [lambda: str(r.randint(0, 5))]
        if ints:
            opts += [lambda: r.choice(ints)] * 2
        if objs:
            def fld():
                n, k = r.choice(objs)
                f = [f for f, fk in self.FIELDS[k] if fk == "I"] + [m for m, mk in self.METHODS[k]]
                return f"{n}.{r.choice(f)}"
            opts += [fld] * 3
        if d > 0:
            opts += [
                lambda: self._bin(scope, d - 1),
                lambda: self._valbool(scope, d - 1),
                lambda: self._cond(scope, d - 1),
                lambda: self._count(scope, d - 1),
                lambda: self._fieldof(scope, d - 1),
                lambda: self._proj("I", scope, d - 1),
                lambda: self._called("I", scope, d - 1),
            ]
        return self.pick(opts)

    def _bin(self, scope, d):
        a, b = self.intx(scope, d), self.intx(scope, d)
        return None if a is None or b is None else f"({a} {self.rng.choice(['+', '-', '*'])} {b})"

    def _valbool(self, scope, d):
        """and / or in VALUE position on non-boolean operands (Python returns an operand)"""
        a, b = self.intx(scope, d), self.intx(scope, d)
        if a is None or b is None:
            return None
        return self.rng.choice([f"({a} and {b})", f"({a} or {b})", f"({a} and True)", f"({a} or 0)",
                                f"(True and {a})"])

    def _cond(self, scope, d):
        a, b, c = self.intx(scope, d), self.boolx(scope, d), self.intx(scope, d)
        return None if None in (a, b, c) else f"({a} if {b} else {c})"

    def _count(self, scope, d):
        k = self.rng.choice(["J", "T"])
        s = self.seq(k, scope, d)
        if s is None:
            return None
        return f"Count({s})"

    def _fieldof(self, scope, d):
        k = self.rng.choice(["J", "T", "E"])
        o = self.obj(k, scope, d)
        if o is None:
            return None
        f = [f for f, fk in self.FIELDS[k] if fk == "I"] + [m for m, mk in self.METHODS[k]]
        return f"{o}.{self.rng.choice(f)}"

    def boolx(self, scope, d):
        r = self.rng
        a, b = self.intx(scope, max(d - 1, 0)), self.intx(scope, max(d - 1, 0))
        if a is None or b is None:
            return None
        base = f"{a} {r.choice(['>', '<', '>=', '==', '!='])} {b}"
        if d > 0 and r.random() < 0.3:
            c = self.boolx(scope, d - 1)
            if c is not None:
                return f"({base} {r.choice(['and', 'or'])} {c})"
        return base

    def seq(self, ek, scope, d):
        """an expression denoting a sequence of element kind ek (E only from the root `ds`)"""
        r = self.rng
        opts = []
        if ek == "E":
            opts.append(lambda: "ds")
        for n, k in scope:
            if isinstance(k, tuple) and k[0] == "pk":
                n, k = self.unpack(n, k, 0), k[2]
            if isinstance(k, str) and k in self.FIELDS:
                for f, fk in self.FIELDS[k]:
                    if fk == ("seq", ek):
                        opts.append(lambda n=n, f=f: f"{n}.{f}")
        if d > 0:
            opts += [lambda: self._where(ek, scope, d - 1), lambda: self._select(ek, scope, d - 1),
                     lambda: self._smany(ek, scope, d - 1),
                     lambda: self._pack_unpack(ek, scope, d - 1),
                     lambda: self._guarded(ek, scope, d - 1)]
        return self.pick(opts) if opts else None

    def _guarded(self, ek, scope, d):
        """Where(Where(s, guard), use): `use` only evaluates on the elements `guard` lets through
        (first element of a possibly empty collection, division by a possibly zero field), so the
        order of the two tests in a fused filter matters"""
        r = self.rng
        s = self.seq(ek, scope, d)
        if s is None:
            return None
        v, w = self.fresh(scope), self.fresh(scope)
        coll = {"E": [("jets", "pt"), ("tracks", "pt")], "J": [("tracks", "z0")], "T": []}[ek]
        zero = {"E": "met", "J": "eta", "T": "z0"}[ek]
        c = r.randint(0, 3)
        forms = [(f"{v}.{zero} != 0", f"{r.randint(2, 9)} / {w}.{zero} > {c}"),
                 (f"{v}.{zero} != 0", f"Count(Where(ds, lambda q{self.k}: q{self.k}.met / {w}.{zero} > {c})) >= 0")]
        for f, g in coll:
            forms.append((f"Count({v}.{f}) > 0", f"{w}.{f}[0].{g} > {c}"))
            forms.append((f"Count({v}.{f}) > 0", f"First({w}.{f}).{g} > {c}"))
            forms.append((f"Count({v}.{f}) > {c}", f"{w}.{f}[{c}].{g} != {w}.{zero}"))
        guard, use = r.choice(forms)
        if r.random() < 0.3:
            # the same two filters with a projection in between
            return f"Where(Select(Where({s}, lambda {v}: {guard}), lambda {v}: {v}), lambda {w}: {use})"
        return f"Where(Where({s}, lambda {v}: {guard}), lambda {w}: {use})"

    def unpack(self, name, kind, which):
        """projection of a packed variable: component 0 (a record of kind kind[2]) or 1 (an int)"""
        form = kind[1]
        if form in ("tup", "lst"):
            return f"{name}[{which}]"
        key = "ab"[which]
        return f"{name}.{key}" if self.rng.random() < 0.5 else f"{name}[{key!r}]"

    def _pack_unpack(self, ek, scope, d):
        """an earlier stage packages (record, int) into a tuple / list / dict, optional filter on
        the package, a later stage takes it apart again"""
        r = self.rng
        k1 = r.choice(["J", "T", "E"])
        s = self.seq(k1, scope, d)
        if s is None:
            return None
        v = self.fresh(scope)
        sc = self.bind(scope, v, k1)
        a, b = self.obj(k1, sc, d), self.intx(sc, d)
        if a is None or b is None:
            return None
        form = r.choice(["tup", "lst", "dict"])
        pk = {"tup": f"({a}, {b})", "lst": f"[{a}, {b}]", "dict": f"{{'a': {a}, 'b': {b}}}"}[form]
        packed = f"Select({s}, lambda {v}: {pk})"
        kind = ("pk", form, k1)
        if r.random() < 0.4:
            w = self.fresh(scope)
            c = self.boolx(self.bind(scope, w, kind), max(d - 1, 0))
            if c is not None:
                packed = f"Where({packed}, lambda {w}: {c})"
        p = self.fresh(scope)
        body = self.any_of(ek, self.bind(scope, p, kind), d)
        if body is None:
            return None
        if r.random() < 0.3 and isinstance(ek, str):
            body2 = self.seq(ek, self.bind(scope, p, kind), d)
            if body2 is not None:
                return f"SelectMany({packed}, lambda {p}: {body2})"
        return f"Select({packed}, lambda {p}: {body})"

    def _src_kind(self):
        return self.rng.choice(["E", "J", "T", "J"])

    def _where(self, ek, scope, d):
        s = self.seq(ek, scope, d)
        if s is None:
            return None
        v = self.fresh(scope)
        b = self.boolx(self.bind(scope, v, ek), d)
        return None if b is None else f"Where({s}, lambda {v}: {b})"

    def _select(self, ek, scope, d):
        sk = self._src_kind()
        s = self.seq(sk, scope, d)
        if s is None:
            return None
        v = self.fresh(scope)
        b = self.any_of(ek, self.bind(scope, v, sk), d)
        return None if b is None else f"Select({s}, lambda {v}: {b})"

    def _smany(self, ek, scope, d):
        sk = self._src_kind()
        s = self.seq(sk, scope, d)
        if s is None:
            return None
        v = self.fresh(scope)
        b = self.seq(ek, self.bind(scope, v, sk), d)
        return None if b is None else f"SelectMany({s}, lambda {v}: {b})"

    def query(self, d):
        r = self.rng
        kind = r.choice(["I", "J", "T", "I", "B"])
        top = r.randrange(4)
        if top == 0:
            s = self.seq(r.choice(["J", "T", "E"]), [], d)
            return None if s is None else f"Count({s})"
        if top == 1:
            return self._select(kind, [], d) if kind != "B" else self._select("I", [], d)
        if top == 2:
            return self._where("E", [], d)
        return self._smany(r.choice(["J", "T"]), [], d)


def random_queries(rng, n, depth, reuse=0.3):
    g = RandQ(rng, reuse)
    out, seen, tries = [], set(), 0
    while len(out) < n and tries < n * 30:
        tries += 1
        try:
            q = g.query(rng.randint(2, depth))
        except RecursionError:
            continue
        if q is None or len(q) > 600 or q in seen:
            continue
        seen.add(q)
        out.append(q)
    return out
