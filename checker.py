#!/usr/bin/env python3
"""Front end:  ./check <ID> [--tier quick|thorough] [--replay FILE] [--rebaseline]

Engine P (contracts discharged by z3 on obligations generated from /repo's CURRENT source) and
engine B (the same contracts checked bounded on the real functions) are run, their verdicts merged
under the rules of DESIGN §2.5, the evidence file is rewritten, exit code 0 / 1 / 3."""
import argparse
import glob
import json
import os
import subprocess
import sys
import tempfile
import time

ROOT = os.path.dirname(os.path.abspath(__file__))
# where evidence/ and replays/ are written (default: next to this file); runs on patched scratch
# copies of the repository (tools/seed_matrix2.py) point this elsewhere so that the committed
# evidence keeps describing /repo
OUT = os.environ.get("VERIF_OUT", ROOT)
REPO = os.environ.get("VERIF_REPO", "/repo")
VENV_PY = os.environ.get("VERIF_VENV_PY", "/venv/bin/python")
VT_PY = os.environ.get("VERIF_VT_PY", "python3-vt")
sys.path.insert(0, ROOT)

from props_meta import META      # noqa: E402


def sh(cmd, timeout, env=None):
    e = dict(os.environ)
    e.update(env or {})
    try:
        p = subprocess.run(cmd, capture_output=True, text=True, timeout=timeout, env=e)
        return p.returncode, p.stdout, p.stderr
    except subprocess.TimeoutExpired as ex:
        return 124, ex.stdout or "", (ex.stderr or "") + "\nTIMEOUT"


def load_known():
    out = []
    p = os.path.join(ROOT, "known_findings.jsonl")
    if os.path.exists(p):
        for l in open(p):
            l = l.strip()
            if l and not l.startswith("#"):
                out.append(json.loads(l))
    return out


def matches_known(v, known):
    """A violation is 'known' only if it matches a listed finding on contract AND input."""
    for k in known:
        if k.get("kind") != "known" or k.get("property") != v["property"]:
            continue
        if k.get("contract") and k["contract"] != v.get("contract"):
            continue
        if k.get("contract_prefix") and not (v.get("contract") or "").startswith(k["contract_prefix"]):
            continue
        pats = k.get("input_any") or ([k["input"]] if k.get("input") else [])
        if any(p == v.get("input") or (p.endswith("*") and (v.get("input") or "").startswith(p[:-1]))
               for p in pats):
            return k
        if k.get("input_regex"):
            import re
            if re.search(k["input_regex"], v.get("input") or "") and \
                    (not k.get("contract_prefix") or (v.get("contract") or "").startswith(k["contract_prefix"])):
                return k
        if k.get("what_fails_regex"):
            import re
            if re.search(k["what_fails_regex"], v.get("what_fails") or ""):
                return k
        if k.get("joint_regex"):
            # over "<what fails> || <input>": the finding is identified by a relation between
            # the failing step and the history that led to it
            import re
            if re.search(k["joint_regex"], f"{v.get('what_fails') or ''} || {v.get('input') or ''}",
                         re.S):
                return k
    return None


def run_engine_p(prop, tier, meta, tmp):
    """Returns dict with functions/obligations or {'error':…}."""
    if not meta.get("p_keys"):
        return {"functions": [], "skipped": True}
    out = os.path.join(tmp, "p.json")
    budget = meta.get("p_timeout", 240) * (3 if tier == "thorough" else 1)
    rc, so, se = sh([VT_PY, "-m", "pyvc.pjson", prop, "--json", out, "--tier", tier],
                    budget, {"PYTHONPATH": ROOT, "VERIF_REPO": REPO})
    if not os.path.exists(out):
        return {"error": f"engine P produced no result (rc={rc}): {se[-2000:]}"}
    return json.load(open(out))


def run_engine_b(prop, tier, seed, meta, tmp, replay=None):
    if not meta.get("b_module", True):
        return {"skipped": True}
    out = os.path.join(tmp, "b.json")
    cmd = [VENV_PY, os.path.join(ROOT, "bcc", "run.py"), prop, "--tier", tier, "--seed", str(seed),
           "--json", out]
    if replay:
        cmd += ["--replay", replay]
    budget = meta.get("b_timeout", 300) * (8 if tier == "thorough" else 1)
    cmd += ["--budget", str(budget * 0.8)]
    rc, so, se = sh(cmd, budget, {"VERIF_REPO": REPO, "PYTHONHASHSEED": "0",
                                  "PYTHONDONTWRITEBYTECODE": "1"})
    if not os.path.exists(out):
        return {"error": f"engine B produced no result (rc={rc}): {se[-3000:]}"}
    r = json.load(open(out))
    if rc not in (0,):
        r.setdefault("crash", se[-3000:])
    return r


def native_replay_of_model(ob, tmp):
    """Replay a counter-model of engine P on the real function under the library's interpreter.
    Returns (violated: bool|None, detail)."""
    if not ob.get("native") or not ob.get("bindings"):
        return None, "no native harness / no model bindings"
    payload = {"native": ob["native"], "bindings": ob["bindings"], "contract": ob.get("contract"),
               "ensures": ob.get("ensures", []), "requires": ob.get("requires", []),
               "raises": ob.get("raises", {}), "raises_iff": ob.get("raises_iff", {})}
    pf = os.path.join(tmp, "model.json")
    json.dump(payload, open(pf, "w"))
    rc, so, se = sh([VENV_PY, os.path.join(ROOT, "bcc", "replay_fn.py"), pf], 60,
                    {"VERIF_REPO": REPO})
    try:
        r = json.loads(so.strip().splitlines()[-1])
    except Exception:
        return None, f"replay harness failed: {se[-500:]}"
    return r.get("violated"), r


def main():
    ap = argparse.ArgumentParser()
    ap.add_argument("prop")
    ap.add_argument("--tier", default=os.environ.get("VERIF_TIER", "quick"))
    ap.add_argument("--replay")
    ap.add_argument("--rebaseline", action="store_true")
    a = ap.parse_args()
    prop = a.prop
    tier = a.tier if a.tier in ("quick", "thorough") else "quick"
    seed = int(os.environ.get("VERIF_SEED", "0") or 0)
    meta = META[prop]
    t0 = time.time()
    os.makedirs(os.path.join(OUT, "evidence"), exist_ok=True)
    os.makedirs(os.path.join(OUT, "replays"), exist_ok=True)
    tmp = tempfile.mkdtemp(prefix=f"verif_{prop}_", dir=os.environ.get("VERIF_SCRATCH"))
    try:
        rc = _main(prop, tier, seed, meta, tmp, a, t0)
    finally:
        import shutil
        shutil.rmtree(tmp, ignore_errors=True)
    sys.exit(rc)


def _main(prop, tier, seed, meta, tmp, a, t0):
    known = load_known()
    if a.replay:
        payload = json.load(open(a.replay))
        if payload.get("engine") == "B":
            pf = os.path.join(tmp, "rp.json")
            json.dump(payload["replay"], open(pf, "w"))
            r = run_engine_b(prop, tier, seed, meta, tmp, replay=pf)
            if r.get("error") or r.get("crash"):
                print(r.get("error") or r.get("crash"))
                return 3
            if r.get("violations"):
                print(f"replay: contract still violated: {r['violations'][0]['what_fails']}")
                print(f"VIOLATION property={prop} replay={a.replay}")
                return 1
            print("replay: contract holds on this tree")
            return 0
        print("replay of an engine-P obligation: re-running the check")
    baseline_path = os.path.join(ROOT, "baseline_obligations.json")
    baseline = json.load(open(baseline_path)) if os.path.exists(baseline_path) else {}
    P = run_engine_p(prop, tier, meta, tmp)
    B = run_engine_b(prop, tier, seed, meta, tmp)
    problems = []
    if P.get("error"):
        problems.append(P["error"])
    if B.get("error") or B.get("crash"):
        problems.append(B.get("error") or B.get("crash"))
    violations = []        # (kind, description, replay payload)
    known_hits = []
    # ---- engine P verdicts
    fns = P.get("functions", [])
    n_ob = n_proved = 0
    undecided = []
    by_backend = {}
    solver_s = 0.0
    samples_p = []
    for f in fns:
        for ob in f["obligations"]:
            n_ob += 1
            solver_s += ob.get("time") or 0
            if ob["status"] == "proved":
                n_proved += 1
                by_backend[ob.get("backend", "?")] = by_backend.get(ob.get("backend", "?"), 0) + 1
                if len(samples_p) < 5:
                    samples_p.append(f"{ob['id']}: proved ({ob.get('backend')})")
                continue
            ident = ob["id"]
            was_proved = baseline.get(prop, {}).get(ident) == "proved"
            v = {"property": prop, "contract": ident, "input": None, "what_fails":
                 f"obligation {ob['status']}: {ob.get('note') or ''} (line {ob.get('line')})"}
            if ob["status"] == "refuted":
                violated, detail = native_replay_of_model(ob, tmp)
                if violated:
                    v["input"] = json.dumps(ob.get("bindings"), sort_keys=True)
                    v["engine"] = "P"
                    v["detail"] = detail
                    violations.append(v)
                    continue
                if ob.get("kind") == "frame" or ob.get("decided_by_executor"):
                    # frame obligations are decided by the executor itself (no model needed)
                    v["input"] = ob.get("note")
                    v["engine"] = "P"
                    v["no_input"] = True
                    violations.append(v)
                    continue
                if was_proved and ob.get("kind") in ("post", "safety", "raises", "frame", "pre"):
                    v["engine"] = "P"
                    v["no_input"] = True
                    v["detail"] = {"solver": ob.get("backend"), "model": ob.get("bindings"),
                                   "replay_attempt": detail}
                    violations.append(v)
                    continue
            elif was_proved and ob["status"] == "refuted":
                pass
            undecided.append({"id": ident, "status": ob["status"], "note": ob.get("note"),
                              "was_proved_in_baseline": was_proved})
    unsupported = [f for f in fns if f.get("unsupported")]
    # ---- engine B verdicts
    for v in B.get("violations", []) or []:
        v["engine"] = "B"
        violations.append(v)
    # ---- known findings
    fresh = []
    violations.sort(key=lambda v: 1 if v.get("no_input") else 0)
    for v in violations:
        k = matches_known(v, known)
        if k:
            known_hits.append((k, v))
        else:
            fresh.append(v)
    # ---- vacuity guards
    if meta.get("p_keys") and not P.get("error") and n_ob == 0 and not unsupported:
        problems.append("engine P generated zero obligations")
    if meta.get("b_module", True) and not B.get("error") and not B.get("skipped") \
            and B.get("evaluations", 0) == 0:
        problems.append("engine B evaluated zero cases")
    for g in P.get("guards", []):
        if not g["ok"]:
            problems.append(f"vacuity guard failed: {g['name']}: {g.get('detail')}")
    # ---- baseline (deliberate)
    if a.rebaseline:
        baseline.setdefault(prop, {})
        baseline[prop] = {ob["id"]: "proved" for f in fns for ob in f["obligations"]
                          if ob["status"] == "proved"}
        json.dump(baseline, open(baseline_path, "w"), indent=1, sort_keys=True)
    # ---- evidence
    wall = round(time.time() - t0, 2)
    all_proved = meta.get("p_keys") and n_ob > 0 and n_proved == n_ob and not unsupported \
        and not P.get("error")
    level = meta["level"]
    if level == "proof" and not all_proved:
        level = "other"
    cov = {
        "obligations": n_ob, "discharged": n_proved,
        "checker_cmd": f"./check {prop} --tier {tier}",
        "trusted_base": P.get("trusted_base", []) + meta.get("trusted_base", []),
        "functions_under_contract": [
            {"function": f["key"], "sha256": f.get("sha"), "paths": f.get("paths"),
             "obligations": len(f["obligations"]),
             "discharged": sum(1 for o in f["obligations"] if o["status"] == "proved"),
             "status": ("unsupported: " + f["unsupported"]) if f.get("unsupported") else
             ("proved" if f["obligations"] and all(o["status"] == "proved" for o in f["obligations"])
              else "not fully discharged"),
             "dropped_by_extraction": f.get("dropped", []), "notes": f.get("notes", [])}
            for f in fns],
        "backends": by_backend, "solver_s": round(solver_s, 3),
        "undecided_obligations": undecided[:40],
        "vacuity_guards": P.get("guards", []),
        "evaluations": B.get("evaluations", 0),
        "distinct_nontrivial": B.get("distinct_nontrivial", 0),
        "rule": "; ".join(B.get("rules", [])) or "n/a",
        "bound": "; ".join(B.get("bounds", [])) or "n/a",
        "samples": (samples_p + (B.get("samples") or []))[:12] or ["(none)"],
        "bounded_contract_evaluations": B.get("contract_evaluations", {}),
        "explanation": meta["explanation"] + f"  This run: engine P discharged {n_proved} of "
        f"{n_ob} obligations over {len(fns)} functions ({len(unsupported)} outside the engine's "
        f"subset, {len(undecided)} not proved); engine B (bounded stand-in, never counted as "
        f"proof) evaluated {B.get('evaluations', 0)} cases.",
        "known_findings_reported": [k["what_fails"] for k, _ in known_hits],
    }
    ev = {"property_id": prop, "tier": tier, "seed": seed, "level": level, "coverage": cov,
          "assumptions": meta.get("assumptions", []) + P.get("assumptions", []),
          "wall_s": wall, "violations": len(fresh)}
    json.dump(ev, open(os.path.join(OUT, "evidence", f"{prop}.json"), "w"), indent=1, default=str)
    # ---- report
    print(f"[{prop}] engine P: {n_proved}/{n_ob} obligations discharged over {len(fns)} functions"
          f"; engine B: {B.get('evaluations', 0)} cases ({B.get('distinct_nontrivial', 0)} "
          f"distinct non-trivial); {wall}s")
    regress = [u for u in undecided if u.get("was_proved_in_baseline")]
    p_viol = [v for v in fresh if v.get("engine") == "P"]
    if regress or p_viol:
        print(f"  engine P: {len(p_viol)} obligation(s) violated, {len(regress)} further obligation(s) "
              f"proved in the baseline are not discharged on this tree")
    for u in undecided[:10]:
        print(f"  undecided: {u['id']} ({u['status']})")
    for f in unsupported:
        print(f"  outside engine P subset: {f['key']}: {f['unsupported']}")
    seen_k = set()
    for k, v in known_hits:
        if k["what_fails"] not in seen_k:
            seen_k.add(k["what_fails"])
            print(f"KNOWN-FINDING: property={prop} {k['what_fails']}")
    if problems:
        for p_ in problems:
            print(f"CHECK BROKEN: {p_}", file=sys.stderr)
        return 3
    if fresh:
        v = fresh[0]
        n = len(glob.glob(os.path.join(OUT, "replays", f"{prop}_*.json")))
        path = os.path.join("replays", f"{prop}_{int(time.time())}_{n}.json")
        json.dump({"property": prop, "engine": v.get("engine"), "obligation": v.get("contract"),
                   "input": v.get("input"), "what_fails": v.get("what_fails"),
                   "expected": v.get("expected"), "observed": v.get("observed"),
                   "replay": v.get("replay"), "detail": v.get("detail"),
                   "all_violations": [{k2: x.get(k2) for k2 in ("contract", "input", "what_fails")}
                                      for x in fresh[:20]]},
                  open(os.path.join(OUT, path), "w"), indent=1, default=str)
        for x in fresh[:6]:
            print(f"  violated: {x.get('contract')}: {x.get('what_fails')}  input: "
                  f"{(x.get('input') or '')[:200]}")
        tail = " no-failing-input-found" if v.get("no_input") else ""
        print(f"VIOLATION property={prop} replay={path}{tail}")
        return 1
    return 0


if __name__ == "__main__":
    main()
