/-
Lemma layer of the func_adl verification (DESIGN §2.3): inductive facts about lists that SMT does
not prove unprompted.  Checked by `lean` (Lean 4.33 + Mathlib) in setup and in every thorough run.

C19: a left fold of the step functions proved (by z3, over Int) for the four lambdas found in
aggregate_shortcuts.py, started from 0, is len / sum / max (0 :: l) / min (0 :: l).
C02/C06: the list laws behind the Select/Where/SelectMany fusion rules.
-/
import Mathlib.Data.List.Basic
import Mathlib.Order.MinMax
import Mathlib.Tactic
open List

namespace FuncAdl

theorem foldl_count {α} (l : List α) (n : Int) :
    l.foldl (fun acc _ => acc + 1) n = n + l.length := by
  induction l generalizing n with
  | nil => simp
  | cons a t ih => simp [ih]; omega

theorem count_fold_is_len {α} (l : List α) :
    l.foldl (fun (acc : Int) _ => acc + 1) 0 = l.length := by
  simpa using foldl_count l 0

theorem foldl_sum (l : List Int) (a : Int) : l.foldl (· + ·) a = a + l.sum := by
  induction l generalizing a with
  | nil => simp
  | cons h t ih => simp [ih]; omega

theorem sum_fold_is_sum (l : List Int) : l.foldl (· + ·) 0 = l.sum := by
  simpa using foldl_sum l 0

/-- `foldl max a l` is an upper bound of `a` and of every element … -/
theorem foldl_max_ge (l : List Int) (a : Int) :
    a ≤ l.foldl max a ∧ ∀ x ∈ l, x ≤ l.foldl max a := by
  induction l generalizing a with
  | nil => simp
  | cons h t ih =>
    simp only [foldl_cons, mem_cons]
    have h1 := ih (max a h)
    refine ⟨le_trans (le_max_left a h) h1.1, ?_⟩
    intro x hx
    rcases hx with rfl | hx
    · exact le_trans (le_max_right a x) h1.1
    · exact h1.2 x hx

/-- … and it is `a` or an element: together, `foldl max 0 l = max (0 :: l)` ("with 0 added"). -/
theorem foldl_max_mem (l : List Int) (a : Int) :
    l.foldl max a = a ∨ l.foldl max a ∈ l := by
  induction l generalizing a with
  | nil => simp
  | cons h t ih =>
    simp only [foldl_cons, mem_cons]
    rcases ih (max a h) with h1 | h1
    · rcases max_choice a h with h2 | h2
      · left; rw [h1, h2]
      · right; left; rw [h1, h2]
    · right; right; exact h1

theorem foldl_min_le (l : List Int) (a : Int) :
    l.foldl min a ≤ a ∧ ∀ x ∈ l, l.foldl min a ≤ x := by
  induction l generalizing a with
  | nil => simp
  | cons h t ih =>
    simp only [foldl_cons, mem_cons]
    have h1 := ih (min a h)
    refine ⟨le_trans h1.1 (min_le_left a h), ?_⟩
    intro x hx
    rcases hx with rfl | hx
    · exact le_trans h1.1 (min_le_right a x)
    · exact h1.2 x hx

theorem foldl_min_mem (l : List Int) (a : Int) :
    l.foldl min a = a ∨ l.foldl min a ∈ l := by
  induction l generalizing a with
  | nil => simp
  | cons h t ih =>
    simp only [foldl_cons, mem_cons]
    rcases ih (min a h) with h1 | h1
    · rcases min_choice a h with h2 | h2
      · left; rw [h1, h2]
      · right; left; rw [h1, h2]
    · right; right; exact h1

/-- the step lambdas as written in the code: `acc if acc > v else v`, `acc if acc < v else v` -/
theorem max_step (a v : Int) : (if a > v then a else v) = max a v := by
  rcases lt_or_ge v a with h | h
  · simp [h, max_eq_left (le_of_lt h)]
  · have : ¬ a > v := not_lt.mpr h
    simp [this, max_eq_right h]

theorem min_step (a v : Int) : (if a < v then a else v) = min a v := by
  rcases lt_or_ge a v with h | h
  · simp [h, min_eq_left (le_of_lt h)]
  · have : ¬ a < v := not_lt.mpr h
    simp [this, min_eq_right h]

/- list laws behind the fusion rules (C02) and comprehension lowering (C06) -/
theorem filter_map' {α β} (p : β → Bool) (f : α → β) (l : List α) :
    filter p (map f l) = map f (filter (p ∘ f) l) := by
  induction l with
  | nil => rfl
  | cons a t ih => simp [filter_cons, ih]; split <;> simp_all

theorem filter_filter' {α} (p q : α → Bool) (l : List α) :
    filter q (filter p l) = filter (fun a => p a && q a) l := by
  simp [List.filter_filter, Bool.and_comm]

theorem map_map' {α β γ} (g : β → γ) (f : α → β) (l : List α) :
    map g (map f l) = map (g ∘ f) l := by simp

theorem flatMap_map' {α β γ} (g : β → List γ) (f : α → β) (l : List α) :
    (map f l).flatMap g = l.flatMap (g ∘ f) := by simp [List.flatMap_map]; rfl

theorem map_flatMap' {α β γ} (g : β → γ) (f : α → List β) (l : List α) :
    map g (l.flatMap f) = l.flatMap (fun a => map g (f a)) := by
  induction l with
  | nil => simp
  | cons a t ih => simp [flatMap_cons, ih]

theorem filter_flatMap' {α β} (p : β → Bool) (f : α → List β) (l : List α) :
    filter p (l.flatMap f) = l.flatMap (fun a => filter p (f a)) := by
  induction l with
  | nil => simp
  | cons a t ih => simp [flatMap_cons, ih]

theorem flatMap_flatMap' {α β γ} (g : β → List γ) (f : α → List β) (l : List α) :
    (l.flatMap f).flatMap g = l.flatMap (fun a => (f a).flatMap g) := by
  induction l with
  | nil => simp
  | cons a t ih => simp [flatMap_cons, ih]

theorem head_map {α β} (f : α → β) (l : List α) : (l.map f).head? = l.head?.map f := by
  cases l <;> simp

theorem filter_true {α} (l : List α) : filter (fun _ => true) l = l := by simp

theorem map_id'' {α} (l : List α) : map (fun x => x) l = l := by simp

/-! Ground list facts handed to z3 as quantifier-free instances (pyvc `ground_len_facts`). -/

/-- every element of a list satisfying P does so at each valid index (instantiated for the grammar
well-formedness predicate of list fields). -/
theorem all_nth {α} (P : α → Prop) (l : List α) (h : ∀ x ∈ l, P x) (i : Nat) (hi : i < l.length) :
    P (l[i]) := h _ (List.getElem_mem hi)

theorem length_cons'' {α} (a : α) (t : List α) : (a :: t).length = 1 + t.length := by
  simp [Nat.add_comm]

theorem nil_iff_length_zero {α} (l : List α) : l = [] ↔ l.length = 0 := by
  cases l <;> simp

theorem length_append'' {α} (a b : List α) : (a ++ b).length = a.length + b.length := by simp
theorem append_assoc'' {α} (a b c : List α) : (a ++ b) ++ c = a ++ (b ++ c) := by simp
theorem append_nil'' {α} (a : List α) : a ++ [] = a := by simp
theorem length_map'' {α β} (f : α → β) (l : List α) : (l.map f).length = l.length := by simp

theorem length_reverseAux'' {α} (a b : List α) : (List.reverseAux a b).length = a.length + b.length := by
  simp [List.reverseAux_eq]

theorem reverseAux_nil_iff {α} (a b : List α) : List.reverseAux a b = [] ↔ a = [] ∧ b = [] := by
  simp [List.reverseAux_eq]

theorem head_append'' {α} (a b : List α) (h : a ≠ []) : (a ++ b).head? = a.head? := by
  cases a with
  | nil => exact absurd rfl h
  | cons x t => simp

theorem nil_append'' {α} (b : List α) : ([] : List α) ++ b = b := by simp

end FuncAdl
