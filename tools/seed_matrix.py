#!/usr/bin/env python3
"""Apply every seeded change to /repo in turn, run the check of its property, restore HEAD;
write seeded/<id>/meta.json (verified section) and seeded/MATRIX.md.  /repo must be clean."""
import glob, json, os, re, subprocess, sys, time
ROOT = os.path.dirname(os.path.dirname(os.path.abspath(__file__)))
os.chdir(ROOT)
def sh(cmd, **kw):
    return subprocess.run(cmd, shell=True, capture_output=True, text=True, **kw)
assert sh("git -C /repo status --porcelain").stdout.strip() == "", "/repo dirty"
rows = []
only = sys.argv[1:] 
for d in sorted(glob.glob("seeded/C*_*")):
    name = os.path.basename(d)
    if only and name not in only: continue
    prop = name.split("_")[0]
    meta = json.load(open(os.path.join(d, "meta.json")))
    v = sh(f"tools/validate_seed.sh {d}").stdout.strip().splitlines()[-1]
    ap = sh(f"git -C /repo apply {os.path.abspath(d)}/patch.diff")
    if ap.returncode != 0:
        rows.append((name, "patch does not apply", "", "")); continue
    t0 = time.time()
    ev = open(f"evidence/{prop}.json").read() if os.path.exists(f"evidence/{prop}.json") else None
    r = sh(f"./check {prop}")
    sh("git -C /repo reset -q --hard HEAD")
    if ev is not None:      # evidence files describe the unchanged tree
        open(f"evidence/{prop}.json", "w").write(ev)
    out = r.stdout
    viol = [l for l in out.splitlines() if l.startswith("VIOLATION")]
    first = [l.strip() for l in out.splitlines() if l.strip().startswith("violated:")][:1]
    engine = ""
    if viol:
        rp = re.search(r"replay=(\S+)", viol[0]).group(1)
        try: engine = json.load(open(rp)).get("engine") or ""
        except Exception: pass
    pl = [l.strip() for l in out.splitlines() if l.strip().startswith("engine P:") and "violated" in l]
    pnote = pl[0] if pl else ""
    still_breaks = "demo_with=1" in v
    meta["verified"] = {"validated_on_current_repo_head": v, "check": f"./check {prop}", "exit": r.returncode,
                        "violation_line": viol[0] if viol else None, "caught_by_engine": engine,
                        "first_violated_contract": first[0][:300] if first else None,
                        "still_property_breaking": still_breaks, "wall_s": round(time.time()-t0,1)}
    json.dump(meta, open(os.path.join(d, "meta.json"), "w"), indent=1)
    rows.append((name, "detected (exit 1)" if r.returncode == 1 else f"exit {r.returncode}", engine + (" +P" if pnote and engine != "P" else ""),
                 (first[0][:110] if first else ("no longer property-breaking on the repaired tree" if not still_breaks else "")) ))
    print(rows[-1], flush=True)
if only and os.path.exists("seeded/MATRIX.md"):
    # partial run: keep the rows of the seeds that were not re-run
    have = {r[0] for r in rows}
    for line in open("seeded/MATRIX.md").read().splitlines()[2:]:
        cells = [c.strip() for c in line.strip().strip("|").split(" | ")]
        if len(cells) >= 4 and cells[0] not in have:
            rows.append(tuple(cells[:4]))
    rows.sort()
with open("seeded/MATRIX.md", "w") as f:
    f.write("| seeded change | result of the property's quick check | engine | first violated contract |\n|---|---|---|---|\n")
    for r in rows: f.write("| " + " | ".join(r) + " |\n")
