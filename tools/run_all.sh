#!/bin/bash
# usage: tools/run_all.sh [quick|thorough]   — every registered check on the current tree, summary
T=${1:-quick}
cd "$(dirname "$0")/.." || exit 3
for i in 01 02 03 04 05 06 07 08 09 10 11 12 13 14 15 16 17 18 19 20; do
  ( s=$(date +%s); out=$(./check C$i --tier $T 2>&1); rc=$?; e=$(date +%s);
    echo "C$i rc=$rc $((e-s))s $(echo "$out" | grep -c KNOWN-FINDING) known | $(echo "$out" | grep '^\[C' | head -1)";
    [ $rc -ne 0 ] && echo "$out" | tail -4 ) &
  # at most 4 at a time
  while [ $(jobs -r | wc -l) -ge 4 ]; do sleep 1; done
done
wait
