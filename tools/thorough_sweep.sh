#!/bin/bash
# usage: tools/thorough_sweep.sh "<seeds>"   — every check at the thorough tier under the given seeds
# PROPS="02 14" restricts the properties
# (meant for `vp run --with-repo -- tools/thorough_sweep.sh "0 1 2"`; uses $VP_RUN_REPO if set)
SEEDS=${1:-"0"}
cd "$(dirname "$0")/.." || exit 3
[ -n "$VP_RUN_REPO" ] && export VERIF_REPO="$VP_RUN_REPO"
mkdir -p build evidence replays
for sd in $SEEDS; do
for i in ${PROPS:-01 02 03 04 05 06 07 08 09 10 11 12 13 14 15 16 17 18 19 20}; do
  ( s=$(date +%s); out=$(VERIF_SEED=$sd ./check C$i --tier thorough 2>&1); rc=$?; e=$(date +%s)
    echo "seed=$sd C$i rc=$rc $((e-s))s | $(echo "$out" | grep '^\[C' | head -1)"
    [ $rc -ne 0 ] && echo "$out" | grep -v WARNING | tail -12 ) &
  while [ $(jobs -r | wc -l) -ge 3 ]; do sleep 2; done
done
done
wait
