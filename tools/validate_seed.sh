#!/bin/sh
# usage: tools/validate_seed.sh <seed dir with patch.diff demo.py>
# Confirms on a scratch worktree of /repo HEAD: patch applies, suite passes with it, demo fails
# with it and passes without it.  Prints one line: <dir> apply=.. tests=.. demo_with=.. demo_without=..
D="$(cd "$1" && pwd)"; N=$(basename "$D")
WT=/tmp/vs/$N
rm -rf "$WT"; mkdir -p /tmp/vs
git -C /repo worktree add -q --detach "$WT" HEAD || exit 3
cd "$WT" || exit 3
cp "$D/demo.py" "$WT/_demo.py"
/venv/bin/python _demo.py >/dev/null 2>&1; R0=$?
if git apply --check "$D/patch.diff" 2>/dev/null; then
  git apply "$D/patch.diff"; AP=ok
  T=$(/venv/bin/python -m pytest -q -p no:cacheprovider -x 2>&1 | tail -1)
  /venv/bin/python _demo.py >/dev/null 2>&1; R1=$?
else AP=FAIL; T=-; R1=-; fi
cd /; git -C /repo worktree remove --force "$WT"
echo "$N apply=$AP tests=[$T] demo_with=$R1 demo_without=$R0"
