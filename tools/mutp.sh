#!/bin/sh
# usage: tools/mutp.sh <patch.diff> KEY...   — engine P for KEY... on a scratch copy of /repo with the patch applied
P="$(realpath "$1")"; shift
D=$(mktemp -d); cp -r /repo/func_adl "$D/"; (cd "$D" && patch -p1 -s < "$P") || { echo "patch failed"; rm -rf "$D"; exit 2; }
VERIF_REPO="$D" PYTHONPATH="$(dirname "$0")/.." python3-vt -m pyvc.run "$@" 2>&1 | grep -v "^WARN\|^world built"
rm -rf "$D"
