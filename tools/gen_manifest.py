#!/usr/bin/env python3
"""Regenerate MANIFEST.json from props_meta.META (run from /verif)."""
import json, os, sys
ROOT = os.path.dirname(os.path.dirname(os.path.abspath(__file__)))
sys.path.insert(0, ROOT)
from props_meta import META, NOT_APPLICABLE

props = [json.loads(l) for l in open(os.path.join(ROOT, "properties.jsonl"))]
checks = []
for p in props:
    pid = p["id"]
    if pid not in META:
        continue
    m = META[pid]
    checks.append({
        "property_id": pid,
        "quick_cmd": f"./check {pid} --tier quick",
        "thorough_cmd": f"./check {pid} --tier thorough",
        "evidence_file": f"evidence/{pid}.json",
        "replay_cmd_template": f"./check {pid} --replay {{path}}",
        "engine": "pyvc+bcc",
        "level_claimed": {"category": m["level"], "text": m["level_text"],
                          "design_ref": f"DESIGN.md section 4 ({pid})"},
        "level_note": m["level_note"],
        "technique": m["technique"],
    })
na = [{"property_id": p["id"], "reason": NOT_APPLICABLE.get(p["id"], "check not built yet")}
      for p in props if p["id"] not in META]
man = {
    "version": 1,
    "setup_cmd": "./setup.sh",
    "hooks": {"guard": "FUNC_ADL_VERIF",
              "enable": "no hook code is needed in /repo: contracts are a sidecar under /verif/contracts, "
                        "obligations are generated from /repo source text, bounded contract checks wrap the "
                        "real functions at run time",
              "baseline_off_cmd": "cd /repo && /venv/bin/python -m pytest -ra -q -p no:cacheprovider "
                                  "--timeout=900 --continue-on-collection-errors",
              "source_commits": [], "add_only": True},
    "engines": [
        {"name": "pyvc", "path": "pyvc/", "serves_properties": [c["property_id"] for c in checks],
         "kind_free_text": "engine P: own VC generator — symbolic execution of the real functions' source "
                           "(re-read every run) against sidecar contracts, obligations discharged by z3 5.1; "
                           "lemmas by structural induction; Lean 4 lemma layer for folds"},
        {"name": "bcc", "path": "bcc/", "serves_properties": [c["property_id"] for c in checks],
         "kind_free_text": "engine B: the same contracts checked on the real functions under the library's "
                           "interpreter on enumerated inputs up to a stated bound (bounded stand-in, never "
                           "counted as proved); also replays counter-models"},
    ],
    "checks": checks,
    "notes": "Exit codes of ./check: 0 held, 1 violation (VIOLATION line), 3 the check itself is broken. "
             "known_findings.jsonl lists repaired (fixed:) and recorded (known) genuine defects.",
    "not_applicable": na,
}
json.dump(man, open(os.path.join(ROOT, "MANIFEST.json"), "w"), indent=1)
print(f"{len(checks)} checks, {len(na)} not claimed")
