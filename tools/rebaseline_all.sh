#!/bin/bash
# usage: tools/rebaseline_all.sh   — every check with --rebaseline (deliberate; on the unchanged tree only), summary
cd "$(dirname "$0")/.." || exit 3
for i in 01 02 03 04 05 06 07 08 09 10 11 12 13 14 15 16 17 18 19 20; do
  out=$(./check C$i --rebaseline 2>&1); rc=$?
  echo "C$i rc=$rc $(echo "$out" | grep -c KNOWN-FINDING) known | $(echo "$out" | grep '^\[C' | head -1)"
  [ $rc -ne 0 ] && echo "$out" | tail -4
done
