#!/usr/bin/env python3
"""Like seed_matrix.py, but never touches /repo: every seeded change is applied to its own scratch
copy of /repo's HEAD (git worktree outside /repo and /verif, removed afterwards), the property's
quick check runs against that copy (VERIF_REPO) with its output redirected (VERIF_OUT), N seeds in
parallel.  usage: tools/seed_matrix2.py [-j N] [seed ...]   -> seeded/<id>/meta.json, seeded/MATRIX.md"""
import glob, json, os, re, shutil, subprocess, sys, tempfile, time
from concurrent.futures import ThreadPoolExecutor
ROOT = os.path.dirname(os.path.dirname(os.path.abspath(__file__)))
os.chdir(ROOT)
args = sys.argv[1:]
jobs = 4
if args[:1] == ["-j"]:
    jobs = int(args[1]); args = args[2:]
only = args
BASE = tempfile.mkdtemp(prefix="seedmx_")


def sh(cmd, **kw):
    return subprocess.run(cmd, shell=True, capture_output=True, text=True, **kw)


def one(d):
    name = os.path.basename(d)
    prop = name.split("_")[0]
    meta = json.load(open(os.path.join(d, "meta.json")))
    v = sh(f"tools/validate_seed.sh {d}").stdout.strip().splitlines()[-1]
    wt = os.path.join(BASE, name)
    out = os.path.join(BASE, name + "_out")
    sh(f"git -C /repo worktree add -q --detach {wt} HEAD")
    try:
        ap = sh(f"git -C {wt} apply {os.path.abspath(d)}/patch.diff")
        if ap.returncode != 0:
            return (name, "patch does not apply", "", "")
        t0 = time.time()
        r = sh("./check " + prop, env=dict(os.environ, VERIF_REPO=wt, VERIF_OUT=out, VERIF_JOBS="4"))
        o = r.stdout
        viol = [l for l in o.splitlines() if l.startswith("VIOLATION")]
        first = [l.strip() for l in o.splitlines() if l.strip().startswith("violated:")][:1]
        engine = ""
        if viol:
            rp = re.search(r"replay=(\S+)", viol[0]).group(1)
            try:
                engine = json.load(open(os.path.join(out, rp))).get("engine") or ""
            except Exception:
                pass
        pl = [l for l in o.splitlines() if "engine P:" in l and "violated" in l]
        still = "demo_with=1" in v
        meta["verified"] = {"validated_on_current_repo_head": v, "check": f"./check {prop}", "exit": r.returncode,
                            "violation_line": viol[0] if viol else None, "caught_by_engine": engine,
                            "first_violated_contract": first[0][:300] if first else None,
                            "still_property_breaking": still, "wall_s": round(time.time() - t0, 1)}
        json.dump(meta, open(os.path.join(d, "meta.json"), "w"), indent=1)
        row = (name, "detected (exit 1)" if r.returncode == 1 else f"exit {r.returncode}",
               engine + (" +P" if pl and engine != "P" else ""),
               (first[0][:110] if first else ("no longer property-breaking on the repaired tree" if not still else "")))
        print(row, flush=True)
        return row
    finally:
        sh(f"git -C /repo worktree remove --force {wt}")
        shutil.rmtree(out, ignore_errors=True)


seeds = [d for d in sorted(glob.glob("seeded/C*_*")) if not only or os.path.basename(d) in only]
with ThreadPoolExecutor(jobs) as ex:
    rows = list(ex.map(one, seeds))
shutil.rmtree(BASE, ignore_errors=True)
sh("git -C /repo worktree prune")
if only and os.path.exists("seeded/MATRIX.md"):
    have = {r[0] for r in rows}
    for line in open("seeded/MATRIX.md").read().splitlines()[2:]:
        cells = [c.strip() for c in line.strip().strip("|").split(" | ")]
        if len(cells) >= 4 and cells[0] not in have:
            rows.append(tuple(cells[:4]))
rows.sort()
with open("seeded/MATRIX.md", "w") as f:
    f.write("| seeded change | result of the property's quick check | engine | first violated contract |\n|---|---|---|---|\n")
    for r in rows:
        f.write("| " + " | ".join(r) + " |\n")
