#!/usr/bin/env python3
"""usage: tools/mut.py FILE 'OLD' 'NEW' KEY...   — engine P on a scratch copy of /repo in which the
first occurrence of OLD in FILE is replaced by NEW (self-test of contracts against broken code).
The scratch copy lives outside /repo and /verif and is removed before returning."""
import os, shutil, subprocess, sys, tempfile
f, old, new, keys = sys.argv[1], sys.argv[2], sys.argv[3], sys.argv[4:]
d = tempfile.mkdtemp(prefix="mut_")
try:
    shutil.copytree("/repo/func_adl", os.path.join(d, "func_adl"))
    p = os.path.join(d, f)
    s = open(p).read()
    if old not in s:
        sys.exit(f"OLD text not found in {f}")
    open(p, "w").write(s.replace(old, new, 1))
    env = dict(os.environ, VERIF_REPO=d, PYTHONPATH=os.path.dirname(os.path.dirname(os.path.abspath(__file__))))
    r = subprocess.run(["python3-vt", "-m", "pyvc.run"] + keys, env=env, capture_output=True, text=True, timeout=3000)
    print("\n".join(l for l in r.stdout.splitlines() if not l.startswith("world built")))
    if r.returncode:
        print(r.stderr[-3000:])
finally:
    shutil.rmtree(d, ignore_errors=True)
