#!/bin/sh
# usage: tools/try_patch.sh <patch.diff> <PROP>...   applies to /repo, runs quick checks, reverts
P="$(realpath "$1")"; shift
cd /repo || exit 3
if ! git apply --check "$P" 2>/dev/null; then
  if ! git apply --3way --check "$P" 2>/dev/null; then echo "PATCH DOES NOT APPLY: $P"; exit 2; fi
  git apply --3way "$P" >/dev/null 2>&1
else
  git apply "$P"
fi
for id in "$@"; do
  (cd /verif && ./check "$id" 2>&1 | grep -v "^WARNING" | tail -8; )
done
git -C /repo checkout -- . ; git -C /repo reset -q
