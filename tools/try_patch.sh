#!/bin/sh
# usage: tools/try_patch.sh <patch.diff> <PROP>...   applies to /repo, runs quick checks, restores HEAD
P="$(realpath "$1")"; shift
cd /repo || exit 3
if [ -n "$(git status --porcelain)" ]; then echo "/repo is dirty, refusing"; exit 3; fi
if git apply --check "$P" 2>/dev/null; then git apply "$P"
elif git apply --3way --check "$P" 2>/dev/null; then git apply --3way "$P" >/dev/null 2>&1
else echo "PATCH DOES NOT APPLY: $P"; exit 2; fi
# evidence files describe the UNCHANGED tree: keep them out of reach of runs on a patched tree
EV=$(mktemp -d); cp -a /verif/evidence/. "$EV"/
for id in "$@"; do
  (cd /verif && ./check "$id" 2>&1 | grep -v "^WARNING" | tail -${TAIL:-6}; )
done
git -C /repo reset -q --hard HEAD
cp -a "$EV"/. /verif/evidence/; rm -rf "$EV"
