#!/usr/bin/env python3
"""Print the 'levels actually reached' table (DESIGN 9.3) from evidence/*.json and MANIFEST.json."""
import glob, json, os
ROOT = os.path.dirname(os.path.dirname(os.path.abspath(__file__)))
man = {c["property_id"]: c for c in json.load(open(os.path.join(ROOT, "MANIFEST.json")))["checks"]}
print("| id | level | engine P on the current tree (functions incl. lemmas · obligations discharged / generated) | engine B (cases · distinct non-trivial) |")
print("|---|---|---|---|")
for f in sorted(glob.glob(os.path.join(ROOT, "evidence", "C*.json"))):
    ev = json.load(open(f))
    cov = ev.get("coverage", {})
    pid = ev.get("property_id") or os.path.basename(f)[:-5]
    fns = cov.get("functions_under_contract", [])
    n_l = sum(1 for x in fns if x["function"].startswith("lemma::"))
    proved = sum(1 for x in fns if x.get("status") == "proved")
    print(f"| {pid} | {ev.get('level')} | {len(fns) - n_l} functions + {n_l} lemmas ({proved} fully discharged) · "
          f"{cov.get('discharged')} / {cov.get('obligations')} | {cov.get('evaluations')} · {cov.get('distinct_nontrivial')} |")
