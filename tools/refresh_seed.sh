#!/bin/bash
# re-base a seeded patch onto /repo HEAD via a 3-way apply in a scratch worktree
D="$(cd "$1" && pwd)"; WT=/tmp/vs/refresh_$(basename $D)
rm -rf $WT; mkdir -p /tmp/vs; git -C /repo worktree add -q --detach $WT HEAD || exit 3
cd $WT
if git apply --check "$D/patch.diff" 2>/dev/null; then echo "$(basename $D): applies as is";
elif git apply --3way "$D/patch.diff" >/dev/null 2>&1 && ! grep -rq '^<<<<<<<' func_adl; then
  git diff HEAD -- func_adl > "$D/patch.diff"; echo "$(basename $D): re-based"
else echo "$(basename $D): CONFLICT - port by hand"; fi
cd /; git -C /repo worktree remove --force $WT
