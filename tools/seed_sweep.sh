#!/bin/bash
# usage: tools/seed_sweep.sh "1 2 3" [quick|thorough]  — every check under several VERIF_SEED values
SEEDS=${1:-"1 2 3"}
T=${2:-quick}
cd "$(dirname "$0")/.." || exit 3
for sd in $SEEDS; do
for i in 01 02 03 04 05 06 07 08 09 10 11 12 13 14 15 16 17 18 19 20; do
  ( out=$(VERIF_SEED=$sd ./check C$i --tier $T 2>&1); rc=$?;
    echo "seed=$sd C$i rc=$rc | $(echo "$out" | grep '^\[C' | head -1)";
    [ $rc -ne 0 ] && echo "$out" | grep -v WARNING | tail -6 ) &
  while [ $(jobs -r | wc -l) -ge 4 ]; do sleep 1; done
done
done
wait
