"""Sidecar contracts: func_adl/object_stream.py and func_adl/event_dataset.py
(C01 shapes, C11 frames, C12, C13 entry points, C16).  Streams are executor-level records with the
fields _q_ast / _item_type; `modifies = []` means: no object that existed before the call is
written (every store goes to an object allocated in the call)."""
from pyvc import contracts as C

F = "func_adl/object_stream.py"
E = "func_adl/event_dataset.py"
M = "func_adl/ast/meta_data.py"
CLS = f"{F}::ObjectStream"


def _ctor(ex, args, kw, e, env):
    from pyvc.values import Obj, Z
    the_ast = args[0] if args else kw.get("the_ast")
    item_type = args[1] if len(args) > 1 else kw.get("item_type", Z(ex.w.opaque("typing.Any")))
    return Obj(CLS, {"_q_ast": the_ast, "_item_type": item_type}, fresh="shallow")


def register(w):
    w.class_ctor[CLS] = _ctor
    C.register_class(w, {
        "key": CLS,
        "base": None,
        "state": {"_q_ast": "py", "_item_type": "py"},
        "property_of": {"query_ast": "_q_ast", "item_type": "_item_type"},
        "properties": ["C11", "C12", "C13", "C16", "C01"],
    })
    C.register(w, {
        "key": f"{CLS}.clone_with_new_ast",
        "self": CLS,
        "params": {"new_ast": "py", "new_type": "py"},
        "ensures": ["same(result._q_ast, new_ast)", "same(result._item_type, new_type)"],
        "result_attr_is": {"_q_ast": "new_ast", "_item_type": "new_type"},
        "ret": f"obj:{CLS}",
        "fresh": "shallow",
        "modifies": [],
        "result_is_obj": True,
        "no_calls": True,
        "properties": ["C11", "C01", "C12"],
    })
    C.register(w, {
        "key": f"{CLS}.value_async",
        "self": CLS,
        "params": {"executor": "py", "title": "py"},
        "requires": ["has_executor_on_spine(self._q_ast)", "wf(self._q_ast)", "md_wf(self._q_ast)"],
        # exactly ONE executor call: the override if given, else the executor of the first node on
        # the args[0] chain carrying one; with the query minus empty MetaData wrappers and the title;
        # the result is passed through (an exception of the executor propagates: no handler here)
        "ensures": ["n_calls() == 1",
                    "implies(executor is not None, same(call_fn(0), executor))",
                    "implies(executor is None, same(call_fn(0), spine_executor(self._q_ast)))",
                    "same(call_arg(0, 0), drop_empty_metadata(self._q_ast))",
                    "same(call_arg(0, 1), title)",
                    "same(result, call_result(0))"],
        "modifies": [],
        "assumes": ["`await f(x)` runs the call once to completion and yields/raises its outcome; "
                    "make_sync(value_async) does the same synchronously (trusted)",
                    "asyncio's cooperative scheduling: value_async has one suspension point and "
                    "writes no shared state, so concurrently awaited calls are independent; OS-thread "
                    "schedules are not modelled"],
        "properties": ["C12", "C11"],
    })
    C.register(w, {
        "key": f"{CLS}.MetaData",
        "self": CLS,
        "params": {"metadata": "py"},
        "requires": ["embeddable(metadata)"],
        "ensures": ["same(result._q_ast, ast.Call(ast.Name('MetaData'), "
                    "[old(self._q_ast), lambda_of(source_of(metadata))], []))",
                    "same(result._item_type, old(self._item_type))"],
        "ret": f"obj:{CLS}",
        "modifies": [],
        "no_calls": True,
        "properties": ["C11", "C13", "C01", "C12"],
    })
    for name, op, nargs in (("AsPandasDF", "ResultPandasDF", 1), ("AsAwkwardArray", "ResultAwkwardArray", 1)):
        C.register(w, {
            "key": f"{CLS}.{name}",
            "self": CLS,
            "params": {"columns": "py"},
            "requires": ["embeddable(columns)", "isinstance(columns, str) or isinstance(columns, list)"],
            "ensures": [f"same(result._q_ast, ast.Call(ast.Name('{op}'), [old(self._q_ast), "
                        "lambda_of(source_of(as_column_list(columns)))], []))"],
            "ret": f"obj:{CLS}",
            "modifies": [],
            "properties": ["C11", "C13", "C01"],
        })
    C.register(w, {
        "key": f"{CLS}.AsROOTTTree",
        "self": CLS,
        "params": {"filename": "py", "treename": "py", "columns": "py"},
        "requires": ["embeddable(columns)", "embeddable(filename)", "embeddable(treename)",
                     "isinstance(columns, str) or isinstance(columns, list)"],
        "ensures": ["same(result._q_ast, ast.Call(ast.Name('ResultTTree'), [old(self._q_ast), "
                    "lambda_of(source_of(as_column_list(columns))), lambda_of(source_of(treename)), "
                    "lambda_of(source_of(filename))], []))"],
        "ret": f"obj:{CLS}",
        "modifies": [],
        "no_calls": True,
        "properties": ["C11", "C13", "C01", "C12"],
    })
    C.register(w, {
        "key": f"{CLS}.AsParquetFiles",
        "self": CLS,
        "params": {"filename": "py", "columns": "py"},
        "requires": ["embeddable(columns)", "embeddable(filename)",
                     "isinstance(columns, str) or isinstance(columns, list)"],
        "ensures": ["same(result._q_ast, ast.Call(ast.Name('ResultParquet'), [old(self._q_ast), "
                    "lambda_of(source_of(as_column_list(columns))), lambda_of(source_of(filename))], []))"],
        "ret": f"obj:{CLS}",
        "modifies": [],
        "no_calls": True,
        "properties": ["C11", "C13", "C01", "C12"],
    })
    C.register(w, {
        "key": f"{CLS}._get_executor",
        "self": CLS,
        "params": {"executor": "py"},
        # representation invariant of every stream built by the library: the args[0] chain of the
        # query ends in a node carrying the executor reference
        "requires": ["has_executor_on_spine(self._q_ast)"],
        "ensures": ["implies(executor is not None, same(result, executor))",
                    "implies(executor is None, same(result, spine_executor(self._q_ast)))"],
        "modifies": [],
        "loops": {0: {"invariant": ["has_executor_on_spine(node)",
                                    "same(spine_executor(node), spine_executor(self._q_ast))"]}},
        "properties": ["C12"],
    })


# ---- the three query operators and QMetaData (C11 frame, C01/C12 shape, C16 store) ---------------
_reg_base = register


def register(w):
    _reg_base(w)
    U = "func_adl/util_ast.py"
    T = "func_adl/type_based_replacement.py"
    C.register(w, {
        "key": f"{U}::parse_as_ast",
        "params": {"ast_source": "py", "caller_name": "py"},
        "raises": {"ValueError": "any"},
        "ensures": ["isinstance(result, ast.Lambda)", "wf(result)",
                    "same(result, uf('parsed', ast_source, caller_name))"],
        "abstract": True, "trusted": True,
        "assumes": ["parse_as_ast (source recovery, capture, helper inlining: C03 / C04 / C05, "
                    "bounded there) returns a well-formed Lambda or raises ValueError; for a lambda "
                    "given as an AST it returns that very object (no copy)"],
        "properties": ["C11", "C01", "C12"],
    })
    C.register(w, {
        "key": f"{T}::remap_from_lambda",
        "params": {"o_stream": f"obj:{CLS}", "l_func": "py", "known_types": "py"},
        "raises": {"ValueError": "any"},
        "ret": f"tuple(obj:{CLS}, py, py)",
        # the stream that comes back is the one handed in, wrapped in zero or more MetaData calls
        # (what callbacks attached); the lambda stays a lambda
        "ensures": ["md_over(result[0]._q_ast, o_stream._q_ast)",
                    "isinstance(result[1], ast.Lambda)", "wf(result[1])",
                    "same(result[0]._q_ast, uf('remap_q', o_stream._q_ast, l_func, known_types))",
                    "same(result[1], uf('remap_lambda', o_stream._q_ast, o_stream._item_type, l_func, known_types))",
                    "same(result[2], uf('remap_type', o_stream._q_ast, o_stream._item_type, l_func, known_types))"],
        "modifies": [],
        "abstract": True, "trusted": True,
        "assumes": ["remap_from_lambda (type following: typing / inspect reflection, C07-C10, "
                    "bounded there) returns (stream, lambda, type) where the stream's query is the "
                    "given stream's query under zero or more MetaData wrappers, or raises "
                    "ValueError; it writes to no stream (it may edit the lambda AST it is given in "
                    "place: the recorded C11 finding for a Lambda object shared by the caller)"],
        "properties": ["C11", "C01", "C12"],
    })
    C.register(w, {
        "key": f"{F}::_local_simplification",
        "params": {"a": "py"},
        "requires": ["isinstance(a, ast.Lambda)", "wf(a)"],
        "raises": {"ValueError": "any"},
        "ensures": ["same(result, lower_sugar(a))", "isinstance(result, ast.Lambda)"],
        "modifies": ["*"],
        "properties": ["C06", "C01"],
    })
    for op, par in (("Select", "f"), ("SelectMany", "func"), ("Where", "filter")):
        C.register(w, {
            "key": f"{CLS}.{op}",
            "self": CLS,
            "params": {par: "py", "known_types": "py"},
            "raises": {"ValueError": "any"},
            # Op(<this stream's query under the MetaData the callbacks attached>, <lambda>), built
            # on a NEW stream object: the stream the operator is called on is not written
            "ensures": ["isinstance(result._q_ast, ast.Call)",
                        "isinstance(result._q_ast.func, ast.Name)",
                        f"result._q_ast.func.id == '{op}'",
                        "len(result._q_ast.args) == 2", "len(result._q_ast.keywords) == 0",
                        "md_over(result._q_ast.args[0], old(self._q_ast))",
                        "isinstance(result._q_ast.args[1], ast.Lambda)",
                        "all_legal(result._q_ast.args[1])",
                        "same(self._q_ast, old(self._q_ast))",
                        "same(self._item_type, old(self._item_type))",
                        # exactly: the stream / lambda the type follower returned for the lowered
                        # form of the recovered lambda (nothing dropped, nothing added)
                        "same(result._q_ast.args[0], uf('remap_q', old(self._q_ast), "
                        f"lower_sugar(uf('parsed', {par}, '{op}')), known_types))",
                        "same(result._q_ast.args[1], uf('remap_lambda', old(self._q_ast), "
                        f"old(self._item_type), lower_sugar(uf('parsed', {par}, '{op}')), known_types))",
                        {"Where": "same(result._item_type, old(self._item_type)) and same(uf('remap_type', old(self._q_ast), "
                                  f"old(self._item_type), lower_sugar(uf('parsed', {par}, '{op}')), known_types), bool)",
                         "Select": "same(result._item_type, uf('remap_type', old(self._q_ast), "
                                   f"old(self._item_type), lower_sugar(uf('parsed', {par}, '{op}')), known_types))",
                         "SelectMany": "same(result._item_type, uf('func_adl_util_types_unwrap_iterable', uf('remap_type', old(self._q_ast), "
                                   f"old(self._item_type), lower_sugar(uf('parsed', {par}, '{op}')), known_types)))"}[op]],
            "raises_iff_note": "Where additionally refuses a filter whose type is not bool",
            "ret": f"obj:{CLS}",
            "modifies": [],
            "properties": ["C11", "C01", "C12"],
        })


_reg_ops = register


def register(w):
    _reg_ops(w)
    C.register(w, {
        "key": f"{CLS}.QMetaData",
        "self": CLS,
        "params": {"metadata": "dict"},
        "requires": ["is_node(self._q_ast)", "wf(self._q_ast)", "qmd_ok(self._q_ast)",
                     # representation invariant: the attribute, where present, holds a dictionary
                     # (QMetaData is its only writer)
                     "implies(has_qmd(self._q_ast), is_dict(qmd(self._q_ast)))"],
        "raises": {},
        # the query is structurally the same tree (nothing a backend, the dump or the hash sees
        # changes), on a new stream object; the stream QMetaData is called on is not written
        "ensures": ["same(result._q_ast, old(self._q_ast))",
                    "same(result._item_type, old(self._item_type))",
                    "same(self._q_ast, old(self._q_ast))",
                    "same(self._item_type, old(self._item_type))"],
        "ret": f"obj:{CLS}",
        "modifies": [],
        "loops": {0: {"invariant": []}},
        "properties": ["C16", "C11"],
    })
