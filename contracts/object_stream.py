"""Sidecar contracts: func_adl/object_stream.py and func_adl/event_dataset.py
(C01 shapes, C11 frames, C12, C13 entry points, C16).  Streams are executor-level records with the
fields _q_ast / _item_type; `modifies = []` means: no object that existed before the call is
written (every store goes to an object allocated in the call)."""
from pyvc import contracts as C

F = "func_adl/object_stream.py"
E = "func_adl/event_dataset.py"
M = "func_adl/ast/meta_data.py"
CLS = f"{F}::ObjectStream"


def _ctor(ex, args, kw, e, env):
    from pyvc.values import Obj, Z
    the_ast = args[0] if args else kw.get("the_ast")
    item_type = args[1] if len(args) > 1 else kw.get("item_type", Z(ex.w.opaque("typing.Any")))
    return Obj(CLS, {"_q_ast": the_ast, "_item_type": item_type}, fresh="shallow")


def register(w):
    w.class_ctor[CLS] = _ctor
    C.register_class(w, {
        "key": CLS,
        "base": None,
        "state": {"_q_ast": "py", "_item_type": "py"},
        "property_of": {"query_ast": "_q_ast", "item_type": "_item_type"},
        "properties": ["C11", "C12", "C13", "C16", "C01"],
    })
    C.register(w, {
        "key": f"{CLS}.clone_with_new_ast",
        "self": CLS,
        "params": {"new_ast": "py", "new_type": "py"},
        "ensures": ["same(result._q_ast, new_ast)", "same(result._item_type, new_type)"],
        "ret": f"obj:{CLS}",
        "fresh": "shallow",
        "modifies": [],
        "result_is_obj": True,
        "no_calls": True,
        "properties": ["C11", "C01", "C12"],
    })
    C.register(w, {
        "key": f"{CLS}.value_async",
        "self": CLS,
        "params": {"executor": "py", "title": "py"},
        "requires": ["has_executor_on_spine(self._q_ast)", "wf(self._q_ast)", "md_wf(self._q_ast)"],
        # exactly ONE executor call: the override if given, else the executor of the first node on
        # the args[0] chain carrying one; with the query minus empty MetaData wrappers and the title;
        # the result is passed through (an exception of the executor propagates: no handler here)
        "ensures": ["n_calls() == 1",
                    "implies(executor is not None, same(call_fn(0), executor))",
                    "implies(executor is None, same(call_fn(0), spine_executor(self._q_ast)))",
                    "same(call_arg(0, 0), drop_empty_metadata(self._q_ast))",
                    "same(call_arg(0, 1), title)",
                    "same(result, call_result(0))"],
        "modifies": [],
        "assumes": ["`await f(x)` runs the call once to completion and yields/raises its outcome; "
                    "make_sync(value_async) does the same synchronously (trusted)",
                    "asyncio's cooperative scheduling: value_async has one suspension point and "
                    "writes no shared state, so concurrently awaited calls are independent; OS-thread "
                    "schedules are not modelled"],
        "properties": ["C12", "C11"],
    })
    C.register(w, {
        "key": f"{CLS}.MetaData",
        "self": CLS,
        "params": {"metadata": "py"},
        "requires": ["embeddable(metadata)"],
        "ensures": ["same(result._q_ast, ast.Call(ast.Name('MetaData'), "
                    "[old(self._q_ast), lambda_of(source_of(metadata))], []))",
                    "same(result._item_type, old(self._item_type))"],
        "ret": f"obj:{CLS}",
        "modifies": [],
        "no_calls": True,
        "properties": ["C11", "C13", "C01", "C12"],
    })
    for name, op, nargs in (("AsPandasDF", "ResultPandasDF", 1), ("AsAwkwardArray", "ResultAwkwardArray", 1)):
        C.register(w, {
            "key": f"{CLS}.{name}",
            "self": CLS,
            "params": {"columns": "py"},
            "requires": ["embeddable(columns)", "isinstance(columns, str) or isinstance(columns, list)"],
            "ensures": [f"same(result._q_ast, ast.Call(ast.Name('{op}'), [old(self._q_ast), "
                        "lambda_of(source_of(as_column_list(columns)))], []))"],
            "ret": f"obj:{CLS}",
            "modifies": [],
            "properties": ["C11", "C13", "C01"],
        })
    C.register(w, {
        "key": f"{CLS}.AsROOTTTree",
        "self": CLS,
        "params": {"filename": "py", "treename": "py", "columns": "py"},
        "requires": ["embeddable(columns)", "embeddable(filename)", "embeddable(treename)",
                     "isinstance(columns, str) or isinstance(columns, list)"],
        "ensures": ["same(result._q_ast, ast.Call(ast.Name('ResultTTree'), [old(self._q_ast), "
                    "lambda_of(source_of(as_column_list(columns))), lambda_of(source_of(treename)), "
                    "lambda_of(source_of(filename))], []))"],
        "ret": f"obj:{CLS}",
        "modifies": [],
        "no_calls": True,
        "properties": ["C11", "C13", "C01", "C12"],
    })
    C.register(w, {
        "key": f"{CLS}.AsParquetFiles",
        "self": CLS,
        "params": {"filename": "py", "columns": "py"},
        "requires": ["embeddable(columns)", "embeddable(filename)",
                     "isinstance(columns, str) or isinstance(columns, list)"],
        "ensures": ["same(result._q_ast, ast.Call(ast.Name('ResultParquet'), [old(self._q_ast), "
                    "lambda_of(source_of(as_column_list(columns))), lambda_of(source_of(filename))], []))"],
        "ret": f"obj:{CLS}",
        "modifies": [],
        "no_calls": True,
        "properties": ["C11", "C13", "C01", "C12"],
    })
    C.register(w, {
        "key": f"{CLS}._get_executor",
        "self": CLS,
        "params": {"executor": "py"},
        # representation invariant of every stream built by the library: the args[0] chain of the
        # query ends in a node carrying the executor reference
        "requires": ["has_executor_on_spine(self._q_ast)"],
        "ensures": ["implies(executor is not None, same(result, executor))",
                    "implies(executor is None, same(result, spine_executor(self._q_ast)))"],
        "modifies": [],
        "loops": {0: {"invariant": ["has_executor_on_spine(node)",
                                    "same(spine_executor(node), spine_executor(self._q_ast))"]}},
        "properties": ["C12"],
    })
