"""Sidecar contracts: func_adl/type_based_replacement.py  (C07; tables of C08/C10 to follow)."""
from pyvc import contracts as C

F = "func_adl/type_based_replacement.py"


def register(w):
    C.register(w, {
        "key": f"{F}::_find_keyword",
        "params": {"keywords": "list", "name": "str"},
        "requires": ["all_keywords(keywords)"],
        "ensures": ["same(result[0], kw_value(keywords, name))",
                    "same(result[1], kw_without(keywords, name))",
                    "iff(result[0] is None, not kw_has(keywords, name))"],
        "ret": "tuple(py,list)",
        "modifies": [],
        "loops": {0: {"invariant": ["not kw_has(_done, name)", "all_keywords(_done)",
                                    "all_keywords(_rest)"],
                      "hints": ["lem_kwv(_done, _rest, name)", "lem_kww(_done, _rest, name)",
                                "lem_kwh(_done, _rest, name)", "lem_rm(_done, _rest, name)",
                                "lem_in(_done, _rest)"],
                      "step_hints": ["lem_kwh(_done, [head(_rest)], name)",
                                     "lem_allkw_concat(_done, [head(_rest)])"]}},
        "native": {"imports": "from func_adl.type_based_replacement import _find_keyword",
                   "call": "_find_keyword(keywords, name)"},
        "properties": ["C07"],
    })
    C.register(w, {
        "key": f"{F}::_fill_in_default_arguments",
        "params": {"func": "py", "call": "py"},
        "requires": ["isinstance(call, ast.Call)", "wf(call)", "all_keywords(call.keywords)"],
        "ghost": {"P": "nonself(params_of(func))", "n0": "len(call.args)"},
        # property C07, with inspect's parameter list as the declared signature:
        "raises": {"ValueError": "not callable(func) or fill_missing(P, n0, call.keywords)"},
        "raises_iff": {"ValueError": "not callable(func) or fill_missing(P, n0, call.keywords)"},
        "ensures": ["same(result[0].args, concat(call.args, bind_tail(P, n0, call.keywords)))",
                    "same(result[0].keywords, kws_left(P, n0, call.keywords))",
                    "same(result[0].func, call.func)"],
        "ret": "tuple(py,py)",
        "modifies": [],
        "loops": {0: {"invariant": [
            "all_keywords(keywords)", "all_params(_rest)",
            "len(arg_array) >= i_arg", "len(arg_array) >= n0",
            "implies(len(arg_array) == n0, same(keywords, call.keywords))",
            "implies(len(arg_array) == n0, same(arg_array, call.args))",
            "same(concat(arg_array, bind_tail(nonself(_rest), len(arg_array) - i_arg, keywords)), "
            "concat(call.args, bind_tail(P, n0, call.keywords)))",
            "same(kws_left(nonself(_rest), len(arg_array) - i_arg, keywords), "
            "kws_left(P, n0, call.keywords))",
            "fill_missing(nonself(_rest), len(arg_array) - i_arg, keywords) == "
            "fill_missing(P, n0, call.keywords)",
        ], "hints": ["implies(not is_empty(_rest), lem_absent(keywords, param_name(head(_rest))))",
                     "implies(not is_empty(_rest), lem_allkw_without(keywords, param_name(head(_rest))))"],
            "asserts": [
                # filling stops at a non-self parameter without keyword whose default is no literal
                "implies(not is_empty(_rest) and param_name(head(_rest)) != 'self' "
                "and len(arg_array) == i_arg and not kw_has(keywords, param_name(head(_rest))) "
                "and has_default(head(_rest)) and not literal_default(head(_rest)), "
                "same(kws_left(nonself(_rest), len(arg_array) - i_arg, keywords), keywords) and "
                "is_empty(bind_tail(nonself(_rest), len(arg_array) - i_arg, keywords)))"]}},
        "fuel": 3,
        "properties": ["C07"],
    })


_reg = register


def register(w):
    _reg(w)
    from pyvc.lemmas import register_lemma
    register_lemma(w, {"name": "find_kw_absent", "pred": "lem_absent", "induct": "list",
                       "fuel": 4, "properties": ["C07"]})
    register_lemma(w, {"name": "find_kw_allkw_concat", "pred": "lem_allkw_concat", "induct": "list",
                       "fuel": 4, "properties": ["C07"]})
    register_lemma(w, {"name": "find_kw_allkw_without", "pred": "lem_allkw_without", "induct": "list",
                       "fuel": 4, "properties": ["C07"]})
    for n in ("kwv", "kww", "kwh", "rm", "in"):
        register_lemma(w, {"name": f"find_kw_{n}", "pred": f"lem_{n}", "induct": "list",
                           "fuel": 4, "properties": ["C07"]})
