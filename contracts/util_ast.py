"""Sidecar contracts: term-building helpers of func_adl/util_ast.py.
Shapes derived from the code and its call sites; each is verified against the current source and
is what callers see (modular)."""
from pyvc import contracts as C

F = "func_adl/util_ast.py"


def register(w):
    C.register(w, {
        "key": f"{F}::as_literal",
        "params": {"p": "py"},
        "ensures": ["same(result, ast.Constant(p))"],
        "fresh": "shallow",
        "properties": ["C13", "C07"],
    })
    C.register(w, {
        "key": f"{F}::as_ast",
        "params": {"p_var": "py"},
        "requires": ["embeddable(p_var)"],
        # the emitted node is what CPython's parser makes of repr(value); with the trusted round
        # trip literal_eval(parse(repr(v))) == v this is "evaluates back to an equal value"
        "ensures": ["same(result, lambda_of(source_of(p_var)))"],
        "raises": {},
        "fresh": "deep",
        "native": {"imports": "from func_adl.util_ast import as_ast", "call": "as_ast(p_var)"},
        "assumes": ["CPython: ast.literal_eval(ast.parse(repr(v)).body[0].value) == v, same type, for "
                    "str/int/finite float/bool/None/bytes and list/tuple/dict nestings (cross-checked "
                    "bounded by engine B on ~10k values)",
                    "str(v) == repr(v) for those types unless v is a str"],
        "properties": ["C13"],
    })
    C.register(w, {
        "key": f"{F}::function_call",
        "params": {"function_name": "str", "args": "list"},
        "ensures": ["same(result, ast.Call(ast.Name(function_name), args, []))"],
        "fresh": "node",        # a fresh Call node that SHARES the caller's args list
        "properties": ["C01", "C02", "C17", "C19"],
    })
    C.register(w, {
        "key": f"{F}::lambda_unwrap",
        "params": {"lam": "py"},
        "requires": ["wf(lam)", "module_has_stmt(lam)"],
        # a Lambda is returned as is; a Module whose first statement is Expr(Lambda) is unwrapped;
        # anything else raises
        "raises": {"Exception": "not is_lambda_or_wrapped(lam)"},
        "ensures": ["isinstance(result, ast.Lambda)", "same(result, unwrap_spec(lam))", "wf(result)"],
        "fuel": 6,
        "properties": ["C02"],
    })
    C.register(w, {
        "key": f"{F}::lambda_body",
        "params": {"lam": "py"},
        "requires": ["wf(lam)", "module_has_stmt(lam)"],
        "raises": {"Exception": "not is_lambda_or_wrapped(lam)"},
        "ensures": ["same(result, lambda_body_of(lam))"],
        "properties": ["C02"],
    })
    C.register(w, {
        "key": f"{F}::lambda_args",
        "params": {"lam": "py"},
        "requires": ["wf(lam)", "module_has_stmt(lam)"],
        "raises": {"Exception": "not is_lambda_or_wrapped(lam)"},
        "ensures": ["same(result, lambda_args_of(lam))"],
        "properties": ["C02"],
    })
    C.register(w, {
        "key": f"{F}::lambda_build",
        "params": {"args": "py", "l_expr": "py"},
        "requires": ["isinstance(args, str) or isinstance(args, list)"],
        "ensures": ["same(result, ast.Lambda(ast.arguments([], [ast.arg(x, None) for x in "
                    "names_of(args)], None, [], [], None, []), l_expr))"],
        "fresh": "shallow",
        "properties": ["C02", "C06"],
    })
    C.register(w, {
        "key": f"{F}::lambda_body_replace",
        "params": {"lam": "py", "new_expr": "py"},
        "raises": {"Exception": "not isinstance(lam, ast.Lambda)"},
        "ensures": ["same(result, ast.Lambda(lam.args, new_expr))"],
        "fresh": "node",
        "properties": ["C02"],
    })
    C.register(w, {
        "key": f"{F}::lambda_test",
        "params": {"lam": "py", "nargs": "py"},
        "requires": ["nargs is None or isinstance(nargs, int)", "wf(lam)"],
        "ensures": ["iff(result, wrapped1(lam) and (nargs is None or lambda_nargs(lam) == nargs))"],
        "ret": "bool",
        "properties": ["C02"],
    })
    C.register(w, {
        "key": f"{F}::lambda_is_identity",
        "params": {"lam": "py"},
        "requires": ["wf(lam)"],
        "ensures": ["iff(result, is_identity_lambda(lam))"],
        "ret": "bool",
        "properties": ["C02", "C14"],
    })
    C.register(w, {
        "key": f"{F}::lambda_is_true",
        "params": {"lam": "py"},
        "requires": ["wf(lam)"],
        "ensures": ["iff(result, is_true_lambda(lam))"],
        "ret": "bool",
        "properties": ["C02"],
    })
    C.register(w, {
        "key": f"{F}::lambda_call",
        "params": {"args": "py", "lam": "py"},
        "requires": ["isinstance(args, str) or isinstance(args, list)", "wf(lam)",
                     "module_has_stmt(lam)"],
        "raises": {"Exception": "not is_lambda_or_wrapped(lam)"},
        "ensures": ["same(result, ast.Call(unwrap_spec(lam), [ast.Name(x) for x in names_of(args)], "
                    "[]))"],
        "fresh": "shallow",
        "properties": ["C02"],
    })
    C.register(w, {
        "key": f"{F}::rewrite_func_as_lambda",
        "params": {"f": "py"},
        "requires": ["isinstance(f, ast.FunctionDef)", "wf(f)"],
        "raises": {"ValueError": "not single_return(f)"},
        "raises_iff": {"ValueError": "not single_return(f)"},
        "ensures": ["same(result, ast.Lambda(f.args, the_return(f).value))"],
        "fresh": "shallow",
        "properties": ["C03", "C05"],
    })


_reg0 = register


def register(w):
    _reg0(w)
    R = f"{F}::_line_string_reader"
    C.register_class(w, {
        "key": R,
        "state": {"_lines": "list", "_current_line": "int"},
        "properties": ["C03"],
    })
    # readline(): the next stored line and advance, "" for ever once past the end; no index error
    C.register(w, {
        "key": f"{R}.readline",
        "self": R,
        "params": {},
        "requires": ["self._current_line >= 0"],
        "raises": {},
        "ensures": [
            "implies(old(self._current_line) >= len(self._lines), "
            "result == '' and self._current_line == old(self._current_line))",
            "implies(old(self._current_line) < len(self._lines), "
            "same(result, nth(self._lines, old(self._current_line))) and "
            "self._current_line == old(self._current_line) + 1)",
            "self._current_line >= 0"],
        "modifies": ["self._current_line"],
        "properties": ["C03"],
    })
    C.register(w, {
        "key": f"{F}::lambda_assure",
        "params": {"east": "py", "nargs": "py"},
        "requires": ["nargs is None or isinstance(nargs, int)", "wf(east)"],
        "raises": {"Exception": "not (wrapped1(east) and (nargs is None or lambda_nargs(east) == nargs))"},
        "raises_iff": {"Exception": "not (wrapped1(east) and (nargs is None or lambda_nargs(east) == nargs))"},
        "ensures": ["same(result, east)"],
        "modifies": [],
        "properties": ["C02"],
    })
