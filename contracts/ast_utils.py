"""Sidecar contracts: func_adl/ast/func_adl_ast_utils.py  (C17, helpers of C02/C15)."""
from pyvc import contracts as C

F = "func_adl/ast/func_adl_ast_utils.py"


def register(w):
    C.register(w, {
        "key": f"{F}::is_call_of",
        "params": {"node": "py", "func_name": "str"},
        "requires": ["wf(node)"],
        "ensures": ["iff(result, isinstance(node, ast.Call) and isinstance(node.func, ast.Name) "
                    "and node.func.id == func_name)"],
        "ret": "bool",
        "properties": ["C02", "C14", "C18"],
    })
    C.register(w, {
        "key": f"{F}::unpack_Call",
        "params": {"node": "py"},
        "requires": ["isinstance(node, ast.Call)", "wf(node)"],
        "ensures": ["implies(not isinstance(node.func, ast.Name), same(result, (None, None)))",
                    "implies(isinstance(node.func, ast.Name), "
                    "same(result, (node.func.id, node.args)))"],
        "ret": "tuple(py,py)",
        "properties": ["C02", "C15"],
    })
    C.register_class(w, {
        "key": f"{F}::change_extension_functions_to_calls.transform_calls",
        "base": "NodeTransformer",
        "visit_fn": "erase_method_form",
        "visit_fn_args": ["function_names"],
        "state": {},
        "closure_in_self": True,
        "closure_names": ["function_names"],
        "properties": ["C17"],
    })
    C.register(w, {
        "key": f"{F}::change_extension_functions_to_calls.transform_calls.visit_Call",
        "self": f"{F}::change_extension_functions_to_calls.transform_calls",
        "params": {"call_node": "py"},
        "closure": {"function_names": "list"},
        "requires": ["isinstance(call_node, ast.Call)", "wf(call_node)"],
        "ensures": ["same(result, erase_method_form(call_node, function_names))"],
        "modifies": ["*"],
        "native": {"imports": "from func_adl.ast.func_adl_ast_utils import "
                              "change_extension_functions_to_calls",
                   "call": "change_extension_functions_to_calls(call_node, function_names)"},
        "properties": ["C17"],
    })
    C.register(w, {
        "key": f"{F}::change_extension_functions_to_calls",
        "params": {"a": "py", "function_names": "list"},
        "requires": ["is_node(a)", "wf(a)"],
        "raises": {},
        "ensures": ["same(result, erase_method_form(a, function_names))"],
        "modifies": ["*"],
        "properties": ["C17"],
    })


def _lemmas(w):
    from pyvc.lemmas import register_lemma
    register_lemma(w, {"name": "erase_complete_list", "pred": "lem_erase_complete_list",
                       "induct": "list", "properties": ["C17"]})
    register_lemma(w, {"name": "erase_complete", "pred": "lem_erase_complete", "induct": "node",
                       "uses": ["erase_complete_list"], "fuel": 4, "split": {"Call": ["func"]},
                       "inline_goal": 2,
                       "properties": ["C17"]})
    register_lemma(w, {"name": "erase_idem_list", "pred": "lem_erase_idem_list",
                       "induct": "list", "properties": ["C17"]})
    register_lemma(w, {"name": "erase_idem", "pred": "lem_erase_idem", "induct": "node",
                       "uses": ["erase_idem_list"], "properties": ["C17"]})


_register_contracts = register


def register(w):
    _register_contracts(w)
    _lemmas(w)
