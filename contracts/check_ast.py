"""Sidecar contracts: func_adl/util_ast.py::check_ast (designed refusal: non-transportable constant;
C04, C10, C13)."""
from pyvc import contracts as C

F = "func_adl/util_ast.py"
K = f"{F}::check_ast.ConstantTypeChecker"


def register(w):
    C.register_class(w, {
        "key": K,
        "base": "NodeVisitor",
        "state": {},
        "visit_requires": ["wf(node)"],
        "visit_raises": {"ValueError": "not all_legal(node)"},
        "visit_ensures": ["all_legal(node)"],
        "generic_requires": ["wf(node)"],
        "generic_raises": {"ValueError": "not all_children(all_legal, node)"},
        "generic_ensures": ["all_children(all_legal, node)"],
        "properties": ["C04", "C10", "C13"],
    })
    C.register(w, {
        "key": f"{K}.visit_Constant",
        "self": K,
        "params": {"node": "py"},
        "requires": ["isinstance(node, ast.Constant)", "wf(node)"],
        "raises": {"ValueError": "not all_legal(node)"},
        "raises_iff": {"ValueError": "not all_legal(node)"},
        "ensures": ["all_legal(node)"],
        "modifies": [],
        "properties": ["C04", "C10", "C13"],
    })
    C.register(w, {
        "key": f"{F}::check_ast",
        "params": {"a": "py"},
        "requires": ["is_node(a)", "wf(a)"],
        "raises": {"ValueError": "not all_legal(a)"},
        "raises_iff": {"ValueError": "not all_legal(a)"},
        "ensures": ["all_legal(a)"],
        "modifies": [],
        "native": {"imports": "from func_adl.util_ast import check_ast", "call": "check_ast(a)"},
        "properties": ["C04", "C10", "C13"],
    })
