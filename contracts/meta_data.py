"""Sidecar contracts: func_adl/ast/meta_data.py  (C15, C16, part of C11/C12)."""
from pyvc import contracts as C

F = "func_adl/ast/meta_data.py"
U = "func_adl/ast/func_adl_ast_utils.py"


def register(w):
    # ---- _extract_metadata (a FuncADLNodeTransformer with an accumulator) -----------------
    C.register_class(w, {
        "key": f"{F}::_extract_metadata",
        "base": "NodeTransformer",
        "base_key": f"{U}::FuncADLNodeTransformer",
        "state": {"_metadata": "list"},
        "init_state": {"_metadata": "[]"},
        "property_of": {"metadata": "_metadata"},
        "visit_fn": "strip_metadata",
        "visit_requires": ["md_wf(node)"],
        "visit_effects": {"_metadata": "concat(old(self._metadata), collect_metadata(node))"},
        "generic_requires": ["md_wf(node)"],
        "generic_effects": {"_metadata": "concat(old(self._metadata), "
                                         "fold_children(collect_metadata, node))"},
        "properties": ["C15"],
    })
    C.register(w, {
        "key": f"{F}::_extract_metadata.visit_Call",
        "self": f"{F}::_extract_metadata",
        "params": {"node": "py"},
        "requires": ["isinstance(node, ast.Call)", "wf(node)", "md_wf(node)"],
        "ensures": ["same(result, strip_metadata(node))",
                    "same(self._metadata, concat(old(self._metadata), collect_metadata(node)))"],
        "modifies": ["*"],
        "properties": ["C15"],
    })
    # the inherited FuncADLNodeTransformer.visit_Call, verified in the context of this class
    # (it has no call_<name> methods, so the dispatch always ends in generic_visit)
    C.register(w, {
        "key": f"{F}::_extract_metadata.super.visit_Call",
        "source": f"{U}::FuncADLNodeTransformer.visit_Call",
        "self": f"{F}::_extract_metadata",
        "method": True,
        "params": {"node": "py"},
        "requires": ["isinstance(node, ast.Call)", "wf(node)", "md_wf(node)"],
        "ensures": ["same(result, map_children(strip_metadata, node))",
                    "same(self._metadata, concat(old(self._metadata), "
                    "fold_children(collect_metadata, node)))"],
        "self_effects": {"_metadata": "concat(old(self._metadata), "
                                      "fold_children(collect_metadata, node))"},
        "result_is": "map_children(strip_metadata, node)",
        "modifies": ["*"],
        "properties": ["C15"],
    })
    C.register(w, {
        "key": f"{F}::extract_metadata",
        "params": {"a": "py"},
        "requires": ["wf(a)", "md_wf(a)"],
        "ensures": ["same(result[0], strip_metadata(a))", "same(result[1], collect_metadata(a))"],
        "modifies": ["*"],     # documented: returns "a new AST"; in-place rewriting is C11's concern
        "native": {"imports": "from func_adl.ast.meta_data import extract_metadata",
                   "call": "extract_metadata(a)"},
        "properties": ["C15"],
    })
    # ---- remove_empty_metadata -------------------------------------------------------------
    C.register_class(w, {
        "key": f"{F}::remove_empty_metadata._cleaner",
        "base": "NodeTransformer",
        "visit_fn": "drop_empty_metadata",
        "visit_requires": ["md_wf(node)"],
        "generic_requires": ["md_wf(node)"],
        # the class is non-mutating iff each of its methods is (each carries modifies=[] below)
        "non_mutating": True,
        "properties": ["C15", "C11", "C12"],
    })
    C.register(w, {
        "key": f"{F}::remove_empty_metadata._cleaner.generic_visit",
        "parallel": 6,
        "self": f"{F}::remove_empty_metadata._cleaner",
        "params": {"node": "py"},
        "requires": ["is_node(node)", "wf(node)", "md_wf(node)"],
        "ensures": ["same(result, map_children(drop_empty_metadata, node))"],
        "modifies": [],
        "optional": True,      # exists only in the repaired tree
        "max_paths": 600,
        "properties": ["C15", "C11", "C12"],
    })
    C.register(w, {
        "key": f"{F}::remove_empty_metadata._cleaner.visit_Call",
        "self": f"{F}::remove_empty_metadata._cleaner",
        "params": {"node": "py"},
        "requires": ["isinstance(node, ast.Call)", "wf(node)", "md_wf(node)"],
        "ensures": ["same(result, drop_empty_metadata(node))"],
        # proved lemma (structural induction): literals are fixed points of the cleaner
        "lemma_instances": ["implies(len(node.args) == 2, lem_lit_fixed_drop(node.args[1]))"],
        "allclass": 24,
        "modifies": [],        # "The old ast is not modified" (docstring, C15, C11)
        "properties": ["C15", "C11", "C12"],
    })
    C.register(w, {
        "key": f"{F}::remove_empty_metadata",
        "params": {"a": "py"},
        "requires": ["wf(a)", "md_wf(a)"],
        "ensures": ["same(result, drop_empty_metadata(a))"],
        "modifies": [],
        "native": {"imports": "from func_adl.ast.meta_data import remove_empty_metadata",
                   "call": "remove_empty_metadata(a)"},
        "properties": ["C15", "C11", "C12"],
    })


_reg = register


def register(w):
    _reg(w)
    from pyvc.lemmas import register_lemma
    register_lemma(w, {"name": "lit_fixed_drop_list", "pred": "lem_lit_fixed_drop_list",
                       "induct": "list", "properties": ["C15"]})
    register_lemma(w, {"name": "lit_fixed_drop", "pred": "lem_lit_fixed_drop", "induct": "node",
                       "uses": ["lit_fixed_drop_list"], "fuel": 4, "properties": ["C15"]})
