"""Sidecar contracts: func_adl/ast/syntatic_sugar.py  (C06)."""
from pyvc import contracts as C

F = "func_adl/ast/syntatic_sugar.py"
K = f"{F}::resolve_syntatic_sugar.syntax_transformer"


def register(w):
    C.register_class(w, {
        "key": K,
        "base": "NodeTransformer",
        "state": {},
        "visit_fn": "lower_sugar",
        "visit_requires": ["wf(node)"],
        "visit_raises": {"ValueError": "any"},
        "generic_requires": ["wf(node)"],
        # induction hypothesis of the visitor: results are well-formed nodes of the same syntactic
        # category.  Proved as postcondition of visit_ListComp / visit_GeneratorExp below; ASSUMED
        # for visit_Call (dataclass lowering, Python reflection) and for generic_visit of the
        # remaining classes (follows from the grammar once the children satisfy it).
        "visit_ensures": ["wf(result)", "implies(is_expr(node), is_expr(result))"],
        "generic_ensures": ["wf(result)"],
        "assumes": ["visit_Call (dataclass / named-tuple constructor -> dict, uses Python reflection) "
                    "returns a well-formed expression: not verified, carried by engine B",
                    "generic_visit of a well-formed node whose children are replaced by well-formed "
                    "nodes of the same syntactic category is well-formed (grammar)"],
        "properties": ["C06"],
    })
    for cls in ("ListComp", "GeneratorExp"):
        C.register(w, {
            "key": f"{K}.visit_{cls}",
            "self": K,
            "params": {"node": "py"},
            "requires": [f"isinstance(node, ast.{cls})", "wf(node)"],
            "raises": {"ValueError": "any"},
            "ensures": ["same(result, lower_sugar(node))", "wf(result)", "is_expr(result)"],
            "lemma_instances": [
                "lem_wfl(map_children(lower_sugar, node).generators)",
                "lem_rev_comp(map_children(lower_sugar, node).generators, [])",
                "lem_sel_wf(rev(map_children(lower_sugar, node).generators), "
                "map_children(lower_sugar, node).elt)"],
            "modifies": ["*"],
            "properties": ["C06"],
        })
    C.register(w, {
        "key": f"{K}.resolve_generator",
        "self": K,
        "params": {"lambda_body": "py", "generators": "list", "node": "py"},
        "requires": ["all_comprehensions(generators)", "is_node(lambda_body)"],
        "ghost": {"R": "rev(generators)", "B0": "lambda_body"},
        "lemma_instances": ["lem_rev_comp(generators, [])"],
        "raises": {"ValueError": "not all_gens_ok(R)"},
        "raises_iff": {"ValueError": "not all_gens_ok(R)"},
        "ensures": ["implies(len(generators) == 0, same(result, node))",
                    "implies(len(generators) > 0, same(result, sel_chain(B0, R)))"],
        "modifies": [],
        "loops": {
            0: {"invariant": [
                "all_comprehensions(_rest)", "all_gens_ok(_done)",
                "implies(is_empty(_done), same(a, node))",
                "implies(not is_empty(_done), same(a, lambda_body))",
                "same(sel_chain(lambda_body, _rest), sel_chain(B0, R))",
                "all_gens_ok(_rest) == all_gens_ok(R)"],
                "step_hints": ["lem_gok(_done, [head(_rest)])"]},
            1: {"invariant": [
                "same(where_chain(source_collection, _rest, target.id), "
                "where_chain(c.iter, c.ifs, target.id))"]},
        },
        "properties": ["C06"],
    })
    C.register(w, {
        "key": f"{F}::resolve_syntatic_sugar",
        "params": {"a": "py"},
        "requires": ["is_node(a)", "wf(a)"],
        "raises": {"ValueError": "any"},
        "ensures": ["same(result, lower_sugar(a))"],
        "modifies": ["*"],
        "properties": ["C06"],
    })


_reg = register


def register(w):
    _reg(w)
    from pyvc.lemmas import register_lemma
    register_lemma(w, {"name": "gens_ok_concat", "pred": "lem_gok", "induct": "list",
                       "fuel": 4, "properties": ["C06"]})
    register_lemma(w, {"name": "step_wf", "pred": "lem_step_wf", "induct": "list",
                       "fuel": 9, "properties": ["C06"]})
    register_lemma(w, {"name": "where_wf", "pred": "lem_where_wf", "induct": "list",
                       "ih_pred": "lem_where_wf_ih", "fuel": 9, "properties": ["C06"]})
    register_lemma(w, {"name": "sel_wf", "pred": "lem_sel_wf", "induct": "list",
                       "ih_pred": "lem_sel_wf_ih", "fuel": 9, "hints": ["lem_where_wf(head(rgens).ifs, head(rgens).iter, head(rgens).target.id)"], "properties": ["C06"]})
    register_lemma(w, {"name": "wfl", "pred": "lem_wfl", "induct": "list",
                       "fuel": 4, "properties": ["C06"]})
    register_lemma(w, {"name": "rev_comp", "pred": "lem_rev_comp", "induct": "list",
                       "ih_cons_head": ["acc"], "fuel": 4, "properties": ["C06"]})
