"""Sidecar contracts: func_adl/ast/syntatic_sugar.py  (C06)."""
from pyvc import contracts as C

F = "func_adl/ast/syntatic_sugar.py"
K = f"{F}::resolve_syntatic_sugar.syntax_transformer"


def register(w):
    C.register_class(w, {
        "key": K,
        "base": "NodeTransformer",
        "state": {},
        "visit_fn": "lower_sugar",
        "visit_requires": ["wf(node)"],
        "visit_raises": {"ValueError": "any"},
        "generic_requires": ["wf(node)"],
        # induction hypothesis of the visitor: results are well-formed nodes of the same syntactic
        # category.  Proved as postcondition of visit_ListComp / visit_GeneratorExp / visit_Call
        # below; ASSUMED for generic_visit of the remaining classes (follows from the grammar once
        # the children satisfy it).
        "visit_ensures": ["wf(result)", "implies(is_expr(node), is_expr(result))"],
        "generic_ensures": ["wf(result)"],
        "assumes": ["generic_visit of a well-formed node whose children are replaced by well-formed "
                    "nodes of the same syntactic category is well-formed (grammar)"],
        "properties": ["C06"],
    })
    for cls in ("ListComp", "GeneratorExp"):
        C.register(w, {
            "key": f"{K}.visit_{cls}",
            "self": K,
            "params": {"node": "py"},
            "requires": [f"isinstance(node, ast.{cls})", "wf(node)"],
            "raises": {"ValueError": "any"},
            "ensures": ["same(result, lower_sugar(node))", "wf(result)", "is_expr(result)"],
            "lemma_instances": [
                "lem_wfl(map_children(lower_sugar, node).generators)",
                "lem_rev_comp(map_children(lower_sugar, node).generators, [])",
                "lem_sel_wf(rev(map_children(lower_sugar, node).generators), "
                "map_children(lower_sugar, node).elt)"],
            "modifies": ["*"],
            "properties": ["C06"],
        })
    C.register(w, {
        "key": f"{K}.resolve_generator",
        "self": K,
        "params": {"lambda_body": "py", "generators": "list", "node": "py"},
        "requires": ["all_comprehensions(generators)", "is_node(lambda_body)"],
        "ghost": {"R": "rev(generators)", "B0": "lambda_body"},
        "lemma_instances": ["lem_rev_comp(generators, [])"],
        "raises": {"ValueError": "not all_gens_ok(R)"},
        "raises_iff": {"ValueError": "not all_gens_ok(R)"},
        "ensures": ["implies(len(generators) == 0, same(result, node))",
                    "implies(len(generators) > 0, same(result, sel_chain(B0, R)))"],
        "modifies": [],
        "loops": {
            0: {"invariant": [
                "all_comprehensions(_rest)", "all_gens_ok(_done)",
                "implies(is_empty(_done), same(a, node))",
                "implies(not is_empty(_done), same(a, lambda_body))",
                "same(sel_chain(lambda_body, _rest), sel_chain(B0, R))",
                "all_gens_ok(_rest) == all_gens_ok(R)"],
                "step_hints": ["lem_gok(_done, [head(_rest)])"]},
            1: {"invariant": [
                "same(where_chain(source_collection, _rest, target.id), "
                "where_chain(c.iter, c.ifs, target.id))"]},
        },
        "properties": ["C06"],
    })
    C.register(w, {
        "key": f"{K}.visit_Call",
        "self": K,
        "params": {"node": "py"},
        "requires": ["isinstance(node, ast.Call)", "wf(node)"],
        "raises": {"ValueError": "any"},
        "ensures": ["same(result, lower_sugar(node))", "wf(result)", "is_expr(result)"],
        "lemma_instances": [],
        "comps": {0: {"invariant": ["same(_out, param_names(_done))", "all_params(_rest)"],
                      "step_hints": ["lem_pnames_snoc(_done, head(_rest))"]},
                  1: {"invariant": ["same(_out, _done)"], "step_hints": []}},
        "call_hints": {"convert_call_to_dict": [
            "lem_kwl_ok(a.keywords)", "lem_pnames_str(params_of(a.func.value))"]},
        "assumes": ["inspect.signature(cls).parameters of a data class: its fields in declaration "
                    "order (library model: a list of Param records named by strings); the `_fields` "
                    "of a named-tuple class is a tuple of strings (library fact)"],
        "modifies": ["*"],
        "properties": ["C06"],
    })
    # data class / named tuple constructor -> dictionary: keys are the field names bound as Python
    # binds positional and keyword arguments (declaration order), malformed calls are refused
    C.register(w, {
        "key": f"{K}.convert_call_to_dict",
        "self": K,
        "params": {"a": "py", "node": "py", "sig_arg_names": "list"},
        "requires": ["isinstance(a, ast.Call)", "wf(a)", "isinstance(a.func, ast.Constant)",
                     "all_str(sig_arg_names)", "wf_kwlist(a.keywords)",
                     "kws_ok(a.keywords)"],
        "ghost": {"R": "rev(a.keywords)", "A0": "a.args", "NP": "len(a.args)",
                  "KEYS": "concat(take(sig_arg_names, len(a.args)), "
                          "sel_names(drop(sig_arg_names, len(a.args)), rev(a.keywords)))"},
        "raises": {"ValueError": "len(sig_arg_names) < len(A0) + len(a.keywords) or "
                                 "bad_kw(kw_args(R), sig_arg_names, NP)"},
        "raises_iff": {"ValueError": "len(sig_arg_names) < len(A0) + len(a.keywords) or "
                                     "bad_kw(kw_args(R), sig_arg_names, NP)"},
        "ensures": ["same(result, ast.Dict(consts(KEYS), "
                    "concat(A0, sel_vals(drop(sig_arg_names, NP), R))))",
                    "wf(result)", "is_expr(result)"],
        "lemma_instances": ["lem_allkw_rev(a.keywords, [])", "lem_kdict(R)", "lem_kkeys(R)",
                            "lem_wfk_rev(a.keywords, [])",
                            "lem_selvals_wf(drop(sig_arg_names, NP), R)",
                            "lem_wfe_cat(A0, sel_vals(drop(sig_arg_names, NP), R))",
                            "lem_all_str_take(sig_arg_names, NP)",
                            "lem_selnames_str(drop(sig_arg_names, NP), R)",
                            "lem_all_str_cat(take(sig_arg_names, NP), "
                            "sel_names(drop(sig_arg_names, NP), R))",
                            "lem_consts_wf(KEYS)",
                            "lem_all_str_drop(sig_arg_names, NP)",
                            "lem_consts_cat(take(sig_arg_names, NP), "
                            "sel_names(drop(sig_arg_names, NP), R))"],
        "dictcomps": {0: {"invariant": ["same(_out, kwdict_rev(rev(_done)))", "kws_ok(_rest)"],
                          "hints": ["lem_kdict(rev(_done))"],
                          "step_hints": ["lem_rev_snoc(_done, head(_rest), [])"]}},
        "comps": {0: {"invariant": ["same(_out, consts(_done))"],
                      "step_hints": ["lem_consts_snoc(_done, head(_rest))"]}},
        "loops": {
            0: {"invariant": [
                "same(arg_values, concat(A0, sel_vals(_done, R)))",
                "same(arg_names, concat(consts(take(sig_arg_names, NP)), consts(sel_names(_done, R))))",
                "all_str(_rest)"],
                "hints": ["lem_kd(R, head(_rest))"],
                "step_hints": ["lem_sel_names_snoc(_done, head(_rest), R)",
                               "lem_sel_vals_snoc(_done, head(_rest), R)",
                               "lem_consts_snoc(sel_names(_done, R), head(_rest))",
                               "lem_cat_assoc(A0, sel_vals(_done, R), [kwp_value(R, head(_rest))])",
                               "lem_cat_assoc(consts(take(sig_arg_names, NP)), "
                               "consts(sel_names(_done, R)), [ast.Constant(head(_rest))])"]},
            1: {"invariant": ["not bad_kw(_done, sig_arg_names, NP)"],
                "hints": ["lem_bad_kw_cat(_done, _rest, sig_arg_names, NP)"],
                "step_hints": ["lem_bad_kw_cat(_done, [head(_rest)], sig_arg_names, NP)"]}},
        "modifies": ["*"],
        "properties": ["C06"],
    })
    C.register(w, {
        "key": f"{F}::resolve_syntatic_sugar",
        "params": {"a": "py"},
        "requires": ["is_node(a)", "wf(a)"],
        "raises": {"ValueError": "any"},
        "ensures": ["same(result, lower_sugar(a))"],
        "modifies": ["*"],
        "properties": ["C06"],
    })


_reg = register


def register(w):
    _reg(w)
    from pyvc.lemmas import register_lemma
    for nm, kw_ in (("consts_wf", {}), ("kwval_wf", {}), ("selvals_wf", {"hints": ["lem_kwval_wf(rl, head(ns))"]}), ("wfe_cat", {}),
                    ("wfk_rev", {"ih_cons_head": ["acc"]}),
                    ("all_str_take", {"ih_pred": "lem_all_str_take_ih"}), ("all_str_cat", {}),
                    ("selnames_str", {}), ("pnames_str", {}), ("pnames_snoc", {}), ("kwl_ok", {}), ("kd", {}), ("cat_assoc", {}), ("kdict", {}), ("kkeys", {}), ("all_str_drop", {"ih_pred": "lem_all_str_drop_ih"}), ("sel_names_snoc", {}), ("sel_vals_snoc", {}), ("consts_snoc", {}),
                    ("consts_cat", {}), ("bad_kw_cat", {}),
                    ("allkw_rev", {"ih_cons_head": ["acc"]})):
        register_lemma(w, dict({"name": f"dc_{nm}", "pred": f"lem_{nm}", "induct": "list",
                                "fuel": 4, "properties": ["C06"]}, **kw_))
    register_lemma(w, {"name": "gens_ok_concat", "pred": "lem_gok", "induct": "list",
                       "fuel": 4, "properties": ["C06"]})
    register_lemma(w, {"name": "step_wf", "pred": "lem_step_wf", "induct": "list",
                       "fuel": 9, "properties": ["C06"]})
    register_lemma(w, {"name": "where_wf", "pred": "lem_where_wf", "induct": "list",
                       "ih_pred": "lem_where_wf_ih", "fuel": 9, "properties": ["C06"]})
    register_lemma(w, {"name": "sel_wf", "pred": "lem_sel_wf", "induct": "list",
                       "ih_pred": "lem_sel_wf_ih", "fuel": 9, "hints": ["lem_where_wf(head(rgens).ifs, head(rgens).iter, head(rgens).target.id)"], "properties": ["C06"]})
    register_lemma(w, {"name": "wfl", "pred": "lem_wfl", "induct": "list",
                       "fuel": 4, "properties": ["C06"]})
    register_lemma(w, {"name": "rev_comp", "pred": "lem_rev_comp", "induct": "list",
                       "ih_cons_head": ["acc"], "fuel": 4, "properties": ["C06"]})
