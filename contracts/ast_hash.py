"""Sidecar contract: func_adl/ast/ast_hash.py  (C20)."""
from pyvc import contracts as C

F = "func_adl/ast/ast_hash.py"


def register(w):
    C.register(w, {
        "key": f"{F}::calc_ast_hash",
        "params": {"a": "py"},
        "requires": ["is_node(a)"],
        # the result is ONE fixed function of ast.dump(a): deterministic, reads nothing else
        # (no clock, pid, id(), hash seed, non-field attribute), total (no exception)
        "ensures": ["result == hash_of_dump(a)"],
        "raises": {},
        "modifies": [],
        "ret": "str",
        "native": {"imports": "from func_adl.ast.ast_hash import calc_ast_hash",
                   "call": "calc_ast_hash(a)"},
        "assumes": ["ast.dump is an injective function of the _fields structure, independent of "
                    "positions and non-field attributes (trusted model, cross-checked bounded)",
                    "utf-8 encoding is total and injective",
                    "MD5 has no collision among the queries compared (NOT provable; assumption)"],
        "properties": ["C20"],
    })
