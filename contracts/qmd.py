"""Sidecar contracts: func_adl/ast/meta_data.py::lookup_query_metadata (C16)."""
from pyvc import contracts as C

F = "func_adl/ast/meta_data.py"
K = f"{F}::lookup_query_metadata._finder"


def register(w):
    C.register_class(w, {
        "key": K,
        "base": "NodeVisitor",
        "state": {"ds": "py", "_found": "py"},
        "init_state": {"ds": "None", "_found": "None"},
        "closure_names": ["metadata_name"],
        "visit_requires": ["wf(node)", "qmd_ok(node)"],
        "visit_ensures": [],
        # the finder keeps the LAST hit of the traversal
        "visit_effects": {"_found": "old(self._found) if is_empty(qmd_hits(node, metadata_name)) "
                                    "else last(qmd_hits(node, metadata_name))"},
        "visit_returns": True,
        "property_of": {"found": "_found"},
        # the library's NodeVisitor.generic_visit (reached through super()): every child is visited
        # in field order, so the hits of the children are appended in that order
        "generic_requires": ["wf(node)", "qmd_ok(node)"],
        "generic_effects": {"_found": "old(self._found) if is_empty(fold_children(qmd_hits, node, metadata_name)) "
                                      "else last(fold_children(qmd_hits, node, metadata_name))"},
        "properties": ["C16"],
    })
    C.register(w, {
        "key": f"{K}.generic_visit",
        "self": K,
        "params": {"node": "py"},
        "closure": {"metadata_name": "py"},
        "requires": ["is_node(node)", "wf(node)", "qmd_ok(node)"],
        "raises": {},
        "ensures": ["same(self._found, old(self._found) if is_empty(qmd_hits(node, metadata_name)) "
                    "else last(qmd_hits(node, metadata_name)))"],
        "modifies": ["self._found"],
        "properties": ["C16"],
    })
    C.register(w, {
        "key": f"{F}::lookup_query_metadata",
        "params": {"q": "obj:func_adl/object_stream.py::ObjectStream", "metadata_name": "py"},
        "requires": ["is_node(q.query_ast)", "wf(q.query_ast)", "qmd_ok(q.query_ast)"],
        "raises": {},
        # the value at the LAST defining node met by the search (in a chain of operators that is
        # the one nearest to the top: the most recently set value on the derivation path)
        "ensures": ["same(result, None if is_empty(qmd_hits(q.query_ast, metadata_name)) "
                    "else last(qmd_hits(q.query_ast, metadata_name)))"],
        "modifies": [],
        "properties": ["C16"],
    })
