"""Sidecar contracts: func_adl/ast/aggregate_shortcuts.py  (property C19)."""
from pyvc import contracts as C

F = "func_adl/ast/aggregate_shortcuts.py"


def register_all(w):
    C.register_class(w, {
        "key": f"{F}::aggregate_node_transformer",
        "base": "NodeTransformer",
        "visit_fn": "agg_lower",                     # IH: self.visit(x) == agg_lower(x)
        "visit_requires": ["agg_kwfree(node)"],
        "visit_requires_list": ["all_list(agg_kwfree, nodes)"],
        "generic_requires": ["agg_kwfree(node)"],
        "properties": ["C19"],
    })
    C.register(w, {
        "key": f"{F}::aggregate_node_transformer.visit_Call",
        "self": f"{F}::aggregate_node_transformer",
        "params": {"node": "py"},
        "requires": ["isinstance(node, ast.Call)", "agg_kwfree(node)"],
        "ensures": ["same(result, agg_lower(node))"],
        "raises": {},
        "modifies": ["*"],     # a NodeTransformer: in-place rewriting of its input is its job
        "properties": ["C19"],
    })
    C.register(w, {
        "key": f"{F}::_generate_count_call",
        "params": {"seq": "py", "lambda_string": "str"},
        "requires": ["expr_source(lambda_string)"],
        # the lambda is whatever CPython's parser makes of the string: lambda_of(s)
        "ensures": ["same(result, ast.Call(ast.Name('Aggregate'), "
                    "[seq, ast.Constant(0), lambda_of(lambda_string)], []))"],
        "raises": {},
        "fresh": "shallow",
        "properties": ["C19"],
    })


register = register_all
