"""Sidecar contracts: func_adl/ast/aggregate_shortcuts.py  (property C19)."""
from pyvc import contracts as C

F = "func_adl/ast/aggregate_shortcuts.py"


def register_all(w):
    C.register_class(w, {
        "key": f"{F}::aggregate_node_transformer",
        "base": "NodeTransformer",
        "visit_fn": "agg_lower",                     # IH: self.visit(x) == agg_lower(x)
        "properties": ["C19"],
    })
    C.register(w, {
        "key": f"{F}::aggregate_node_transformer.visit_Call",
        "self": f"{F}::aggregate_node_transformer",
        "params": {"node": "py"},
        "requires": ["isinstance(node, ast.Call)", "wf(node)"],
        "ensures": ["same(result, agg_lower(node))"],
        "raises": {},
        "modifies": ["*"],     # a NodeTransformer: in-place rewriting of its input is its job
        "native": {"imports": "from func_adl.ast.aggregate_shortcuts import aggregate_node_transformer",
                   "call": "aggregate_node_transformer().visit_Call(node)"},
        "properties": ["C19"],
    })
    C.register(w, {
        "key": f"{F}::_generate_count_call",
        "params": {"seq": "py", "lambda_string": "str"},
        "requires": ["expr_source(lambda_string)"],
        # the lambda is whatever CPython's parser makes of the string: lambda_of(s)
        "ensures": ["same(result, ast.Call(ast.Name('Aggregate'), "
                    "[seq, ast.Constant(0), lambda_of(lambda_string)], []))"],
        "raises": {},
        "fresh": "node",       # a fresh Call node (its argument list is built by the callee's caller)
        "properties": ["C19"],
    })


register = register_all


# ---------------------------------------------------------------------------------------------
# Witness inference for the fold lambdas.  The spec leaves the lambda of each fold abstract
# (fold_lambda(kind)); the witness is whatever ground Lambda term the real code produces, accepted
# only if z3 proves its body is the kind's step function over the integers:
#   count: f(acc,v) = acc+1    sum: acc+v    max: max(acc,v)    min: min(acc,v)
# (that a left fold of these from 0 is len / sum / max(0::l) / min(0::l) is the Lean lemma layer).
import ast as _ast
import z3 as _z3

KIND_SEM = {
    "count": lambda a, v: a + 1,
    "sum": lambda a, v: a + v,
    "max": lambda a, v: _z3.If(a >= v, a, v),
    "min": lambda a, v: _z3.If(a <= v, a, v),
}


def _int_expr(n, env):
    if isinstance(n, _ast.Name) and n.id in env:
        return env[n.id]
    if isinstance(n, _ast.Constant) and isinstance(n.value, int) and not isinstance(n.value, bool):
        return _z3.IntVal(n.value)
    if isinstance(n, _ast.BinOp) and isinstance(n.op, (_ast.Add, _ast.Sub, _ast.Mult)):
        a, b = _int_expr(n.left, env), _int_expr(n.right, env)
        return {_ast.Add: a + b, _ast.Sub: a - b, _ast.Mult: a * b}[type(n.op)]
    if isinstance(n, _ast.IfExp):
        return _z3.If(_bool_expr(n.test, env), _int_expr(n.body, env), _int_expr(n.orelse, env))
    raise ValueError(f"not an integer step function: {_ast.dump(n)}")


def _bool_expr(n, env):
    if isinstance(n, _ast.Compare) and len(n.ops) == 1:
        a, b = _int_expr(n.left, env), _int_expr(n.comparators[0], env)
        return {_ast.Lt: a < b, _ast.LtE: a <= b, _ast.Gt: a > b, _ast.GtE: a >= b,
                _ast.Eq: a == b, _ast.NotEq: a != b}[type(n.ops[0])]
    raise ValueError("condition form")


def lambda_kind(lam_node):
    """Which fold kinds is this concrete Lambda a step function of (proved by z3 over Int)?"""
    out = []
    if not (isinstance(lam_node, _ast.Lambda) and len(lam_node.args.args) == 2
            and not lam_node.args.defaults and not lam_node.args.kwonlyargs
            and lam_node.args.vararg is None and lam_node.args.kwarg is None):
        return out
    a, v = _z3.Int("acc"), _z3.Int("v")
    try:
        body = _int_expr(lam_node.body, {lam_node.args.args[0].arg: a, lam_node.args.args[1].arg: v})
    except (ValueError, KeyError):
        return out
    for k, sem in KIND_SEM.items():
        s = _z3.Solver()
        s.set("timeout", 5000)
        s.add(body != sem(a, v))
        if s.check() == _z3.unsat:
            out.append(k)
    return out


def _ground_lambdas(w, terms):
    S = w.S
    found = {}
    seen = set()
    stack = list(terms)
    while stack:
        t = stack.pop()
        if t.get_id() in seen:
            continue
        seen.add(t.get_id())
        if _z3.is_app(t):
            if t.sort() == S.Py and t.decl().name() == "Lambda" and _is_ground(t):
                found[t.get_id()] = t
            stack.extend(t.children())
    return list(found.values())


def _is_ground(t):
    stack = [t]
    seen = set()
    while stack:
        x = stack.pop()
        if x.get_id() in seen:
            continue
        seen.add(x.get_id())
        if not _z3.is_app(x):
            return False
        k = x.decl().kind()
        if k == _z3.Z3_OP_UNINTERPRETED:
            return False
        stack.extend(x.children())
    return True


def prepare(w, r):
    if not r.key.endswith("aggregate_node_transformer.visit_Call"):
        return
    from pyvc import solve
    from pyvc.symex import Obligation
    terms = []
    for ob in r.obligations:
        terms.extend(ob.pc)
        terms.append(ob.goal)
    witnesses = {}
    for lam in _ground_lambdas(w, terms):
        src = solve.term_to_source(w.S, lam)
        try:
            node = eval(src, {"ast": _ast})
            _ast.fix_missing_locations(node)
        except Exception:
            continue
        for k in lambda_kind(node):
            witnesses.setdefault(k, (lam, _ast.unparse(node)))
    fl = w.ufun("fold_lambda", _z3.StringSort(), w.S.Py)
    facts = []
    for k, (lam, text) in sorted(witnesses.items()):
        facts.append(fl(_z3.StringVal(k)) == lam)
        ob = Obligation(r.key, "lemma", f"fold-step[{k}]", [], _z3.BoolVal(True), None,
                        note=f"z3 over Int: `{text}` is the {k} step function")
        ob.trivial = True
        r.obligations.append(ob)
    r.notes.append("fold-lambda witnesses: " + ", ".join(f"{k}: {t}" for k, (_, t) in
                                                       sorted(witnesses.items())))
    for ob in r.obligations:
        if ob.kind in ("post",):
            ob.pc = list(ob.pc) + facts
