"""Sidecar contracts: func_adl/util_ast.py::_rewrite_captured_vars (C04, scoping clause): names
bound by a lambda's own parameters, by nested lambdas and by comprehension targets are on the
ignore stack while the sub-tree they scope over is visited, and a name on the stack is never
replaced."""
from pyvc import contracts as C

F = "func_adl/util_ast.py"
K = f"{F}::_rewrite_captured_vars"


def register(w):
    C.register_class(w, {
        "key": K,
        "base": "NodeTransformer",
        "state": {"_lookup_dict": "dict", "_ignore_stack": "list", "_helpers_in_progress": "py"},
        # hypothesis of the visitor (scoping part only): the ignore stack is the same after a visit
        # as before it (pushes and pops are paired)
        "visit_requires": ["wf(node)"],
        "visit_raises": {"Exception": "any"},
        "visit_ensures": ["same(self._ignore_stack, old(self._ignore_stack))"],
        # the library's generic_visit descends into the children: for a node that binds names this
        # may only happen with those names on the stack
        "generic_requires": ["wf(node)", "binders_on(node, self._ignore_stack)"],
        "generic_ensures": ["same(self._ignore_stack, old(self._ignore_stack))"],
        "assumes": ["generic_visit leaves the ignore stack as it found it when every child visit "
                    "does (the hypothesis) and returns the node it was given (the library's "
                    "NodeTransformer.generic_visit edits in place: same class); what visit_Name / visit_Attribute / visit_Call put in "
                    "place of a name is outside engine P (reflection on captured Python values): "
                    "bounded, C04"],
        "properties": ["C04"],
    })
    C.register(w, {
        "key": f"{K}.is_arg",
        "self": K,
        "params": {"a_name": "py"},
        "raises": {},
        "ensures": ["iff(result, any(a == a_name for a in flat(self._ignore_stack)))"],
        "ret": "bool",
        "modifies": [],
        "properties": ["C04"],
    })
    C.register(w, {
        "key": f"{K}.visit_Lambda",
        "self": K,
        "params": {"node": "py"},
        "requires": ["isinstance(node, ast.Lambda)", "wf(node)"],
        "raises": {"Exception": "any"},
        "ensures": ["same(self._ignore_stack, old(self._ignore_stack))"],
        "ghost": {"T": "concat(concat(node.args.posonlyargs, node.args.args), node.args.kwonlyargs)",
                  "PN": "param_nodes(node.args)"},
        "lemma_instances": ["lem_argl(node.args.posonlyargs)", "lem_argl(node.args.args)",
                            "lem_argl(node.args.kwonlyargs)",
                            "lem_all_argn_cat(node.args.posonlyargs, node.args.args)",
                            "lem_all_argn_cat(concat(node.args.posonlyargs, node.args.args), "
                            "node.args.kwonlyargs)",
                            "lem_all_argn_cat(T, concat(opt_node(node.args.vararg), opt_node(node.args.kwarg)))",
                            "lem_flat_snoc(self._ignore_stack, arg_names(PN))",
                            "lem_all_in_right(arg_names(PN), flat(self._ignore_stack))",
                            "lem_take_cat(self._ignore_stack, [arg_names(PN)])"],
        "comps": {1: {"invariant": ["all_list(is_argn, _rest)", "same(_out, arg_names(_done))"],
                      "pre_hints": ["all_list(is_argn, concat(opt_node(a.vararg), opt_node(a.kwarg)))",
                                    "same(bound, param_nodes(a))",
                                    "lem_all_argn_cat(concat(concat(a.posonlyargs, a.args), a.kwonlyargs), "
                                    "concat(opt_node(a.vararg), opt_node(a.kwarg)))"],
                      "step_hints": ["lem_arg_names_snoc(_done, head(_rest))"]}},
        "post_hints": ["lem_take_cat(old(self._ignore_stack), [arg_names(bound)])"],
        "facts_fuel": 6,
        "modifies": ["*"],
        "properties": ["C04"],
    })

    C.register(w, {
        "key": f"{F}::_parse_source_for_lambda",
        "params": {"ast_source": "py", "caller_name": "py"},
        "raises": {"Exception": "any"},
        "ensures": ["result is None or (isinstance(result, ast.Lambda) and wf(result))"],
        "abstract": True, "trusted": True,
        "assumes": ["_parse_source_for_lambda (tokenizer-driven source recovery, C03: bounded there) "
                    "returns None or a well-formed Lambda, or raises"],
        "properties": ["C04"],
    })
    C.register(w, {
        "key": f"{K}._resolve_helper",
        "self": K,
        "params": {"helper": "py", "helper_ast": "py"},
        "raises": {"Exception": "any"},
        "ensures": ["same(self._ignore_stack, old(self._ignore_stack))"],
        "abstract": True, "trusted": True,
        "assumes": ["_resolve_helper (a fresh visitor over the helper's own closure, C05: bounded "
                    "there) does not touch this visitor's ignore stack"],
        "properties": ["C04"],
    })
    C.register(w, {
        "key": f"{K}.visit_Name",
        "self": K,
        "params": {"node": "py"},
        "requires": ["isinstance(node, ast.Name)", "wf(node)"],
        "raises": {"Exception": "any"},
        # a name on the ignore stack (bound inside the lambda) is never replaced
        "ensures": ["implies(any(a == node.id for a in flat(old(self._ignore_stack))), same(result, node))",
                    "same(self._ignore_stack, old(self._ignore_stack))"],
        "modifies": ["*"],
        "properties": ["C04"],
    })
    C.register(w, {
        "key": f"{K}.visit_Call",
        "self": K,
        "params": {"node": "py"},
        "requires": ["isinstance(node, ast.Call)", "wf(node)"],
        "raises": {"Exception": "any"},
        # a call binds no name: its children are visited under the stack as it is, which is left
        # as it was found; whatever the callee became, the result is still a call
        "generic_ensures_here": ["implies(isinstance(node, ast.Call), isinstance(result, ast.Call))"],
        "ensures": ["same(self._ignore_stack, old(self._ignore_stack))",
                    "isinstance(result, ast.Call)"],
        "modifies": ["*"],
        "properties": ["C04"],
    })
    # the four comprehension forms share one method (class-level aliases visit_X = _visit_comprehension)
    for cls in ("ListComp", "GeneratorExp", "SetComp", "DictComp"):
        C.register(w, {
            "key": f"{K}.visit_{cls}",
            "source": f"{K}._visit_comprehension",
            "alias_of": "_visit_comprehension",
            "self": K,
            "method": True,
            "params": {"node": "py"},
            "requires": [f"isinstance(node, ast.{cls})", "wf(node)"],
            "raises": {"Exception": "any"},
            "ensures": ["same(self._ignore_stack, old(self._ignore_stack))"],
            "lemma_instances": ["lem_flat_snoc(self._ignore_stack, comp_targets(node.generators))",
                                "lem_all_in_right(comp_targets(node.generators), flat(self._ignore_stack))",
                                "lem_wfl(node.generators)"],
            "comps": {0: {"invariant": ["same(_out, comp_targets(_done))", "all_comprehensions(_rest)"],
                          "step_hints": ["lem_comp_targets_snoc(_done, head(_rest))",
                                         "lem_cat_assoc(comp_targets(_done), name_ids(walk(head(_rest).target)), [])"],
                          "inner": {"invariant": ["same(_out, concat(_out_outer, name_ids(_done)))",
                                                  "is_nodes(_rest)"],
                                    "step_hints": ["lem_name_ids_snoc(_done, head(_rest))",
                                                   "lem_cat_assoc(_out_outer, name_ids(_done), [head(_rest).id])"]}}},
            "post_hints": ["lem_take_cat(old(self._ignore_stack), [targets])"],
            "facts_fuel": 6,
            "modifies": ["*"],
            "properties": ["C04"],
        })

    C.register(w, {
        "key": f"{K}.<dispatch>",
        "self": K,
        "class_dispatch": True,
        "params": {},
        "properties": ["C04"],
    })


_reg = register


def register(w):
    _reg(w)
    from pyvc.lemmas import register_lemma
    P = ["C04"]
    register_lemma(w, {"name": "flat_snoc", "pred": "lem_flat_snoc", "induct": "list", "fuel": 4,
                       "hints": ["lem_cat_assoc(items_of(head(st)), flat(tail(st)), f)"],
                       "properties": P})
    register_lemma(w, {"name": "contains_cat", "pred": "lem_contains_cat", "induct": "list",
                       "fuel": 4, "properties": P})
    register_lemma(w, {"name": "all_in_right", "pred": "lem_all_in_right", "induct": "list",
                       "ih_pred": "lem_all_in_right_ih", "fuel": 4,
                       "hints": ["lem_cat_assoc(a, [head(xs)], tail(xs))",
                                 "lem_contains_cat(a, xs, head(xs))"], "properties": P})
    register_lemma(w, {"name": "all_in_mono", "pred": "lem_all_in_mono", "induct": "list",
                       "fuel": 4, "hints": ["lem_contains_cat(a, b, head(xs))"], "properties": P})
    register_lemma(w, {"name": "comp_targets_snoc", "pred": "lem_comp_targets_snoc", "induct": "list",
                       "fuel": 4, "hints": ["lem_cat_assoc(name_ids(walk(head(d).target)), "
                                            "comp_targets(tail(d)), name_ids(walk(g.target)))"],
                       "properties": P})
    register_lemma(w, {"name": "name_ids_snoc", "pred": "lem_name_ids_snoc", "induct": "list",
                       "fuel": 4, "properties": P})
    register_lemma(w, {"name": "arg_names_snoc", "pred": "lem_arg_names_snoc", "induct": "list",
                       "fuel": 4, "properties": P})
