"""Sidecar contracts: func_adl/ast/function_simplifier.py  (C18, C14; helpers of C02)."""
from pyvc import contracts as C

F = "func_adl/ast/function_simplifier.py"
K = f"{F}::simplify_chained_calls"


def register(w):
    A = "func_adl/ast/call_stack.py::argument_stack"
    # argument_stack: a list of dictionaries, newest frame last.  Class invariant (assumed when an
    # instance is met, re-established by every method: the methods are the only writers of the
    # private list): at least the bottom frame exists and every stored value is a well-formed
    # expression of query shape.
    INV = ["len(self._arg_transformer) >= 1", "frames_good(self._arg_transformer)"]
    C.register_class(w, {
        "key": A,
        "state": {"_arg_transformer": "list"},
        "invariant": INV,
        "properties": ["C18", "C14", "C02"],
    })
    C.register(w, {
        "key": f"{A}.__init__",
        "self": A,
        "params": {},
        "raises": {},
        "ensures": INV + ["len(self._arg_transformer) == 1",
                          "is_empty(dict_keys(nth(self._arg_transformer, 0)))"],
        "ret": "none",
        "modifies": ["self._arg_transformer"],
        "no_invariant_on_entry": True,
        "properties": ["C18", "C14", "C02"],
    })
    C.register(w, {
        "key": f"{A}.push_stack_frame",
        "self": A,
        "params": {},
        "raises": {},
        "ensures": INV + ["same(self._arg_transformer, concat(old(self._arg_transformer), [{}]))"],
        "lemma_instances": ["lem_fg_cat(self._arg_transformer, [{}])"],
        "ret": "none",
        "modifies": ["self._arg_transformer"],
        "properties": ["C18", "C14", "C02"],
    })
    C.register(w, {
        "key": f"{A}.pop_stack_frame",
        "self": A,
        "params": {},
        # frames are pushed and popped in pairs by stack_frame: a pop never removes the bottom frame
        "requires": ["len(self._arg_transformer) >= 2"],
        "raises": {},
        "ensures": INV + ["same(self._arg_transformer, take(old(self._arg_transformer), "
                          "len(old(self._arg_transformer)) - 1))"],
        "lemma_instances": ["lem_fg_take(self._arg_transformer, len(self._arg_transformer) - 1)"],
        "ret": "none",
        "modifies": ["self._arg_transformer"],
        "properties": ["C18", "C14", "C02"],
    })
    C.register(w, {
        "key": f"{A}.define_name",
        "self": A,
        "params": {"name": "py", "val": "py"},
        "requires": ["good(val)"],
        "raises": {},
        # the newest frame gets the binding, nothing else changes; looking the name up afterwards
        # gives exactly this value
        "ensures": INV + ["len(self._arg_transformer) == len(old(self._arg_transformer))",
                          "same(take(self._arg_transformer, len(self._arg_transformer) - 1), "
                          "take(old(self._arg_transformer), len(old(self._arg_transformer)) - 1))",
                          "same(lookup_rev(rev(self._arg_transformer), name, None), val)"],
        "ghost": {"T": "take(self._arg_transformer, len(self._arg_transformer) - 1)",
                  "X": "dict_put(nth(self._arg_transformer, len(self._arg_transformer) - 1), name, val)"},
        "lemma_instances": ["lem_fg_take(self._arg_transformer, len(self._arg_transformer) - 1)",
                            "lem_fg_nth(self._arg_transformer, len(self._arg_transformer) - 1)",
                            "lem_len_take(self._arg_transformer, len(self._arg_transformer) - 1)",
                            "lem_fg_cat(T, [X])", "lem_take_cat(T, [X])", "lem_rev_snoc(T, X, [])"],
        "ret": "none",
        "modifies": ["self._arg_transformer"],
        "properties": ["C18", "C14", "C02"],
    })
    C.register(w, {
        "key": f"{A}.lookup_name",
        "self": A,
        "params": {"name": "py", "default": "py"},
        "raises": {},
        # the binding in the newest frame that defines the name, the default if none does
        "ensures": ["same(result, lookup_rev(rev(self._arg_transformer), name, default))",
                    "implies(good(default), good(result))",
                    "same(self._arg_transformer, old(self._arg_transformer))"],
        "lemma_instances": ["lem_fg_rev(self._arg_transformer, [])",
                            "lem_lookup_good(rev(self._arg_transformer), name, default)"],
        "loops": {0: {"invariant": ["same(lookup_rev(_rest, name, default), "
                                    "lookup_rev(rev(self._arg_transformer), name, default))",
                                    "frames_good(_rest)"],
                      "hints": []}},
        "modifies": [],
        "properties": ["C18", "C14", "C02"],
    })
    C.register_class(w, {
        "key": "func_adl/ast/func_adl_ast_utils.py::FuncADLNodeTransformer",
        "base": "NodeTransformer",
        "state": {},
        "properties": ["C18"],
    })
    C.register_class(w, {
        "key": "func_adl/ast/call_stack.py::stack_frame",
        "state": {},
        # the real __init__ / __enter__ / __exit__ run wherever a `with stack_frame(...)` is met
        # (push on enter, pop on every way out): frames are balanced by construction
        "ctor_runs_init": True,
        "properties": ["C18", "C14", "C02"],
    })
    C.register_class(w, {
        "key": K,
        "base": "NodeTransformer",
        "base_key": "func_adl/ast/func_adl_ast_utils.py::FuncADLNodeTransformer",
        "state": {"_arg_stack": f"obj:{A}", "_visit_depth": "int"},
        # the visitor's induction hypothesis (C18, partial correctness): on a well-formed node of
        # query shape, visit returns a well-formed node of query shape and of the same kind, or
        # raises the dedicated index error
        "visit_requires": ["wf(node)", "qs(node)"],
        "visit_raises": {"FuncADLIndexError": "any"},
        "visit_ensures": ["wf(result)", "qs(result)", "same_kind(node, result)", "is_node(result)"],
        # list form of the hypothesis, for [self.visit(a) for a in exprs]
        "visit_requires_list": ["wf_exprs(nodes)", "all_list(qs, nodes)"],
        "visit_list_ensures": ["len(result) == len(nodes)", "wf_exprs(result)",
                               "all_list(qs, result)"],
        "generic_requires": ["wf(node)", "qs(node)"],
        # (NodeTransformer.generic_visit returns the node it was given: a Call stays a Call)
        "generic_ensures": ["wf(result)", "qs(result)", "same_kind(node, result)",
                            "is_node(result)",
                            "implies(isinstance(node, ast.Call), isinstance(result, ast.Call))"],
        "assumes": ["generic_visit of a well-formed node of query shape whose children are "
                    "replaced by visit results satisfying the hypothesis is again well-formed and "
                    "of query shape (the shape constrains only Select/SelectMany/Where/First calls, "
                    "which are never visited generically with a changed callee)"],
        "properties": ["C18", "C14"],
    })
    C.register(w, {
        "key": f"{K}.visit_Name",
        "self": K,
        "params": {"name_node": "py"},
        "requires": ["isinstance(name_node, ast.Name)", "wf(name_node)"],
        "raises": {},
        "ensures": ["good(result)"],
        "modifies": [],
        "properties": ["C18"],
    })
    # (t1, t2, ...)[n]: the element for a constant in-range index (negative ones count from the
    # end), the dedicated error beyond the end, the subscript itself for every other selector
    C.register(w, {
        "key": f"{K}.visit_Subscript_Tuple",
        "native": {"imports": "from func_adl.ast.function_simplifier import simplify_chained_calls", "call": "simplify_chained_calls().visit_Subscript_Tuple(v, s)"},
        "self": K,
        "params": {"v": "py", "s": "py"},
        "requires": ["isinstance(v, ast.Tuple) or isinstance(v, ast.List)", "wf(v)"],
        "raises": {"FuncADLIndexError": "int_const(s) and s.value >= len(v.elts)"},
        "raises_iff": {"FuncADLIndexError": "int_const(s) and s.value >= len(v.elts)"},
        "ensures": [
            "implies(int_const(s) and s.value >= -len(v.elts), same(result, seq_pick(v.elts, s.value)))",
            "implies(not (int_const(s) and s.value >= -len(v.elts)), same(result, ast.Subscript(v, s)))",
            "implies(good(v) and good(s), good(result))"],
        "modifies": [],
        "properties": ["C18", "C14"],
    })
    C.register(w, {
        "key": f"{K}.visit_Subscript_List",
        "native": {"imports": "from func_adl.ast.function_simplifier import simplify_chained_calls", "call": "simplify_chained_calls().visit_Subscript_List(v, s)"},
        "self": K,
        "params": {"v": "py", "s": "py"},
        "requires": ["isinstance(v, ast.List)", "wf(v)"],
        "raises": {"FuncADLIndexError": "int_const(s) and s.value >= len(v.elts)"},
        "raises_iff": {"FuncADLIndexError": "int_const(s) and s.value >= len(v.elts)"},
        "ensures": [
            "implies(int_const(s) and s.value >= -len(v.elts), same(result, seq_pick(v.elts, s.value)))",
            "implies(not (int_const(s) and s.value >= -len(v.elts)), same(result, ast.Subscript(v, s)))",
            "implies(good(v) and good(s), good(result))"],
        "modifies": [],
        "properties": ["C18", "C14"],
    })
    C.register(w, {
        "key": f"{K}.visit_Subscript_Dict_with_value",
        "native": {"imports": "from func_adl.ast.function_simplifier import simplify_chained_calls", "call": "simplify_chained_calls().visit_Subscript_Dict_with_value(v, s)"},
        "self": K,
        "params": {"v": "py", "s": "py"},
        "requires": ["isinstance(v, ast.Dict)", "wf(v)", "len(v.keys) == len(v.values)"],
        "raises": {},
        "ensures": ["same(result, dict_lookup(v, s))",
                    "iff(result is None, not dict_resolves(v, s))",
                    "implies(good(v) and result is not None, good(result))"],
        "modifies": [],
        "loops": {0: {"invariant": ["iff(found is None, not key_has(_done, s))",
                                    "implies(found is not None, isinstance(found, int))",
                                    "implies(found is not None, found >= 0)",
                                    "implies(good(v) and found is not None, good(nth(v.values, found)))",
                                    "implies(key_has(_done, s), found == key_last(_done, s))"],
                      "hints": ["lem_ack(_done, _rest)", "lem_klb(_done, s)",
                                "len(_done) + len(_rest) == len(v.keys)"],
                      "step_hints": ["lem_kha(_done, [head(_rest)], s)",
                                     "lem_klr(_done, [head(_rest)], s)",
                                     "lem_kld(_done, [head(_rest)], s)"]}},
        "properties": ["C18", "C14", "C02"],
    })
    C.register(w, {
        "key": f"{K}.visit_Subscript_Dict",
        "native": {"imports": "from func_adl.ast.function_simplifier import simplify_chained_calls", "call": "simplify_chained_calls().visit_Subscript_Dict(v, s)"},
        "self": K,
        "params": {"v": "py", "s": "py"},
        "requires": ["isinstance(v, ast.Dict)", "wf(v)", "len(v.keys) == len(v.values)"],
        "raises": {},
        "ensures": [
            "implies(key_const(s) and dict_resolves(v, s.value), same(result, dict_lookup(v, s.value)))",
            "implies(not (key_const(s) and dict_resolves(v, s.value)), same(result, ast.Subscript(v, s)))",
            "implies(good(v) and good(s), good(result))"],
        "modifies": [],
        "properties": ["C18", "C14"],
    })

    # ---- projections through the visitor (induction hypothesis = the class contract) ----------
    for m, par in (("visit_Subscript_Of_First", {"first": "py", "s": "py"}),
                   ("visit_Attribute_Of_First", {"first": "py", "attr": "str"})):
        C.register(w, {
            "key": f"{K}.{m}",
            "self": K,
            "params": par,
            "requires": ["good(first)"] + (["good(s)"] if "s" in par else []),
            "raises": {"FuncADLIndexError": "any"},
            "ensures": ["good(result)"],
            "modifies": ["*"],
            "properties": ["C18", "C14"],
        })
    C.register(w, {
        "key": f"{K}.visit_Subscript",
        "self": K,
        "params": {"node": "py"},
        "requires": ["isinstance(node, ast.Subscript)", "wf(node)", "qs(node)"],
        "raises": {"FuncADLIndexError": "any"},
        "ensures": ["good(result)"],
        "modifies": ["*"],
        "properties": ["C18", "C14"],
    })
    C.register(w, {
        "key": f"{K}.visit_Attribute",
        "self": K,
        "params": {"node": "py"},
        "requires": ["isinstance(node, ast.Attribute)", "wf(node)", "qs(node)"],
        "raises": {"FuncADLIndexError": "any"},
        "ensures": ["good(result)"],
        "modifies": ["*"], "facts_fuel": 6,
        "properties": ["C18", "C14"],
    })
    # ---- the nine fusion rules and their dispatchers: shape safety (C18) ----------------------
    def opcall(x, name):
        return [f"isinstance({x}, ast.Call)", f"good({x})", f"isinstance({x}.func, ast.Name)",
                f"{x}.func.id == '{name}'"]
    rules = [("visit_Select_of_Select", "parent", "Select", "selection"),
             ("visit_Select_of_SelectMany", "parent", "SelectMany", "selection"),
             ("visit_SelectMany_of_Select", "parent_select", "Select", "selection"),
             ("visit_SelectMany_of_SelectMany", "parent", "SelectMany", "selection"),
             ("visit_Where_of_Where", "parent", "Where", "filter"),
             ("visit_Where_of_Select", "parent", "Select", "filter"),
             ("visit_Where_of_SelectMany", "parent", "SelectMany", "filter")]
    for m, pname, op, lname in rules:
        C.register(w, {
            "key": f"{K}.{m}",
            "self": K,
            "params": {pname: "py", lname: "py"},
            "requires": opcall(pname, op) + [f"op_lambda({lname})", f"good({lname})"],
            "raises": {"FuncADLIndexError": "any"},
            "ensures": ["good(result)"],
            "modifies": ["*"], "facts_fuel": 5,
            "properties": ["C18"],
        })
    for op in ("Select", "SelectMany", "Where"):
        C.register(w, {
            "key": f"{K}.call_{op}",
            "self": K,
            "params": {"node": "py", "args": "list"},
            "requires": opcall("node", op) + ["same(args, node.args)"],
            "raises": {"FuncADLIndexError": "any"},
            "ensures": ["good(result)"],
            "modifies": ["*"], "facts_fuel": 5,
            "properties": ["C18"],
        })
    C.register(w, {
        "key": f"{K}.select_method_call_on_first",
        "self": K,
        "params": {"node": "py"},
        "requires": ["isinstance(node, ast.Call)", "good(node)",
                     "isinstance(node.func, ast.Attribute)", "isinstance(node.func.value, ast.Call)",
                     "isinstance(node.func.value.func, ast.Name)",
                     "node.func.value.func.id == 'First'"],
        "raises": {"FuncADLIndexError": "any"},
        "ensures": ["good(result)"],
        "modifies": ["*"], "facts_fuel": 6,
        "properties": ["C18", "C14"],
    })
    C.register(w, {
        "key": f"{K}.visit_Call",
        "self": K,
        "params": {"call_node": "py"},
        "requires": ["isinstance(call_node, ast.Call)", "wf(call_node)", "qs(call_node)"],
        "raises": {"FuncADLIndexError": "any"},
        "ensures": ["good(result)"],
        # the remaining parameters are well-formed `arg` nodes (grammar of arguments.args)
        # (the frame pushed by `with stack_frame(...)` stays while the names are entered: the loop
        # body's define_name calls leave the number of frames alone)
        "loops": {0: {"invariant": ["wf(ast.arguments([], _rest, None, [], [], None, []))",
                                    "len(self._arg_stack._arg_transformer) >= 2"]}},
        "modifies": ["*"], "facts_fuel": 6,
        "properties": ["C18", "C14"],
    })
    # the inherited FuncADLNodeTransformer.visit_Call (dispatch to call_<name>), in this class
    C.register(w, {
        "key": f"{K}.super.visit_Call",
        "source": "func_adl/ast/func_adl_ast_utils.py::FuncADLNodeTransformer.visit_Call",
        "self": K,
        "method": True,
        "params": {"node": "py"},
        "requires": ["isinstance(node, ast.Call)", "wf(node)", "qs(node)"],
        "raises": {"FuncADLIndexError": "any"},
        "ensures": ["good(result)",
                    "implies(not isinstance(node.func, ast.Name), isinstance(result, ast.Call))"],
        "modifies": ["*"], "facts_fuel": 6,
        "properties": ["C18", "C14"],
    })
    C.register(w, {
        "key": f"{K}.visit_Lambda",
        "self": K,
        "params": {"node": "py"},
        "requires": ["isinstance(node, ast.Lambda)", "wf(node)", "qs(node)"],
        "raises": {"FuncADLIndexError": "any"},
        "ensures": ["good(result)", "same_kind(node, result)"],
        "abstract": True, "trusted": True,
        "assumes": ["simplify_chained_calls.visit_Lambda (binder handling: walks the argument "
                    "stack's private frames and the trees stored there, renames through "
                    "make_args_unique, rebuilds the argument node from a deep copy) is ASSUMED to "
                    "return a Lambda of query shape with the same number of parameters. An attempt "
                    "to verify it (loop over the frames abstracted) discharged 299 of 323 "
                    "obligations in 17 min; the remaining ones need well-formedness of a "
                    "concatenation of three symbolic parameter lists, which the engine cannot "
                    "derive; its behaviour is exercised by the bounded checks of C02 / C18, "
                    "including the native evaluation of the hypothesis qs(result)"],
        "properties": ["C18"],
    })
    U = "func_adl/util_ast.py"
    C.register(w, {
        "key": f"{U}::lambda_parameter_names",
        "params": {"lam": "py"},
        "requires": ["isinstance(lam, ast.Lambda)", "wf(lam)"],
        "raises": {},
        # one name (a string) per positional-only, plain and keyword-only parameter, in that order
        "ensures": ["len(result) == len(lam.args.posonlyargs) + len(lam.args.args) + "
                    "len(lam.args.kwonlyargs)", "all_str(result)"],
        "ret": "list",
        "lemma_instances": ["lem_argl(lam.args.posonlyargs)", "lem_argl(lam.args.args)",
                            "lem_argl(lam.args.kwonlyargs)",
                            "lem_all_argn_cat(lam.args.posonlyargs, lam.args.args)",
                            "lem_all_argn_cat(concat(lam.args.posonlyargs, lam.args.args), "
                            "lam.args.kwonlyargs)"],
        "comps": {0: {"invariant": ["all_list(is_argn, _rest)", "len(_out) == len(_done)",
                                    "all_str(_out)"],
                      "step_hints": ["lem_all_str_snoc(_out0, _elt)"]}},
        "modifies": [],
        "properties": ["C18", "C02"],
    })
    C.register(w, {
        "key": f"{U}::lambda_call_follow_renames",
        "params": {"call": "py", "old_names": "list"},
        "requires": ["isinstance(call, ast.Call)", "good(call)"],
        "raises": {},
        # the same call: callee and positional arguments untouched, as many keywords as before
        # (only their names may change), still a well-formed expression of query shape
        "ensures": ["good(result)", "isinstance(result, ast.Call)",
                    "same(result.func, call.func)", "same(result.args, call.args)",
                    "len(result.keywords) == len(call.keywords)"],
        "lemma_instances": ["lem_kwl_in(call.keywords)"],
        "comps": {0: {"invariant": ["all_list(is_goodkw, _rest)", "all_list(is_goodkw, _out)",
                                    "len(_out) == len(_done)"],
                      "hints": ["lem_kwl_out(_out)"],
                      "step_hints": ["lem_goodkw_snoc(_out0, _elt)",
                                     "lem_all_str_in(dict_values_from(renamed), _elt.arg)"]}},
        "modifies": ["*"],
        "properties": ["C18", "C02"],
    })
    # ---- term builders used by the fusion rules ---------------------------------------------
    C.register(w, {
        "key": f"{F}::make_Select",
        "params": {"source": "py", "selection": "py"},
        "requires": ["wf(selection)"],
        "raises": {},
        "ensures": ["implies(is_identity_lambda(selection), same(result, source))",
                    "implies(not is_identity_lambda(selection), "
                    "same(result, ast.Call(ast.Name('Select'), [source, selection], [])))"],
        "cases": [("is_identity_lambda(selection)", "source"),
                  ("not is_identity_lambda(selection)",
                   "ast.Call(ast.Name('Select'), [source, selection], [])")],
        "modifies": [],
        "properties": ["C18", "C14", "C02"],
    })
    C.register(w, {
        "key": f"{F}::_is_method_call_on_first",
        "params": {"node": "py"},
        "requires": ["isinstance(node, ast.Call)", "wf(node)"],
        "raises": {},
        "ensures": ["iff(result, isinstance(node.func, ast.Attribute) and "
                    "isinstance(node.func.value, ast.Call) and "
                    "isinstance(node.func.value.func, ast.Name) and "
                    "node.func.value.func.id == 'First')"],
        "ret": "bool",
        "modifies": [],
        "properties": ["C18"],
    })
    C.register(w, {
        "key": f"{F}::_is_plain_positional_lambda_call",
        "params": {"node": "py"},
        "requires": ["isinstance(node, ast.Call)", "wf(node)", "isinstance(node.func, ast.Lambda)"],
        "raises": {},
        "ensures": ["implies(result, len(node.keywords) == 0 and "
                    "len(node.func.args.args) == len(node.args))"],
        "ret": "bool",
        "modifies": [],
        "properties": ["C18", "C02"],
    })

    C.register(w, {
        "key": f"{F}::arg_name",
        "params": {},
        # the name built from the counter's value; the counter moves on by exactly one (so two
        # calls never see the same value; that str.format is injective in the number is CPython's)
        "ensures": ["result == str_format('arg_{0}', old_glob('argument_var_counter'))",
                    "glob('argument_var_counter') == old_glob('argument_var_counter') + 1"],
        "raises": {},
        "modifies": ["global.argument_var_counter"],
        "ret": "str",
        "properties": ["C18", "C14"],
    })
    C.register(w, {
        "key": f"{F}::_avoid_arg_names_in",
        "params": {"node": "py"},
        "requires": ["wf(node)"],
        "raises": {},
        # reads the tree, writes nothing but the module's name counter, which never goes back
        # (so names handed out earlier stay unique).  That the counter ends ABOVE every arg_<n> in
        # the tree is not stated here (it needs int() / str.format as inverse functions and that
        # ast.walk meets every node): exercised by engine B, naming scheme 'generated-names' (C02)
        "ensures": ["glob('argument_var_counter') >= old_glob('argument_var_counter')"],
        "ret": "none",
        "modifies": ["global.argument_var_counter"],
        "loops": {0: {"invariant": ["glob('argument_var_counter') >= old_glob('argument_var_counter')",
                                    "is_nodes(_rest)"]}},
        "assumes": ["ast.walk(n) yields well-formed nodes (library model); int(s) does not raise "
                    "for a decimal string (library fact)"],
        "properties": ["C18", "C14", "C02"],
    })
    # the entry point: simplify_chained_calls.visit wraps NodeVisitor.visit (the trusted dispatch)
    # in a depth counter; the class-level visitor contract is what callers of self.visit rely
    # on, so the override has to re-establish it from the hypothesis on super().visit
    C.register(w, {
        "key": f"{K}.visit",
        "self": K,
        "params": {"node": "py"},
        "requires": ["wf(node)", "qs(node)"],
        "raises": {"FuncADLIndexError": "any"},
        "ensures": ["wf(result)", "qs(result)", "same_kind(node, result)", "is_node(result)",
                    "self._visit_depth == old(self._visit_depth)"],
        "modifies": ["*"],
        "properties": ["C18", "C14", "C02"],
    })
    RA = f"{F}::make_args_unique.replace_args"
    C.register_class(w, {
        "key": RA,
        "base": "NodeTransformer",
        "state": {"_arg_stack": "list", "_seen_lambda": "bool"},
        "init_state": {"_arg_stack": "[]", "_seen_lambda": "False"},
        # hypothesis: a well-formed node of query shape stays one (a Lambda keeps its number of
        # parameters); the renaming stack - pairs of strings - is the same after a visit as before
        "visit_requires": ["wf(node)", "qs(node)", "pairs_ok(self._arg_stack)"],
        "visit_ensures": ["wf(result)", "qs(result)", "same_kind(node, result)", "is_node(result)",
                          "same(self._arg_stack, old(self._arg_stack))"],
        "visit_effects": {"_seen_lambda": "ufb('seen_after_visit', node, old(self._seen_lambda))"},
        "visit_globals": ["argument_var_counter"],
        "generic_requires": ["wf(node)", "qs(node)", "pairs_ok(self._arg_stack)"],
        "generic_ensures": ["wf(result)", "qs(result)", "same_kind(node, result)", "is_node(result)",
                            "same_class(node, result)",
                            "implies(isinstance(node, ast.Lambda), isinstance(result, ast.Lambda) "
                            "and isinstance(result.args, ast.arguments))",
                            "same(self._arg_stack, old(self._arg_stack))"],
        "generic_effects": {"_seen_lambda": "ufb('seen_after_generic', node, old(self._seen_lambda))"},
        "assumes": ["generic_visit of a well-formed node of query shape whose children are replaced "
                    "by visit results satisfying the hypothesis is again well-formed and of query "
                    "shape, and leaves the renaming stack as it found it when every child visit does"],
        "properties": ["C18", "C14", "C02"],
    })
    C.register(w, {
        "key": f"{RA}.visit_Name",
        "self": RA,
        "params": {"node": "py"},
        "requires": ["isinstance(node, ast.Name)", "wf(node)", "pairs_ok(self._arg_stack)"],
        "raises": {},
        "ensures": ["isinstance(result, ast.Name)"],
        "lemma_instances": ["lem_pairs_rev(self._arg_stack, [])"],
        "loops": {0: {"invariant": ["pairs_ok(_rest)"]}},
        "modifies": [],
        "properties": ["C18", "C14", "C02"],
    })
    C.register(w, {
        "key": f"{RA}.visit_Lambda",
        "self": RA,
        "params": {"node": "py"},
        "requires": ["isinstance(node, ast.Lambda)", "wf(node)", "qs(node)",
                     "pairs_ok(self._arg_stack)"],
        "raises": {},
        "ghost": {"S0": "self._arg_stack"},
        "ensures": ["isinstance(result, ast.Lambda)",
                    "len(result.args.args) == len(node.args.args)"],
        "lemma_instances": ["lem_argl(node.args.args)"],
        "comps": {
            0: {"invariant": ["all_list(is_argn, _rest)", "pairs_ok(_out)", "len(_out) == len(_done)"],
                "step_hints": ["lem_pairs_snoc(_out0, _elt)"]},
            1: {"invariant": ["all_list(is_argn, _rest)", "pairs_ok(_out)", "len(_out) == len(_done)"],
                "step_hints": ["lem_pairs_snoc(_out0, _elt)"]},
            2: {"invariant": ["pairs_ok(_rest)", "all_list(is_plain_arg, _out)", "all_list(qs, _out)",
                              "len(_out) == len(_done)"],
                "hints": ["lem_pa1(_out)"],
                "step_hints": ["lem_plain_snoc(_out0, _elt)", "lem_qs_snoc(_out0, _elt)"]},
        },
        "loops": {
            0: {"invariant": ["pairs_ok(_rest)", "same(self._arg_stack, concat(S0, _done))",
                              "pairs_ok(self._arg_stack)"],
                "step_hints": ["lem_cat_assoc(S0, _done, [head(_rest)])",
                               "lem_pairs_snoc(concat(S0, _done), head(_rest))"]},
            1: {"invariant": ["len(self._arg_stack) == len(S0) + len(_rest)",
                              "same(take(self._arg_stack, len(S0)), S0)"],
                "pre_hints": ["lem_take_cat(S0, mapping)"],
                "hints": ["lem_take_all(self._arg_stack)",
                          "lem_take_take(self._arg_stack, len(self._arg_stack) - 1, len(S0))",
                          "lem_len_take(self._arg_stack, len(self._arg_stack) - 1)"]},
        },
        "modifies": ["*"], "facts_fuel": 6, "parallel": 8,
        "properties": ["C18", "C14", "C02"],
    })
    C.register(w, {
        "key": f"{F}::make_args_unique",
        "params": {"a": "py"},
        "requires": ["isinstance(a, ast.Lambda)", "good(a)"],
        "ensures": ["isinstance(result, ast.Lambda)", "good(result)",
                    "isinstance(result.args, ast.arguments)",
                    "len(result.args.args) == len(a.args.args)"],
        "raises": {},
        "fresh": "deep", "fresh_trusted": True,
        "modifies": ["global.argument_var_counter"],
        "assumes": ["the tree make_args_unique returns shares no node with its argument (it visits a "
                    "deep copy, and the inner visitor returns the node it was given or nodes it "
                    "built): freshness through a visitor is not derived by the engine; that the "
                    "renaming preserves MEANING is exercised by engine B (C02)"],
        "properties": ["C18", "C14"],
    })
    C.register(w, {
        "key": f"{F}::convolute",
        "params": {"ast_g": "py", "ast_f": "py"},
        "requires": ["isinstance(ast_g, ast.Lambda)", "isinstance(ast_f, ast.Lambda)",
                     "good(ast_g)", "good(ast_f)"],
        "raises": {},
        "ensures": ["isinstance(result, ast.Lambda)", "good(result)",
                    "isinstance(result.args, ast.arguments)", "len(result.args.args) == 1"],
        # no object that existed before is written; the module's name counter moves on
        "modifies": ["global.argument_var_counter"],
        "properties": ["C18", "C14"],
    })


_reg = register


def register(w):
    _reg(w)
    from pyvc.lemmas import register_lemma
    # proj_kha is proved first; the two key_last lemmas use its instance at the tail
    hints = {"klr": ["lem_kha(tail(d), r, s)"], "kld": ["lem_kha(tail(d), r, s)"]}
    PR = ["C18", "C14", "C02"]
    register_lemma(w, {"name": "pa1", "pred": "lem_pa1", "induct": "list", "fuel": 4, "properties": PR})
    register_lemma(w, {"name": "qs_snoc", "pred": "lem_qs_snoc", "induct": "list", "fuel": 2, "properties": PR})
    register_lemma(w, {"name": "plain_snoc", "pred": "lem_plain_snoc", "induct": "list", "fuel": 4,
                       "properties": PR})
    register_lemma(w, {"name": "pairs_snoc", "pred": "lem_pairs_snoc", "induct": "list", "fuel": 4,
                       "properties": PR})
    register_lemma(w, {"name": "take_all", "pred": "lem_take_all", "induct": "list", "fuel": 4,
                       "properties": PR})
    register_lemma(w, {"name": "take_take", "pred": "lem_take_take", "induct": "list",
                       "ih_pred": "lem_take_take_ih", "fuel": 4, "properties": PR})
    register_lemma(w, {"name": "pairs_rev", "pred": "lem_pairs_rev", "induct": "list",
                       "ih_cons_head": ["acc"], "fuel": 4, "properties": PR})
    register_lemma(w, {"name": "pairs_cat", "pred": "lem_pairs_cat", "induct": "list", "fuel": 4,
                       "properties": PR})
    register_lemma(w, {"name": "argl", "pred": "lem_argl", "induct": "list", "fuel": 4,
                       "properties": PR})
    register_lemma(w, {"name": "all_argn_cat", "pred": "lem_all_argn_cat", "induct": "list",
                       "fuel": 4, "properties": PR})
    register_lemma(w, {"name": "all_str_snoc", "pred": "lem_all_str_snoc", "induct": "list",
                       "fuel": 4, "properties": PR})
    register_lemma(w, {"name": "kwl_in", "pred": "lem_kwl_in", "induct": "list", "fuel": 4,
                       "properties": PR})
    register_lemma(w, {"name": "kwl_out", "pred": "lem_kwl_out", "induct": "list", "fuel": 4,
                       "properties": PR})
    register_lemma(w, {"name": "goodkw_snoc", "pred": "lem_goodkw_snoc", "induct": "list",
                       "fuel": 4, "properties": PR})
    register_lemma(w, {"name": "all_str_in", "pred": "lem_all_str_in", "induct": "list",
                       "fuel": 4, "properties": PR})
    register_lemma(w, {"name": "fg_take", "pred": "lem_fg_take", "induct": "list",
                       "ih_pred": "lem_fg_take_ih", "fuel": 4, "properties": PR})
    register_lemma(w, {"name": "fg_cat", "pred": "lem_fg_cat", "induct": "list", "fuel": 4,
                       "properties": PR})
    register_lemma(w, {"name": "fg_rev", "pred": "lem_fg_rev", "induct": "list",
                       "ih_cons_head": ["acc"], "fuel": 4, "properties": PR})
    register_lemma(w, {"name": "fg_nth", "pred": "lem_fg_nth", "induct": "list",
                       "ih_pred": "lem_fg_nth_ih", "fuel": 4, "properties": PR})
    register_lemma(w, {"name": "len_take", "pred": "lem_len_take", "induct": "list",
                       "ih_pred": "lem_len_take_ih", "fuel": 4, "properties": PR})
    register_lemma(w, {"name": "take_cat", "pred": "lem_take_cat", "induct": "list", "fuel": 4,
                       "properties": PR})
    register_lemma(w, {"name": "rev_snoc", "pred": "lem_rev_snoc", "induct": "list",
                       "ih_cons_head": ["acc"], "fuel": 4, "properties": PR})
    register_lemma(w, {"name": "assoc_good", "pred": "lem_assoc_good", "induct": "list",
                       "ih_pred": "lem_assoc_good_ih", "fuel": 4, "properties": PR})
    register_lemma(w, {"name": "lookup_good", "pred": "lem_lookup_good", "induct": "list",
                       "hints": ["lem_assoc_good(dict_keys(head(rfs)), dict_values(head(rfs)), name)"],
                       "fuel": 2, "properties": PR})
    for n in ("kh", "kha", "klr", "kld", "klb", "ack"):
        register_lemma(w, {"name": f"proj_{n}", "pred": f"lem_{n}", "induct": "list",
                           "fuel": 4, "hints": hints.get(n, []),
                           "properties": ["C18", "C14", "C02"]})
