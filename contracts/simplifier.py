"""Sidecar contracts: func_adl/ast/function_simplifier.py  (C18, C14; helpers of C02)."""
from pyvc import contracts as C

F = "func_adl/ast/function_simplifier.py"
K = f"{F}::simplify_chained_calls"


def register(w):
    C.register_class(w, {
        "key": K,
        "base": "NodeTransformer",
        "state": {},
        "properties": ["C18", "C14"],
    })
    # (t1, t2, ...)[n]: the element for a constant in-range index (negative ones count from the
    # end), the dedicated error beyond the end, the subscript itself for every other selector
    C.register(w, {
        "key": f"{K}.visit_Subscript_Tuple",
        "native": {"imports": "from func_adl.ast.function_simplifier import simplify_chained_calls", "call": "simplify_chained_calls().visit_Subscript_Tuple(v, s)"},
        "self": K,
        "params": {"v": "py", "s": "py"},
        "requires": ["isinstance(v, ast.Tuple) or isinstance(v, ast.List)", "wf(v)"],
        "raises": {"FuncADLIndexError": "int_const(s) and s.value >= len(v.elts)"},
        "raises_iff": {"FuncADLIndexError": "int_const(s) and s.value >= len(v.elts)"},
        "ensures": [
            "implies(int_const(s) and s.value >= -len(v.elts), same(result, seq_pick(v.elts, s.value)))",
            "implies(not (int_const(s) and s.value >= -len(v.elts)), same(result, ast.Subscript(v, s)))"],
        "modifies": [],
        "properties": ["C18", "C14"],
    })
    C.register(w, {
        "key": f"{K}.visit_Subscript_List",
        "native": {"imports": "from func_adl.ast.function_simplifier import simplify_chained_calls", "call": "simplify_chained_calls().visit_Subscript_List(v, s)"},
        "self": K,
        "params": {"v": "py", "s": "py"},
        "requires": ["isinstance(v, ast.List)", "wf(v)"],
        "raises": {"FuncADLIndexError": "int_const(s) and s.value >= len(v.elts)"},
        "raises_iff": {"FuncADLIndexError": "int_const(s) and s.value >= len(v.elts)"},
        "ensures": [
            "implies(int_const(s) and s.value >= -len(v.elts), same(result, seq_pick(v.elts, s.value)))",
            "implies(not (int_const(s) and s.value >= -len(v.elts)), same(result, ast.Subscript(v, s)))"],
        "modifies": [],
        "properties": ["C18", "C14"],
    })
    C.register(w, {
        "key": f"{K}.visit_Subscript_Dict_with_value",
        "native": {"imports": "from func_adl.ast.function_simplifier import simplify_chained_calls", "call": "simplify_chained_calls().visit_Subscript_Dict_with_value(v, s)"},
        "self": K,
        "params": {"v": "py", "s": "py"},
        "requires": ["isinstance(v, ast.Dict)", "wf(v)", "len(v.keys) == len(v.values)"],
        "raises": {},
        "ensures": ["same(result, dict_lookup(v, s))",
                    "iff(result is None, not dict_resolves(v, s))"],
        "modifies": [],
        "loops": {0: {"invariant": ["not key_has(_done, s)"],
                      "hints": ["lem_kh(_done, _rest, s)", "lem_ki(_done, _rest, s)",
                                "lem_ack(_done, _rest)"],
                      "step_hints": ["lem_kh(_done, [head(_rest)], s)"]}},
        "properties": ["C18", "C14"],
    })
    C.register(w, {
        "key": f"{K}.visit_Subscript_Dict",
        "native": {"imports": "from func_adl.ast.function_simplifier import simplify_chained_calls", "call": "simplify_chained_calls().visit_Subscript_Dict(v, s)"},
        "self": K,
        "params": {"v": "py", "s": "py"},
        "requires": ["isinstance(v, ast.Dict)", "wf(v)", "len(v.keys) == len(v.values)"],
        "raises": {},
        "ensures": [
            "implies(key_const(s) and dict_resolves(v, s.value), same(result, dict_lookup(v, s.value)))",
            "implies(not (key_const(s) and dict_resolves(v, s.value)), same(result, ast.Subscript(v, s)))"],
        "modifies": [],
        "properties": ["C18", "C14"],
    })


_reg = register


def register(w):
    _reg(w)
    from pyvc.lemmas import register_lemma
    for n in ("kh", "ki", "ack"):
        register_lemma(w, {"name": f"proj_{n}", "pred": f"lem_{n}", "induct": "list",
                           "fuel": 4, "properties": ["C18", "C14"]})
