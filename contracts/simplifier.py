"""Sidecar contracts: func_adl/ast/function_simplifier.py  (C18, C14; helpers of C02)."""
from pyvc import contracts as C

F = "func_adl/ast/function_simplifier.py"
K = f"{F}::simplify_chained_calls"


def register(w):
    C.register_class(w, {
        "key": K,
        "base": "NodeTransformer",
        "state": {},
        "properties": ["C18", "C14"],
    })
    # (t1, t2, ...)[n]: the element for a constant in-range index (negative ones count from the
    # end), the dedicated error beyond the end, the subscript itself for every other selector
    C.register(w, {
        "key": f"{K}.visit_Subscript_Tuple",
        "native": {"imports": "from func_adl.ast.function_simplifier import simplify_chained_calls", "call": "simplify_chained_calls().visit_Subscript_Tuple(v, s)"},
        "self": K,
        "params": {"v": "py", "s": "py"},
        "requires": ["isinstance(v, ast.Tuple) or isinstance(v, ast.List)", "wf(v)"],
        "raises": {"FuncADLIndexError": "int_const(s) and s.value >= len(v.elts)"},
        "raises_iff": {"FuncADLIndexError": "int_const(s) and s.value >= len(v.elts)"},
        "ensures": [
            "implies(int_const(s) and s.value >= -len(v.elts), same(result, seq_pick(v.elts, s.value)))",
            "implies(not (int_const(s) and s.value >= -len(v.elts)), same(result, ast.Subscript(v, s)))"],
        "modifies": [],
        "properties": ["C18", "C14"],
    })
    C.register(w, {
        "key": f"{K}.visit_Subscript_List",
        "native": {"imports": "from func_adl.ast.function_simplifier import simplify_chained_calls", "call": "simplify_chained_calls().visit_Subscript_List(v, s)"},
        "self": K,
        "params": {"v": "py", "s": "py"},
        "requires": ["isinstance(v, ast.List)", "wf(v)"],
        "raises": {"FuncADLIndexError": "int_const(s) and s.value >= len(v.elts)"},
        "raises_iff": {"FuncADLIndexError": "int_const(s) and s.value >= len(v.elts)"},
        "ensures": [
            "implies(int_const(s) and s.value >= -len(v.elts), same(result, seq_pick(v.elts, s.value)))",
            "implies(not (int_const(s) and s.value >= -len(v.elts)), same(result, ast.Subscript(v, s)))"],
        "modifies": [],
        "properties": ["C18", "C14"],
    })
    C.register(w, {
        "key": f"{K}.visit_Subscript_Dict_with_value",
        "native": {"imports": "from func_adl.ast.function_simplifier import simplify_chained_calls", "call": "simplify_chained_calls().visit_Subscript_Dict_with_value(v, s)"},
        "self": K,
        "params": {"v": "py", "s": "py"},
        "requires": ["isinstance(v, ast.Dict)", "wf(v)", "len(v.keys) == len(v.values)"],
        "raises": {},
        "ensures": ["same(result, dict_lookup(v, s))",
                    "iff(result is None, not dict_resolves(v, s))"],
        "modifies": [],
        "loops": {0: {"invariant": ["not key_has(_done, s)"],
                      "hints": ["lem_kh(_done, _rest, s)", "lem_ki(_done, _rest, s)",
                                "lem_ack(_done, _rest)"],
                      "step_hints": ["lem_kh(_done, [head(_rest)], s)"]}},
        "properties": ["C18", "C14"],
    })
    C.register(w, {
        "key": f"{K}.visit_Subscript_Dict",
        "native": {"imports": "from func_adl.ast.function_simplifier import simplify_chained_calls", "call": "simplify_chained_calls().visit_Subscript_Dict(v, s)"},
        "self": K,
        "params": {"v": "py", "s": "py"},
        "requires": ["isinstance(v, ast.Dict)", "wf(v)", "len(v.keys) == len(v.values)"],
        "raises": {},
        "ensures": [
            "implies(key_const(s) and dict_resolves(v, s.value), same(result, dict_lookup(v, s.value)))",
            "implies(not (key_const(s) and dict_resolves(v, s.value)), same(result, ast.Subscript(v, s)))"],
        "modifies": [],
        "properties": ["C18", "C14"],
    })

    # ---- term builders used by the fusion rules ---------------------------------------------
    C.register(w, {
        "key": f"{F}::make_Select",
        "params": {"source": "py", "selection": "py"},
        "requires": ["wf(selection)"],
        "raises": {},
        "ensures": ["implies(is_identity_lambda(selection), same(result, source))",
                    "implies(not is_identity_lambda(selection), "
                    "same(result, ast.Call(ast.Name('Select'), [source, selection], [])))"],
        "modifies": [],
        "properties": ["C18", "C14", "C02"],
    })
    C.register(w, {
        "key": f"{F}::_is_method_call_on_first",
        "params": {"node": "py"},
        "requires": ["isinstance(node, ast.Call)", "wf(node)"],
        "raises": {},
        "ensures": ["iff(result, isinstance(node.func, ast.Attribute) and "
                    "isinstance(node.func.value, ast.Call) and "
                    "isinstance(node.func.value.func, ast.Name) and "
                    "node.func.value.func.id == 'First')"],
        "ret": "bool",
        "modifies": [],
        "properties": ["C18"],
    })
    C.register(w, {
        "key": f"{F}::_is_plain_positional_lambda_call",
        "params": {"node": "py"},
        "requires": ["isinstance(node, ast.Call)", "wf(node)", "isinstance(node.func, ast.Lambda)"],
        "raises": {},
        "ensures": ["implies(result, len(node.keywords) == 0 and "
                    "len(node.func.args.args) == len(node.args))"],
        "ret": "bool",
        "modifies": [],
        "properties": ["C18", "C02"],
    })

    C.register(w, {
        "key": f"{F}::arg_name",
        "params": {},
        "ensures": [],
        "ret": "str",
        "abstract": True, "trusted": True,
        "assumes": ["arg_name() returns some string (a fresh name from a global counter); "
                    "freshness matters to C02, not to C18"],
        "properties": ["C18", "C14"],
    })
    C.register(w, {
        "key": f"{F}::make_args_unique",
        "params": {"a": "py"},
        "requires": ["isinstance(a, ast.Lambda)", "good(a)"],
        "ensures": ["isinstance(result, ast.Lambda)", "good(result)",
                    "len(result.args.args) == len(a.args.args)"],
        "fresh": "deep",
        "abstract": True, "trusted": True,
        "assumes": ["make_args_unique (deepcopy + inner renaming visitor) returns a well-formed "
                    "Lambda of query shape with the same number of parameters: NOT verified here; "
                    "its semantic effect is exercised by engine B (C02)"],
        "properties": ["C18", "C14"],
    })
    C.register(w, {
        "key": f"{F}::convolute",
        "params": {"ast_g": "py", "ast_f": "py"},
        "requires": ["isinstance(ast_g, ast.Lambda)", "isinstance(ast_f, ast.Lambda)",
                     "good(ast_g)", "good(ast_f)"],
        "raises": {},
        "ensures": ["isinstance(result, ast.Lambda)", "len(result.args.args) == 1", "good(result)"],
        "modifies": [],
        "properties": ["C18", "C14"],
    })


_reg = register


def register(w):
    _reg(w)
    from pyvc.lemmas import register_lemma
    for n in ("kh", "ki", "ack"):
        register_lemma(w, {"name": f"proj_{n}", "pred": f"lem_{n}", "induct": "list",
                           "fuel": 4, "properties": ["C18", "C14"]})
