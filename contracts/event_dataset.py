"""Sidecar contracts: func_adl/event_dataset.py::find_EventDataset (C12)."""
from pyvc import contracts as C

F = "func_adl/event_dataset.py"
K = f"{F}::find_EventDataset.ds_finder"


def register(w):
    C.register_class(w, {
        "key": K,
        "base": "NodeVisitor",
        "state": {"ds": "py"},
        "init_state": {"ds": "None"},
        "visit_requires": ["wf(node)"],
        # a second dataset call anywhere in the remaining tree is refused
        "visit_raises": {"Exception": "len(ds_calls(node)) >= 2 or "
                                      "(self.ds is not None and len(ds_calls(node)) >= 1)"},
        "visit_ensures": ["len(ds_calls(node)) <= 1",
                          "implies(old(self.ds) is not None, len(ds_calls(node)) == 0)"],
        "visit_effects": {"ds": "old(self.ds) if len(ds_calls(node)) == 0 else head(ds_calls(node))"},
        "visit_returns": True,
        "generic_requires": ["wf(node)"],
        "generic_raises": {"Exception": "len(fold_children(ds_calls, node)) >= 2 or "
                                        "(self.ds is not None and "
                                        "len(fold_children(ds_calls, node)) >= 1)"},
        "generic_ensures": ["len(fold_children(ds_calls, node)) <= 1",
                            "implies(old(self.ds) is not None, "
                            "len(fold_children(ds_calls, node)) == 0)"],
        "generic_effects": {"ds": "old(self.ds) if len(fold_children(ds_calls, node)) == 0 "
                                  "else head(fold_children(ds_calls, node))"},
        "properties": ["C12"],
    })
    C.register(w, {
        "key": f"{K}.visit_Call",
        "self": K,
        "params": {"node": "py"},
        "requires": ["isinstance(node, ast.Call)", "wf(node)"],
        "raises": {"Exception": "len(ds_calls(node)) >= 2 or "
                                "(self.ds is not None and len(ds_calls(node)) >= 1)"},
        "ensures": ["same(self.ds, old(self.ds) if len(ds_calls(node)) == 0 "
                    "else head(ds_calls(node)))"],
        "modifies": ["self.ds"],
        "properties": ["C12"],
    })
    C.register(w, {
        "key": f"{F}::find_EventDataset",
        "params": {"a": "py"},
        "requires": ["is_node(a)", "wf(a)"],
        "raises": {"Exception": "len(ds_calls(a)) != 1"},
        "raises_iff": {"Exception": "len(ds_calls(a)) != 1"},
        "ensures": ["same(result, head(ds_calls(a)))"],
        "lemma_instances": ["lem_ds_head(a)"],
        "modifies": [],
        "native": {"imports": "from func_adl.event_dataset import find_EventDataset",
                   "call": "find_EventDataset(a)"},
        "properties": ["C12"],
    })


_reg = register


def register(w):
    _reg(w)
    from pyvc.lemmas import register_lemma
    register_lemma(w, {"name": "ds_head_list", "pred": "lem_ds_head_list", "induct": "list",
                       "fuel": 4, "properties": ["C12"]})
    register_lemma(w, {"name": "ds_head", "pred": "lem_ds_head", "induct": "node",
                       "uses": ["ds_head_list"], "fuel": 4, "properties": ["C12"]})


_reg_find = register


def register(w):
    _reg_find(w)
    OS = "func_adl/object_stream.py::ObjectStream"
    ED = f"{F}::EventDataset"
    C.register_class(w, {
        "key": ED,
        "base": None,
        "base_key": OS,
        "state": {"_q_ast": "py", "_item_type": "py"},
        "property_of": {"query_ast": "_q_ast", "item_type": "_item_type"},
        "properties": ["C11", "C12"],
    })
    for k, extra in ((f"{OS}.__init__", {}),
                     (f"{ED}.super.__init__", {"source": f"{OS}.__init__", "method": True})):
        C.register(w, dict({
            "key": k,
            "self": OS if not extra else ED,
            "params": {"the_ast": "py", "item_type": "py"},
            "raises": {},
            "ensures": ["same(self._q_ast, the_ast)", "same(self._item_type, item_type)"],
            "self_attr_is": {"_q_ast": "the_ast", "_item_type": "item_type"},
            "ret": "none",
            "modifies": ["self._q_ast", "self._item_type"],
            "properties": ["C11", "C12"],
        }, **extra))
    # the root of every query: a NEW EventDataset() call node with its own (empty) argument list -
    # no two datasets share any part of their root node (C11: streams on different datasets are
    # independent, also for back ends that write arguments into their root node)
    C.register(w, {
        "key": f"{ED}.__init__",
        "self": ED,
        "params": {"item_type": "py"},
        "raises": {},
        "ensures": ["same(self._q_ast, ast.Call(ast.Name('EventDataset'), [], []))",
                    "same(self._item_type, item_type)"],
        "self_attr_fresh": {"_q_ast": "shallow"},
        "ret": "none",
        "inline": ["func_adl/util_ast.py::function_call"],
        "properties": ["C11", "C12"],
    })
