"""Sidecar contracts: the expression cases of remap_by_types.type_transformer (C10: every
expression form is handled without an internal error; C08 relies on the same methods)."""
from pyvc import contracts as C

F = "func_adl/type_based_replacement.py"
K = f"{F}::remap_by_types.type_transformer"


def register(w):
    C.register_class(w, {
        "key": K,
        "base": "NodeTransformer",
        "state": {"_stream": "py", "_found_types": "dict"},
        # hypothesis: visiting a well-formed node gives a well-formed node of the same class family;
        # the only refusals are ValueErrors
        "visit_requires": ["wf(node)"],
        "visit_raises": {"ValueError": "any"},
        "visit_ensures": ["wf(result)", "same_kind(node, result)", "is_node(result)"],
        "generic_requires": ["wf(node)"],
        "generic_ensures": ["wf(result)", "same_kind(node, result)", "is_node(result)",
                            "same_class(node, result)"],
        "assumes": ["NodeTransformer.generic_visit returns the node it was given (same class), its "
                    "children replaced by visit results that satisfy the hypothesis",
                    "visit_Call / process_method_call / callbacks (typing and inspect reflection) "
                    "are not under contract: assumed to satisfy the hypothesis",
                    "visit_Dict and visit_Attribute (comprehensions over zip / enumerate of "
                    "symbolic lists, make_dataclass) are outside the engine's subset: assumed to "
                    "satisfy the hypothesis, exercised by engine B"],
        "properties": ["C10", "C08"],
    })
    C.register(w, {
        "key": f"{K}.lookup_type",
        "self": K,
        "params": {"name": "py"},
        "raises": {},
        "ensures": ["result is not None"],     # an unknown type is Any, never a KeyError / None
        "modifies": [],
        "properties": ["C10", "C08"],
    })
    for cls in ("UnaryOp", "BinOp", "BoolOp", "Compare", "Lambda", "Constant", "IfExp", "Subscript",
                "Name"):
        C.register(w, {
            "key": f"{K}.visit_{cls}",
            "self": K,
            "params": {"node": "py"},
            "requires": [f"isinstance(node, ast.{cls})", "wf(node)"],
            "raises": {"ValueError": "any"},
            "ensures": [f"isinstance(result, ast.{cls})"],
            "modifies": ["*"],
            "properties": ["C10", "C08"],
        })
