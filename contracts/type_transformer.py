"""Sidecar contracts: the expression cases of remap_by_types.type_transformer (C10: every
expression form is handled without an internal error; C08 relies on the same methods)."""
from pyvc import contracts as C

F = "func_adl/type_based_replacement.py"
K = f"{F}::remap_by_types.type_transformer"


def register(w):
    C.register_class(w, {
        "key": K,
        "base": "NodeTransformer",
        "state": {"_stream": "py", "_found_types": "dict"},
        "property_of": {"stream": "_stream"},
        # hypothesis: visiting a well-formed node gives a well-formed node of the same class family;
        # the only refusals are ValueErrors
        "visit_requires": ["wf(node)", "dok(node)"],
        "visit_raises": {"ValueError": "any"},
        "visit_ensures": ["wf(result)", "same_kind(node, result)", "is_node(result)", "dok(result)"],
        "generic_requires": ["wf(node)", "dok(node)"],
        "generic_ensures": ["wf(result)", "same_kind(node, result)", "is_node(result)",
                            "same_class(node, result)", "dok(result)"],
        "assumes": ["NodeTransformer.generic_visit returns the node it was given (same class), its "
                    "children replaced by visit results that satisfy the hypothesis",
                    "process_method_call / process_function_call / process_parameterized_method_call "
                    "(typing and inspect reflection, callbacks) are assumed contracts; visit_Call's "
                    "routing to them is proved",
                    "visit_Dict (comprehension over zip of symbolic lists, make_dataclass) is "
                    "outside the engine's subset: assumed to satisfy the hypothesis, exercised "
                    "by engine B"],
        "properties": ["C10", "C08"],
    })
    C.register(w, {
        "key": f"{K}.lookup_type",
        "self": K,
        "params": {"name": "py"},
        "raises": {},
        # an unknown type is Any, never a KeyError / None; a recorded type is returned as recorded
        "ensures": ["result is not None",
                    "implies(self._found_types.get(name, None) is not None, "
                    "same(result, self._found_types.get(name, None)))"],
        "modifies": [],
        "properties": ["C10", "C08"],
    })
    for cls in ("UnaryOp", "BinOp", "BoolOp", "Compare", "Lambda", "Constant", "IfExp", "Subscript",
                "Name"):
        C.register(w, {
            "key": f"{K}.visit_{cls}",
            "self": K,
            "params": {"node": "py"},
            "requires": [f"isinstance(node, ast.{cls})", "wf(node)", "dok(node)"],
            "raises": {"ValueError": "any"},
            "ensures": [f"isinstance(result, ast.{cls})", "dok(result)"],
            "modifies": ["*"],
            "properties": ["C10", "C08"],
        })
    # visit_Call: routing of a (generically visited) call to the three typed-call processors. The
    # processors themselves (typing / inspect reflection, callbacks) are ASSUMED contracts: a
    # well-formed expression back, or ValueError
    for m, params in (("process_method_call", {"node": "py", "obj_type": "py"}),
                      ("process_function_call", {"node": "py", "func_info": "py"}),
                      ("process_parameterized_method_call",
                       {"node": "py", "obj_type": "py", "attr_name": "py", "slice": "py", "value": "py"})):
        C.register(w, {
            "key": f"{K}.{m}",
            "self": K,
            "params": params,
            "requires": ["isinstance(node, ast.Call)", "wf(node)", "dok(node)"],
            "raises": {"ValueError": "any"},
            "ensures": ["wf(result)", "is_expr(result)", "is_node(result)", "dok(result)"],
            "modifies": ["*"],
            "abstract": True, "trusted": True,
            "assumes": [f"{m} (typing / inspect reflection, default filling, callbacks: C07-C09, "
                        "bounded there) returns a well-formed expression or raises ValueError"],
            "properties": ["C10", "C08"],
        })
    C.register(w, {
        "key": f"{K}.visit_Call",
        "self": K,
        "params": {"node": "py"},
        "requires": ["isinstance(node, ast.Call)", "wf(node)", "dok(node)"],
        "raises": {"ValueError": "any"},
        # a call whose callee is neither an attribute of a value of known type, nor a registered
        # function, nor a parameterized property stays the (generically visited) call itself
        "ensures": ["dok(result)", "is_expr(result)"],
        "modifies": ["*"],
        "properties": ["C10", "C08"],
    })
    # visit_Attribute: an attribute of a dictionary literal is the field lookup {…}.name. Every
    # position collected for the name is in range of `values`, the one used is the position of
    # the LAST key equal to the name (Python's meaning of a repeated key; C08 follows that type),
    # and the only refusal is the designed ValueError: no key equals the name (and it is not zip)
    C.register(w, {
        "key": f"{K}.visit_Attribute",
        "self": K,
        "params": {"node": "py"},
        "requires": ["isinstance(node, ast.Attribute)", "wf(node)", "dok(node)"],
        "raises": {"ValueError": "any"},
        "ensures": ["isinstance(result, ast.Attribute)", "dok(result)",
                    # {…}.name is typed after the value next to the LAST key equal to the name
                    # (generic_visit works in place: after it `node` is the object returned)
                    "implies(isinstance(result.value, ast.Dict) and key_has(result.value.keys, result.attr) and "
                    "self._found_types.get(nth(result.value.values, key_last(result.value.keys, result.attr)), None) is not None, "
                    "same(self._found_types.get(result, None), "
                    "self._found_types.get(nth(result.value.values, key_last(result.value.keys, result.attr)), None)))"],
        "modifies": ["*"],
        "comps": {0: {"invariant": ["idx_below(_out, _i)",
                                    "iff(is_empty(_out), not key_has(_done, key))",
                                    "implies(not is_empty(_out), last_of(_out) == key_last(_done, key))"],
                      "hints": ["lem_ib_mono(_out, _i)", "lem_ib_snoc(_out, _i, _i + 1)",
                                "lem_lo_snoc(_out, _i)", "lem_ib_lo(_out, _i)", "lem_lo_nth(_out)"],
                      "step_hints": ["lem_kha(_done, [head(_rest)], key)",
                                     "lem_klr(_done, [head(_rest)], key)",
                                     "lem_kld(_done, [head(_rest)], key)"]}},
        "properties": ["C10", "C08"],
    })
    C.register(w, {
        "key": f"{K}.visit_Dict",
        "self": K,
        "params": {"node": "py"},
        "requires": ["isinstance(node, ast.Dict)", "wf(node)", "dok(node)"],
        "raises": {"ValueError": "any"},
        "ensures": ["isinstance(result, ast.Dict)", "dok(result)"],
        "modifies": ["*"],
        "comps": {0: {"invariant": ["all_pairs(_out)"], "hints": [],
                      "step_hints": ["lem_ap_snoc(_out0, _elt)"]},
                  1: {"invariant": [], "hints": ["lem_ap_cat(_done, _rest)"]}},
        "properties": ["C10", "C08"],
    })
    # C09: the callbacks registered on the class and on the method fire in that order, each once,
    # each receives the stream returned by the previous one and the call node as rewritten so far;
    # nothing else is called; the transformer's stream is the last one returned
    C.register(w, {
        "key": f"{K}.process_method_callbacks",
        "self": K,
        "params": {"obj_type": "py", "node": "py", "call_method": "py"},
        "requires": ["is_node(node)"],
        "ghost": {"hc": "has_cb(obj_type)", "hm": "has_cb(call_method)"},
        "raises": {"AssertionError": "any"},
        "ensures": [
            "n_calls() == (1 if hc else 0) + (1 if hm else 0)",
            "implies(hc, same(call_fn(0), cb_of(obj_type)) and same(call_arg(0, 0), old(self._stream)) "
            "and same(call_arg(0, 1), node))",
            "implies(hc and hm, same(call_fn(1), cb_of(call_method)) and "
            "same(call_arg(1, 0), nth(call_result(0), 0)) and same(call_arg(1, 1), nth(call_result(0), 1)))",
            "implies(not hc and hm, same(call_fn(0), cb_of(call_method)) and "
            "same(call_arg(0, 0), old(self._stream)) and same(call_arg(0, 1), node))",
            "implies(not hc and not hm, same(result, node) and same(self._stream, old(self._stream)))",
            "implies(hm, same(result, nth(call_result(n_calls() - 1), 1)) and "
            "same(self._stream, nth(call_result(n_calls() - 1), 0)))",
            "implies(hc and not hm, same(result, nth(call_result(0), 1)) and "
            "same(self._stream, nth(call_result(0), 0)))"],
        "modifies": ["*"],
        "opaque_call_assumes": ["isinstance(call_result, tuple)", "len(call_result) == 2"],
        "assumes": ["protocol of user callbacks: each returns a (stream, node) pair (assumed of every "
                    "opaque call; a callback that does not makes the unpacking raise)"],
        "properties": ["C09"],
    })



_reg = register


def register(w):
    _reg(w)
    from pyvc.lemmas import register_lemma
    for n in ("ib_mono", "ib_snoc", "ib_lo", "lo_snoc", "lo_nth", "ap_cat", "ap_snoc"):
        register_lemma(w, {"name": f"pos_{n}", "pred": f"lem_{n}", "induct": "list", "fuel": 4,
                           "properties": ["C10", "C08"]})
