"""Sidecar contracts: the expression cases of remap_by_types.type_transformer (C10: every
expression form is handled without an internal error; C08 relies on the same methods)."""
from pyvc import contracts as C

F = "func_adl/type_based_replacement.py"
K = f"{F}::remap_by_types.type_transformer"


def register(w):
    C.register_class(w, {
        "key": K,
        "base": "NodeTransformer",
        "state": {"_stream": "py", "_found_types": "dict"},
        "property_of": {"stream": "_stream"},
        # hypothesis: visiting a well-formed node gives a well-formed node of the same class family;
        # the only refusals are ValueErrors
        "visit_requires": ["wf(node)"],
        "visit_raises": {"ValueError": "any"},
        "visit_ensures": ["wf(result)", "same_kind(node, result)", "is_node(result)"],
        "generic_requires": ["wf(node)"],
        "generic_ensures": ["wf(result)", "same_kind(node, result)", "is_node(result)",
                            "same_class(node, result)"],
        "assumes": ["NodeTransformer.generic_visit returns the node it was given (same class), its "
                    "children replaced by visit results that satisfy the hypothesis",
                    "visit_Call / process_method_call / callbacks (typing and inspect reflection) "
                    "are not under contract: assumed to satisfy the hypothesis",
                    "visit_Dict and visit_Attribute (comprehensions over zip / enumerate of "
                    "symbolic lists, make_dataclass) are outside the engine's subset: assumed to "
                    "satisfy the hypothesis, exercised by engine B"],
        "properties": ["C10", "C08"],
    })
    C.register(w, {
        "key": f"{K}.lookup_type",
        "self": K,
        "params": {"name": "py"},
        "raises": {},
        "ensures": ["result is not None"],     # an unknown type is Any, never a KeyError / None
        "modifies": [],
        "properties": ["C10", "C08"],
    })
    for cls in ("UnaryOp", "BinOp", "BoolOp", "Compare", "Lambda", "Constant", "IfExp", "Subscript",
                "Name"):
        C.register(w, {
            "key": f"{K}.visit_{cls}",
            "self": K,
            "params": {"node": "py"},
            "requires": [f"isinstance(node, ast.{cls})", "wf(node)"],
            "raises": {"ValueError": "any"},
            "ensures": [f"isinstance(result, ast.{cls})"],
            "modifies": ["*"],
            "properties": ["C10", "C08"],
        })
    # C09: the callbacks registered on the class and on the method fire in that order, each once,
    # each receives the stream returned by the previous one and the call node as rewritten so far;
    # nothing else is called; the transformer's stream is the last one returned
    C.register(w, {
        "key": f"{K}.process_method_callbacks",
        "self": K,
        "params": {"obj_type": "py", "node": "py", "call_method": "py"},
        "requires": ["is_node(node)"],
        "ghost": {"hc": "has_cb(obj_type)", "hm": "has_cb(call_method)"},
        "raises": {"AssertionError": "any"},
        "ensures": [
            "n_calls() == (1 if hc else 0) + (1 if hm else 0)",
            "implies(hc, same(call_fn(0), cb_of(obj_type)) and same(call_arg(0, 0), old(self._stream)) "
            "and same(call_arg(0, 1), node))",
            "implies(hc and hm, same(call_fn(1), cb_of(call_method)) and "
            "same(call_arg(1, 0), nth(call_result(0), 0)) and same(call_arg(1, 1), nth(call_result(0), 1)))",
            "implies(not hc and hm, same(call_fn(0), cb_of(call_method)) and "
            "same(call_arg(0, 0), old(self._stream)) and same(call_arg(0, 1), node))",
            "implies(not hc and not hm, same(result, node) and same(self._stream, old(self._stream)))",
            "implies(hm, same(result, nth(call_result(n_calls() - 1), 1)) and "
            "same(self._stream, nth(call_result(n_calls() - 1), 0)))",
            "implies(hc and not hm, same(result, nth(call_result(0), 1)) and "
            "same(self._stream, nth(call_result(0), 0)))"],
        "modifies": ["*"],
        "opaque_call_assumes": ["isinstance(call_result, tuple)", "len(call_result) == 2"],
        "assumes": ["protocol of user callbacks: each returns a (stream, node) pair (assumed of every "
                    "opaque call; a callback that does not makes the unpacking raise)"],
        "properties": ["C09"],
    })

