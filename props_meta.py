"""Per-property wiring of the front end (levels, explanation texts, stated trust)."""

META = {
    "C19": {
        "level": "proof",
        "p_keys": True,
        "explanation": "Contract-based deductive verification: aggregate_node_transformer.visit_Call, "
        "_generate_count_call and function_call carry sidecar contracts; obligations (safety of every "
        "partial operation, `result == agg_lower(node)` under the visitor induction hypothesis) are "
        "generated from /repo's current source and discharged by z3; the four fold lambdas found in "
        "the code are proved to be the count/sum/max/min step functions over the integers; that a "
        "left fold of those from 0 equals len/sum/max(0::l)/min(0::l) is a Lean 4 lemma "
        "(lean/FuncAdlLemmas.lean).",
        "assumptions": ["calls to len/Count/Sum/Max/Min carry no keyword arguments (the property is "
                        "silent about them; stated domain restriction agg_kwfree)"],
    },
}
