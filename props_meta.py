"""Per-property wiring of the front end (levels, explanation texts, stated trust)."""

META = {
    "C19": {
        "level": "proof",
        "level_text": "Deductive proof, for every expression tree of every depth, that the real "
        "visit_Call returns agg_lower(node) (one-argument len/Count/Sum/Max/Min -> Aggregate fold, "
        "everything else rebuilt unchanged) and raises nothing; fold step functions proved over the "
        "integers; fold = len/sum/max0/min0 is a Lean lemma. A bounded contract check on the real "
        "code (185 expressions x 35 integer data sets) runs alongside as cross-check of the models.",
        "level_note": "Trusted: the NodeTransformer dispatch/generic_visit model, CPython's parser "
        "for the four literal lambda strings, the visitor-induction rule, z3, the engine's own VC "
        "generator; keywords on shortcut calls are outside the stated domain.",
        "technique": "contract-based deductive verification (self-generated VCs from the real source, z3) + Lean lemma for the folds; bounded contract check as labelled stand-in",
        "p_keys": True,
        "explanation": "Contract-based deductive verification: aggregate_node_transformer.visit_Call, "
        "_generate_count_call and function_call carry sidecar contracts; obligations (safety of every "
        "partial operation, `result == agg_lower(node)` under the visitor induction hypothesis) are "
        "generated from /repo's current source and discharged by z3; the four fold lambdas found in "
        "the code are proved to be the count/sum/max/min step functions over the integers; that a "
        "left fold of those from 0 equals len/sum/max(0::l)/min(0::l) is a Lean 4 lemma "
        "(lean/FuncAdlLemmas.lean).",
        "assumptions": ["calls to len/Count/Sum/Max/Min carry no keyword arguments (the property is "
                        "silent about them; stated domain restriction agg_kwfree)"],
    },
    "C17": {
        "level": "other",
        "level_text": "Deductive proof that the real transform_calls.visit_Call returns "
        "erase_method_form(node) for every tree; idempotence proved as a lemma by structural "
        "induction over all 64 node classes; the 'no method-form call remains' lemma is proved for "
        "every class except the Call case (left undecided by the solver, reported as such) and is "
        "therefore only checked bounded; semantic equality checked bounded on ~900 mixed-form "
        "queries x 4 data sets.",
        "level_note": "Trusted: NodeTransformer model, visitor induction, z3, own VC generator. "
        "Method-form operator calls with keyword arguments are outside the stated domain.",
        "technique": "contract-based deductive verification (VCs from real source + lemmas by structural induction, z3); bounded contract check as labelled stand-in",
        "p_keys": True,
        "explanation": "Contract-based deductive verification: transform_calls.visit_Call (nested in "
        "change_extension_functions_to_calls) is verified against the recursive spec function "
        "erase_method_form under the NodeTransformer library model and the visitor induction "
        "hypothesis; `contains no remaining method-form operator call` and idempotence are lemmas "
        "over the spec function proved by structural induction (one obligation per ast node class); "
        "semantic equality is immediate from the definition of method form in the reference "
        "semantics and is additionally checked bounded.",
        "assumptions": ["method-form operator calls carry no keyword arguments (stated domain "
                        "restriction opcall_kwfree; the code drops them)"],
    },
}

META["C15"] = {
    "level": "proof",
    "level_text": "Deductive proof over every query tree: _extract_metadata.visit_Call (and the "
    "inherited FuncADLNodeTransformer.visit_Call in that class's context) returns strip_metadata(node) "
    "and extends the metadata list by collect_metadata(node) in pre-order (outer wrapper first); "
    "_cleaner.visit_Call / generic_visit return drop_empty_metadata(node); the frame obligation "
    "`modifies nothing` is discharged for remove_empty_metadata (every write goes to an object "
    "allocated in the call). 'Literals are fixed points of the cleaner' is a lemma proved by "
    "structural induction. A bounded contract check (~360 wrapper placements quick) runs alongside.",
    "level_note": "Trusted: NodeTransformer model, copy.copy model, ast.literal_eval as an "
    "uninterpreted function defined on structural literals, visitor induction, z3, own VC generator. "
    "Domain (md_wf): every MetaData wrapper has two arguments, a literal second argument, and the "
    "callee of a call is never itself a call.",
    "technique": "contract-based deductive verification (VCs from real source incl. frame/freshness obligations, lemma by structural induction, z3); bounded contract check as labelled stand-in",
    "p_keys": True,
    "explanation": "Contract-based deductive verification of func_adl/ast/meta_data.py against the "
    "recursive spec functions strip_metadata / collect_metadata / drop_empty_metadata, with frame "
    "obligations for the documented non-mutation.",
    "assumptions": ["md_wf: MetaData wrappers have exactly two arguments with a literal second "
                    "argument; callees are never calls (stated domain restriction)"],
    "p_timeout": 400,
}

NOT_APPLICABLE = {}
