"""Per-property wiring of the front end (levels, explanation texts, stated trust)."""

META = {
    "C19": {
        "level": "proof",
        "level_text": "Deductive proof, for every expression tree of every depth, that the real "
        "visit_Call returns agg_lower(node) (one-argument len/Count/Sum/Max/Min -> Aggregate fold, "
        "everything else rebuilt unchanged) and raises nothing; fold step functions proved over the "
        "integers; fold = len/sum/max0/min0 is a Lean lemma. A bounded contract check on the real "
        "code (185 expressions x 35 integer data sets) runs alongside as cross-check of the models.",
        "level_note": "Trusted: the library's NodeTransformer dispatch/generic_visit model (that "
        "the class defines no dispatcher of its own is an obligation), that ONE transformer object "
        "keeps no state between trees is observed bounded (one object over the whole batch); "
        "CPython's parser "
        "for the four literal lambda strings, the visitor-induction rule, z3, the engine's own VC "
        "generator. Calls with keyword or starred arguments count as `another argument count` (a defect that dropped them was repaired, 6dc85bd; the earlier domain restriction agg_kwfree is gone).",
        "technique": "contract-based deductive verification (self-generated VCs from the real source, z3) + Lean lemma for the folds; bounded contract check as labelled stand-in",
        "p_keys": True,
        "explanation": "Contract-based deductive verification: aggregate_node_transformer.visit_Call, "
        "_generate_count_call and function_call carry sidecar contracts; obligations (safety of every "
        "partial operation, `result == agg_lower(node)` under the visitor induction hypothesis) are "
        "generated from /repo's current source and discharged by z3; the four fold lambdas found in "
        "the code are proved to be the count/sum/max/min step functions over the integers; that a "
        "left fold of those from 0 equals len/sum/max(0::l)/min(0::l) is a Lean 4 lemma "
        "(lean/FuncAdlLemmas.lean).",
        "assumptions": [],
    },
    "C17": {
        "level": "proof",
        "level_text": "Deductive proof, for every tree of every depth: the real "
        "change_extension_functions_to_calls / transform_calls.visit_Call return "
        "erase_method_form(node) (every seq.Op(args) with Op in the name list becomes Op(seq, args), "
        "everything else rebuilt unchanged); lemmas by structural induction over all 64 node classes: "
        "the result contains no remaining method-form operator call (Call case split by the class of "
        "its func), and erase_method_form is the identity on trees without method-form calls "
        "(idempotence). 'Evaluates to the same value' holds by the definition of the reference "
        "semantics (method form IS the operator applied to the receiver) and is additionally checked "
        "bounded on ~900 mixed-form queries x 4 data sets.",
        "level_note": "Trusted: NodeTransformer model, visitor induction, z3, own VC generator. "
        "Keyword arguments of a method-form call are kept (a dropped-keyword defect was repaired, f83bdc5; the earlier domain restriction is gone). The "
        "semantic clause is not a separate mechanised theorem: the reference semantics defines both "
        "forms by the same equation.",
        "technique": "contract-based deductive verification (VCs from real source + lemmas by structural induction, z3); bounded contract check as labelled cross-check",
        "p_keys": True,
        "explanation": "Contract-based deductive verification: transform_calls.visit_Call (nested in "
        "change_extension_functions_to_calls) and the outer function are verified against the "
        "recursive spec function erase_method_form under the NodeTransformer library model and the "
        "visitor induction hypothesis; `contains no remaining method-form operator call` and "
        "idempotence are lemmas over the spec function proved by structural induction (one "
        "obligation per ast node class).",
        "assumptions": ["sem(seq.Op(args)) == sem(Op(seq, args)) by definition of the reference semantics"],
    },
}

META["C15"] = {
    "level": "proof",
    "level_text": "Deductive proof over every query tree: _extract_metadata.visit_Call (and the "
    "inherited FuncADLNodeTransformer.visit_Call in that class's context) returns strip_metadata(node) "
    "and extends the metadata list by collect_metadata(node) in pre-order (outer wrapper first); "
    "_cleaner.visit_Call / generic_visit return drop_empty_metadata(node); the frame obligation "
    "`modifies nothing` is discharged for remove_empty_metadata (every write goes to an object "
    "allocated in the call). 'Literals are fixed points of the cleaner' is a lemma proved by "
    "structural induction. A bounded contract check (~360 wrapper placements quick) runs alongside.",
    "level_note": "Trusted: NodeTransformer model, copy.copy model, ast.literal_eval as an "
    "uninterpreted function defined on structural literals, visitor induction, z3, own VC generator. "
    "Domain (md_wf): every MetaData wrapper has two arguments, a literal second argument, and the "
    "callee of a call is never itself a call.",
    "technique": "contract-based deductive verification (VCs from real source incl. frame/freshness obligations, lemma by structural induction, z3); bounded contract check as labelled stand-in",
    "p_keys": True,
    "explanation": "Contract-based deductive verification of func_adl/ast/meta_data.py against the "
    "recursive spec functions strip_metadata / collect_metadata / drop_empty_metadata, with frame "
    "obligations for the documented non-mutation.",
    "assumptions": ["md_wf: MetaData wrappers have exactly two arguments with a literal second "
                    "argument; callees are never calls (stated domain restriction)"],
    "p_timeout": 400,
}

META["C02"] = {
    "level": "other",
    "level_text": "Mixed. Deductively proved (all inputs): the term-building helpers the fusion "
    "rules are made of (function_call, lambda_build, lambda_call, lambda_body_replace, lambda_unwrap, "
    "lambda_body, lambda_test, lambda_is_identity, lambda_is_true, is_call_of, unpack_Call) meet "
    "their structural contracts. NOT proved: the semantic clause sem(visit(q)) == sem(q) and the "
    "binder discipline of simplify_chained_calls itself (the binder calculus of DESIGN §4 C02 was "
    "not discharged); that clause is checked bounded on the real simplifier: ~700 closed queries "
    "(quick) over three binder-naming schemes x 4 data sets against the reference semantics.",
    "level_note": "The property-carrying contract is bounded only. Trusted for the proved helpers: "
    "z3, own VC generator, grammar-derived node model. The reference semantics `sem` (bcc/sem.py) "
    "is the oracle of the bounded part.",
    "technique": "contracts on the real functions: helper contracts discharged deductively (z3), the semantic contract of simplify_chained_calls checked bounded against a reference semantics (labelled stand-in)",
    "p_keys": True,
    "p_timeout": 900,
    "explanation": "Contract-based verification of func_adl/ast/function_simplifier.py: helper "
    "contracts proved by engine P; the semantic contract of visit() is a bounded contract check.",
    "assumptions": ["bounded: queries of <= 3 chained operators, lambda bodies to depth 1 with nested "
                    "operators, 4 data sets"],
}
META["C14"] = {
    "level": "other",
    "level_text": "Shape contract NF(visit(q)) (no package, no projection out of one, no called "
    "lambda left) checked bounded on the real simplifier over ~260 type-correct packaging chains "
    "(tuple/list/dict, nested, three binder schemes); the helpers it is built from "
    "(lambda_is_identity, is_call_of, make_Select, convolute) and the literal projections that "
    "compile packages away (visit_Subscript_Tuple/List/Dict, visit_Attribute on a dict: exact "
    "element for a constant selector) are proved deductively, as is their shape safety through "
    "visit_Subscript / visit_Attribute. The inductive NF proof of DESIGN §4 C14 was not discharged.",
    "level_note": "The property-carrying contract is bounded only (stated bound in evidence).",
    "technique": "contracts on the real functions: helper contracts discharged deductively (z3); NF shape contract of simplify_chained_calls checked bounded (labelled stand-in)",
    "p_keys": True,
    "p_timeout": 900,
    "explanation": "Helper contracts proved; NF shape contract bounded.",
    "assumptions": ["chains are in function form (the simplifier only fuses function-form calls)"],
}
META["C18"] = {
    "level": "other",
    "level_text": "Partial-correctness induction over the real simplifier, discharged for all "
    "inputs: with the class-level hypothesis `visit(n) on a well-formed node of query shape returns "
    "a well-formed node of query shape and of the same kind, or raises FuncADLIndexError`, every "
    "method of simplify_chained_calls that is within the engine's reach is proved to re-establish "
    "it and to raise nothing else — visit_Call (incl. the inherited call_<Op> dispatch and the "
    "inlining of called lambdas), call_Select / call_SelectMany / call_Where, the seven fusion "
    "rules visit_X_of_Y, select_method_call_on_first, visit_Subscript / visit_Attribute and their "
    "Of_First forms, visit_Name, the literal projections visit_Subscript_Tuple / List / Dict / "
    "Dict_with_value (exact result, FuncADLIndexError iff a constant index >= len, every other "
    "selector left as the subscript itself), make_Select, convolute: every index, attribute access "
    "and assert in them is safe on every tree of every depth. 'Query shape' (spec qs) = "
    "Select/SelectMany/Where have two arguments, the second a Lambda with a parameter; First has "
    "an argument; dict displays have as many keys as values. Bounded (engine B): the same "
    "totality / unparse+compile contract on ~1300 queries incl. every literal x selector "
    "combination, 5 s per input as the bounded termination observation.",
    "level_note": "NOT proved: termination (non-structural recursion; partial correctness only). "
    "ASSUMED, listed in the evidence: visit_Lambda (the path enumeration of its body does not finish "
    "within a check's budget), that self.visit leaves the argument stack as it found it, that "
    "generic_visit of a node of query shape keeps the shape, and that the tree make_args_unique "
    "returns shares no node with its argument. make_args_unique, its inner visitor replace_args "
    "(visit_Name, visit_Lambda: the renaming stack is restored, a Lambda keeps its number of "
    "parameters, results stay well-formed and of query shape), arg_name, _avoid_arg_names_in, "
    "lambda_parameter_names and lambda_call_follow_renames are now PROVED, no longer assumed. "
    "argument_stack (call_stack.py: __init__, push/pop, define_name, lookup_name; list of "
    "dictionaries in term view, class invariant, ten list lemmas) and stack_frame (the real "
    "__enter__/__exit__ run at every `with`) are now PROVED, no longer assumed. The NodeTransformer "
    "dispatch model is trusted only for classes that define no visit / generic_visit of their own "
    "(an obligation per method: a dispatcher defined in the class needs its own contract); z3 and "
    "the VC generator are trusted.",
    "technique": "contract-based deductive verification by visitor induction: sidecar contracts on 30 functions of function_simplifier.py, safety obligation for every partial operation, discharged with z3; totality incl. termination observed by a bounded contract check",
    "p_keys": True,
    "p_timeout": 900,
    "explanation": "Shape-safety induction over the simplifier proved except for visit_Lambda (assumed); termination bounded.",
    "assumptions": ["termination observed within 5 s per input only",
                    "simplify_chained_calls.visit_Lambda: contract assumed (trusted); make_args_unique's returned tree shares no node with its argument (fresh_trusted)",
                    "generic_visit preserves query shape (assumed)"],
}

META["C20"] = {
    "level": "proof",
    "level_text": "Deductive proof (straight-line VC) that calc_ast_hash(a) == md5_hex(utf8(dump(a))) "
    "for every node: the result is one fixed function of ast.dump(a), the function reads nothing "
    "else (frame: modifies nothing, no ghost attribute, clock, pid or hash seed), and no partial "
    "operation can raise. With the trusted model of ast.dump this gives 'equal structure => equal "
    "hash' independent of positions, formatting, process and non-field annotations. The converse "
    "(different structure => different hash) rests on dump/utf-8 injectivity (trusted) and on MD5 "
    "collision-freeness, which is an ASSUMPTION no verifier can discharge; it is observed bounded on "
    "~1400 single-edit pairs.",
    "level_note": "Trusted: models of ast.dump (injective on field structure, ignores positions and "
    "non-field attributes), str.encode('utf-8') (total, injective), hashlib.md5 (a function of its "
    "input). MD5 collision-freeness is assumed, not proved.",
    "technique": "contract-based deductive verification (VC from the real source, z3) over trusted library models; bounded contract check for the model assumptions",
    "p_keys": True,
    "explanation": "calc_ast_hash verified against the contract result == md5_hex(utf8(ast.dump(a))), "
    "modifies nothing, raises nothing.",
    "assumptions": ["MD5 collision-freeness on the compared queries (assumption)",
                    "ast.dump model: injective on field structure, independent of positions / non-field attributes"],
}

META["C11"] = {
    "level": "other",
    "level_text": "Mixed. Deductively proved frame obligations (modifies nothing that existed before "
    "the call; every store goes to an object allocated in the call) for clone_with_new_ast, MetaData, "
    "AsPandasDF/AsAwkwardArray/AsROOTTTree/AsParquetFiles, _get_executor, value_async and "
    "remove_empty_metadata (cleaner), and now also for Select / SelectMany / Where (exact shape of "
    "the new query over the ASSUMED contracts of parse_as_ast and remap_from_lambda, `self` not "
    "written), QMetaData (the store of `_q_metadata` goes to the fresh copy: identity clauses on "
    "clone_with_new_ast carry the freshness), ObjectStream.__init__ and EventDataset.__init__ (the "
    "root node is new down to its argument list; mutable defaults are never fresh) — from 'every "
    "operation writes only fresh objects' the history quantifier follows for these functions. What "
    "the two assumed neighbours do to shared objects (the recorded finding: a Lambda object given "
    "twice) and the history contract as a whole (dump and item_type of every live stream unchanged "
    "after every step) are checked bounded on ~200 seeded and directed histories incl. shared "
    "ast.Lambda arguments, datasets that write into their root node and wrapped executors.",
    "level_note": "One recorded known finding (shared ast.Lambda object across a typed and an untyped "
    "stream). Trusted: copy.copy / NodeTransformer models, freshness analysis of the engine.",
    "technique": "contract-based deductive verification of frame (modifies) obligations from the real source; bounded history contract check as labelled stand-in for the operators outside the engine",
    "p_keys": True,
    "explanation": "Frame obligations proved for the builders, the three operators, QMetaData, the "
    "constructors and the executors; source recovery and the type follower are assumed contracts "
    "(bounded under C03-C10).",
    "assumptions": ["histories bounded: <= 14 steps, <= 2 data sets",
                    "parse_as_ast / remap_from_lambda: assumed contracts (result shape, write to no stream)"],
}
META["C12"] = {
    "level": "other",
    "level_text": "Mixed. Deductively proved: value_async makes exactly one opaque call — the "
    "override if given, else the executor of the first node on the args[0] chain (loop invariant of "
    "_get_executor) — with drop_empty_metadata(query) and the title, returns its result, writes "
    "nothing; clone_with_new_ast / MetaData / As* make no opaque call at all (ghost call log empty). "
    "Select / SelectMany / Where keep the query they are called on on the args[0] chain of the new "
    "query (under the MetaData wrappers callbacks attach: spec md_over, assumed of the type "
    "follower), EventDataset.__init__ builds the root node. Bounded: no executor call while "
    "building for the operators and QMetaData (the assumed neighbours are opaque here), make_sync, "
    "executors that are plain wrappers of coroutine functions, and all completion orders of 3 "
    "concurrently awaited value_async calls.",
    "level_note": "Trusted: `await f(x)` runs f once; make_sync; asyncio cooperative scheduling. "
    "OS-thread schedules are outside the technique (stated in DESIGN §5).",
    "technique": "contract-based deductive verification with a ghost call log (z3) for value_async/_get_executor and the literal builders; bounded history contract check for the rest",
    "p_keys": True,
    "explanation": "value_async and _get_executor proved against the C12 contract with a ghost call log.",
    "assumptions": ["thread-level schedules not modelled"],
}
META["C13"] = {
    "level": "other",
    "level_text": "Deductively proved: as_ast(v) == parse(repr(v)) and as_literal(v) == Constant(v) "
    "for every embeddable value, and each entry point (MetaData, AsPandasDF, AsAwkwardArray, "
    "AsROOTTTree, AsParquetFiles) puts exactly that literal at the right argument position (a single "
    "column name becomes a one-element list). 'Evaluates back to an equal value' then rests on the "
    "TRUSTED CPython round trip literal_eval(parse(repr(v))) == v, which engine B cross-checks on "
    "~10 000 values (all strings of length <= 2 over quote/backslash/newline/NUL/bracket/unicode "
    "characters, numbers, bytes, nestings). check_ast is proved too (ValueError iff some Constant holds a non-transportable value); declared defaults: see C07.",
    "level_note": "Level is `other`, not `proof`, because the round-trip fact is an assumed library "
    "model; the routing of captured values to as_ast is only checked bounded.",
    "technique": "contract-based deductive verification (VCs from real source over a string/parse model, z3) + bounded contract check of the CPython round-trip assumption and of check_ast",
    "p_keys": True,
    "explanation": "as_ast / as_literal / literal builders proved against parse(repr(v)); CPython "
    "round trip assumed and cross-checked bounded.",
    "assumptions": ["CPython: literal_eval(parse(repr(v))) == v with equal type for the C13 value types"],
}
META["C16"] = {
    "level": "other",
    "level_text": "The lookup side is under contract and discharged for every tree: "
    "lookup_query_metadata / _finder.generic_visit return last(qmd_hits(query, key)) — the value at "
    "the defining node met last by a search that does not look below a node defining the key, None "
    "if there is none (visitor with state `_found`; `_q_metadata` is a ghost attribute of the node: "
    "not a field, hence invisible to ast.dump and to the hash by the node model). QMetaData is under "
    "contract for what the term view can say: the query of the result is structurally the query it "
    "was called on (so dump, hash and what executors get are unchanged), item type kept, the store "
    "goes to a fresh copy of the top node, the original stream is not written. WHICH dictionary is "
    "stored (merge with the one already there) depends on node identity under copy.copy, which the "
    "term view cannot express: it is checked bounded — on "
    "~200 (quick) / ~2000 (thorough) seeded and directed histories of QMetaData / operator / branch "
    "steps (3 keys, repeated and consecutive calls, dataset roots and derived streams, two roots) "
    "lookup of every key on every live stream equals the abstract view 'most recent value on the "
    "derivation path', and the query handed to executors equals that of the same chain without "
    "QMetaData.",
    "level_note": "Proved: the finder. Bounded: QMetaData itself and the path semantics of whole "
    "histories. Assumed: wherever `_q_metadata` exists it is None or a dict (input invariant "
    "qmd_ok, established by QMetaData being the only writer).",
    "technique": "sidecar contract on lookup_query_metadata and its visitor (ghost attribute, state effect, z3); bounded history contract check for QMetaData (labelled stand-in: node identity under copy.copy is outside the term view)",
    "p_keys": True,
    "explanation": "finder proved; QMetaData proved to keep the query structurally, to write only the fresh copy and to leave the stream it is called on alone; contents of the stored dictionary bounded",
    "assumptions": ["`_q_metadata` attributes hold None or a dict (qmd_ok)",
                    "histories of the bounded part: <= 14 steps"],
}

META["C07"] = {
    "level": "other",
    "level_text": "The signature walk is under contract and discharged for all inputs: "
    "_find_keyword (result == (kw_value, kw_without) of the keyword list, by a loop invariant over "
    "the ghost prefix/suffix) and _fill_in_default_arguments (for every parameter list of "
    "inspect.signature(func) and every ast.Call: result.args == call.args ++ bind_tail(P, n0, kws), "
    "result.keywords == kws_left(P, n0, kws), ValueError iff not callable or a parameter without "
    "default is left unbound; loop invariant with nine clauses, list lemmas proved by structural "
    "induction). bind_tail / kws_left / fill_missing are the spec functions in spec/fill.py, "
    "executed natively by engine B against inspect.Signature.bind as an independent oracle. The "
    "routing of call sites to the filler (process_method_call, process_function_call, "
    "fixup_ast_from_modifications, nested lambdas) is covered only by the bounded contract check: "
    "every signature with 0..3 parameters x every trailing-default subset x every call shape "
    "Python accepts (and shapes missing a required parameter), lambda depth 0..2, one method name "
    "shared by three classes, re-used lambda parameter names, methods and func_adl_callable "
    "functions; stream operators keep their arguments.",
    "level_note": "Proved: the two functions of the signature walk against their contracts. "
    "Assumed: inspect.signature / typing.get_type_hints modelled as an uninterpreted parameter list "
    "of Param(name, default) records; copy.copy of a Call returns an equal fresh node. Bounded "
    "(never counted as proved): the call-site routing in type_transformer.",
    "technique": "sidecar contracts on _find_keyword and _fill_in_default_arguments (loop invariants over ghost prefix/suffix, spec functions bind_tail/kws_left/fill_missing) discharged by the pyvc VC generator with z3; list lemmas by structural induction; call-site routing by a bounded contract check against inspect.Signature.bind",
    "p_keys": True,
    "explanation": "signature walk proved; routing bounded",
    "assumptions": ["inspect.signature(func).parameters modelled as an arbitrary list of Param(name, default) records (trusted model)",
                    "typing.get_type_hints(func) modelled as an arbitrary mapping (return type not specified by C07)",
                    "copy.copy(call) modelled as a fresh node with equal fields",
                    "call-site routing (type_transformer.process_method_call / process_function_call / fixup_ast_from_modifications): bounded to signatures with <= 3 parameters, nesting depth <= 2"],
}

META["C08"] = {
    "level": "exploration",
    "level_text": "Bounded contract check on the real type follower: class models generated per run "
    "(inheritance, Generic with 1 and 2 parameters, generic / non-generic Iterable subclasses, an "
    "Iterable whose element type is not its own parameter, a registered collection class, methods "
    "with and without return annotations) x ~100 well-typed expressions whose type is known by "
    "construction (method chains, First/Count/len/subscript, nested Select/SelectMany/Where with "
    "re-used parameter names, arithmetic promotion, comparison, and/or/not, conditionals, dict and "
    "tuple fields) plus 16 stream-level chains and the non-boolean Where refusal. The reflection "
    "code in util_types depends on typing internals that the engine does not model (DESIGN §5).",
    "level_note": "Bounded stand-in for the typing claim itself. Discharged deductively: the expression cases of type_transformer raise nothing but ValueError (safety obligations; see C10) — the type values they record come from typing reflection modelled as uninterpreted functions. CPython's typing module is the "
    "unmodelled external.",
    "technique": "bounded contract check of the type-following contract on generated class models (labelled stand-in; typing reflection is outside the deductive engine); safety of the expression cases of type_transformer discharged with z3",
    "p_keys": True,
    "explanation": "bounded only",
    "assumptions": ["class models and expressions bounded as stated"],
}

META["C09"] = {
    "level": "other",
    "level_text": "Bounded contract check on the real code: every subset of callback placements "
    "(class, method, function processor; parameterized property) x 15 operator lambdas with call "
    "sites at depth 0..2; the expected invocation sequence is computed by an independent walk of "
    "the lambda over the class model; checked: invocation log == matching sites with class before "
    "method, nothing else fires, each callback's MetaData is on the args[0] chain below the new "
    "operator in order and none stays in the lambda, returned rewrites are emitted, [param] "
    "subscripts are removed and parameters arrive by value.",
    "level_note": "Proved with a ghost call log (for every class / method pair and every call node): "
    "process_method_callbacks calls the class callback then the method callback, each once and only "
    "if registered, the second with the stream and the node returned by the first, returns the last "
    "node and leaves the last stream in the transformer. Assumed: a callback returns a (stream, node) "
    "pair. Bounded: which call sites match (typing / inspect reflection) and where the MetaData ends "
    "up in the query.",
    "technique": "bounded contract check of the callback-trace / metadata-placement contracts on generated class models (labelled stand-in); the callback sequencing of process_method_callbacks under contract with a ghost call log, discharged with z3",
    "p_keys": True,
    "explanation": "callback sequencing proved; call-site matching bounded",
    "assumptions": ["placements x lambdas bounded as stated"],
}

META["C10"] = {
    "level": "other",
    "level_text": "Bounded contract check on the real operators of an untyped stream: ~650 "
    "expressions (depth <= 2 enumerated over a name pool that includes ast-meaningful names, depth 3 "
    "sampled; dict literals with non-identifier keys; every designed refusal) x Select/SelectMany/"
    "Where x lambda supplied as source string and as AST, and every third one as a capture-free "
    "Python callable compiled from a generated source module: the emitted lambda must be "
    "structurally the given one, the only exceptions the designed ValueErrors. Thorough: ~10x more.",
    "level_note": "Proved (safety: no KeyError / IndexError / TypeError / AttributeError, only ValueError refusals, result of the same node class): the expression cases of type_transformer — lookup_type, visit_UnaryOp, visit_BinOp, visit_BoolOp, visit_Compare, visit_IfExp, visit_Subscript (tuple index checked on both ends), visit_Name, visit_Constant, visit_Lambda — under the visitor hypothesis; and check_ast. Discharged deductively (visitor induction over every node class): check_ast raises ValueError iff some Constant in the tree holds a value outside the transportable types, and returns normally otherwise (the designed refusal 'non-transportable constant'). The totality-by-safety-obligations proof of DESIGN §4 C10 over "
    "type_transformer is not in this build.",
    "technique": "bounded contract check (exhaustive to depth 2, sampled beyond) of the pass-through / explicit-refusal contract on the real operators (labelled stand-in for the pass-through clause); safety obligations of ten type_transformer expression cases and check_ast discharged with z3",
    "p_keys": True,
    "explanation": "bounded only",
    "assumptions": ["expression depth bounded; names from a fixed pool"],
    "b_timeout": 400,
}

META["C04"] = {
    "level": "other",
    "level_text": "Mixed. The SCOPING clause (names bound by the lambda's own parameters, by nested "
    "lambdas and by comprehensions are never replaced) is under contract on _rewrite_captured_vars "
    "and discharged for every tree: is_arg(name) holds exactly when the name is in some frame of "
    "the ignore stack; visit_Lambda pushes the names of EVERY parameter kind (positional-only, "
    "plain, keyword-only, *args, **kw) and the four comprehension forms push every Name of every "
    "`for` target before the sub-tree is visited (precondition `binders_on` of generic_visit, "
    "proved at each call), and each leaves the stack as it found it (visitor hypothesis, "
    "re-established by every method); visit_Name returns the very node whenever the name is on the "
    "stack; a dispatch obligation per node class shows that no binder "
    "class reaches generic_visit without its own visit method (class-level aliases are read from "
    "the current source). The designed refusal is proved too: check_ast raises ValueError iff some "
    "Constant holds a non-transportable value. BOUNDED: what is put in place of a free name "
    "(visit_Name / visit_Attribute / visit_Call: reflection on captured Python values, "
    "inspect.getclosurevars) and the by-value clause as a whole - ~260 lambdas compiled from a "
    "generated module whose free names resolve to module globals of every transportable type, "
    "closure cells, class and module attributes, in binder contexts that shadow them (every "
    "parameter kind, enclosing-function variables named like globals, equal-but-different values "
    "captured one after the other); after all streams are built every captured name is rebound / "
    "deleted / mutated and the emitted lambda is evaluated, type-exactly, against what the callable "
    "returned at the call.",
    "level_note": "Proved: the binder discipline of the capture visitor and check_ast. Bounded: "
    "the value that replaces a captured name. visit_Name is proved to return the node itself "
    "whenever is_arg holds (its reflective neighbours _parse_source_for_lambda / _resolve_helper "
    "are assumed contracts). Trusted: NodeTransformer dispatch model, ast.walk "
    "yields well-formed nodes, nested generators flatten; enum members are not covered.",
    "technique": "sidecar contracts on _rewrite_captured_vars (is_arg, visit_Name, visit_Lambda, visit_Call, the comprehension visitors, class dispatch) and check_ast discharged with z3 (visitor hypothesis, list lemmas); by-value clause by bounded contract check on generated source modules, oracle = the callable itself at call time (labelled stand-in)",
    "p_keys": True,
    "p_timeout": 600,
    "explanation": "scoping discipline and the refusal proved; replacement values bounded",
    "assumptions": ["one post-call history (everything rebound/deleted/mutated)",
                    "_parse_source_for_lambda, _resolve_helper: assumed contracts (result shape, ignore stack untouched)"],
}

META["C05"] = {
    "level": "exploration",
    "level_text": "Bounded contract check on the real code: 50 lambdas (compiled from a generated "
    "module) calling 23 captured single-return helpers / lambdas — bodies that are a bare "
    "parameter, arithmetic, conditionals, projections, nested lambdas re-using a parameter name, "
    "operators over a sequence argument, helpers calling helpers to depth 3, docstrings, defaults — "
    "with positional / keyword / re-ordered / defaulted call shapes and arguments that mention names "
    "bound inside the helper; the emitted lambda is evaluated with the reference semantics and "
    "compared with Python calling the helper. Discharged deductively: rewrite_func_as_lambda (the "
    "helper's def becomes Lambda(args, returned expression); ValueError iff not a single return).",
    "level_note": "Bounded stand-in (source recovery and closure inspection are unmodelled "
    "externals).",
    "technique": "bounded contract check of the helper-inlining contract on generated source modules, oracle = Python calling the helper (labelled stand-in); rewrite_func_as_lambda under contract, discharged with z3",
    "p_keys": True,
    "explanation": "bounded only",
    "assumptions": ["helper corpus bounded as listed"],
}

META["C06"] = {
    "level": "other",
    "level_text": "Both lowerings are under contract and discharged for all inputs. Comprehensions: "
    "resolve_generator (two nested loop invariants over the reversed generator list: result == "
    "sel_chain(body, reversed(generators)), i.e. X.Where(x: p)….Select(x: Y.Select(y: body)) for any "
    "number of generators and if-clauses, ValueError iff a target is not a plain name or a generator "
    "is async), visit_ListComp / visit_GeneratorExp and resolve_syntatic_sugar against the visitor "
    "spec lower_sugar at every depth. Record constructors: convert_call_to_dict returns exactly "
    "Dict(field names bound: the leading ones by position, then in declaration order those a keyword "
    "names; the values given for them) and raises ValueError iff there are more arguments than "
    "fields, a keyword names no field, or a field is bound both by position and by keyword (loop "
    "invariants, a dictionary comprehension run as a loop over a dictionary term, 25 list lemmas); "
    "visit_Call routes data classes (inspect.signature) and named tuples (_fields) to it and equals "
    "the spec's Call case. Grammar well-formedness of every lowered expression is proved, so the "
    "visitor's induction hypothesis is assumed only for generic_visit. That the lowered chain "
    "MEANS the comprehension is checked bounded: ~140 comprehension / generator lambdas evaluated "
    "with the reference semantics against CPython evaluating the comprehension itself; the record "
    "spec is cross-checked natively against inspect.Signature.bind on 5 class models x every call "
    "shape and on same-named classes.",
    "level_note": "Proved: the structural lowering of comprehensions and of record constructors. "
    "Bounded: the semantic reading of the comprehension chain; that Python's own binding agrees with "
    "the record spec. Library models (trusted): inspect.signature(cls).parameters lists the fields in "
    "declaration order with string names; `_fields` is a tuple of strings; dataclasses.is_dataclass "
    "is a predicate. Keyword-only fields and defaults of omitted fields are not part of the spec "
    "(the library deliberately tolerates partial argument lists: known finding of C01).",
    "technique": "sidecar contracts on resolve_generator / visit_ListComp / visit_GeneratorExp / visit_Call / convert_call_to_dict / resolve_syntatic_sugar (loop invariants, visitor induction, list lemmas) discharged with z3; semantic reading by bounded contract check against CPython, record binding cross-checked against inspect.Signature.bind",
    "p_keys": True,
    "p_timeout": 600,
    "explanation": "comprehension and record-constructor lowering proved structurally; semantic reading bounded",
    "assumptions": ["inspect.signature / _fields / is_dataclass library models",
                    "comprehension / class-model corpus of the bounded part as stated"],
}

META["C03"] = {
    "level": "exploration",
    "level_text": "Bounded contract check only (as planned in DESIGN §4 C03 / §5): generated source "
    "files place lambdas in ~100 (quick) / ~950 (thorough) layouts x enclosing contexts; the "
    "lambda recorded for every call must be structurally the one the generator wrote at that call, "
    "or the library must raise; documented layouts must be recovered without error. The tokenizer / "
    "inspect.findsource heuristic is outside any verifier available here. The one piece within reach "
    "is discharged: rewrite_func_as_lambda (one-line def -> lambda: Lambda(f.args, the single "
    "return value), ValueError iff the body is not a single return).",
    "level_note": "Bounded stand-in; CPython's tokenize / inspect are unmodelled externals.",
    "technique": "bounded contract check of the parse_as_ast contract on generated source layouts (labelled stand-in); rewrite_func_as_lambda under contract, discharged with z3",
    "p_keys": True,
    "explanation": "bounded only",
    "assumptions": ["layout grammar bounded as listed in the rule"],
}

META["C01"] = {
    "level": "other",
    "level_text": "Decided as the composition of the stage contracts plus one bounded integration "
    "contract. Proved stages on this run are listed in the evidence of C17 (method form), C19 "
    "(aggregates), C15 (empty-metadata removal), C12 (value_async sends exactly the cleaned query) and "
    "C13 (literal builders); the operator builders' shape `Op(parent AST, lambda)` is proved for "
    "MetaData / As* (clone_with_new_ast). Bounded integration contract on value(): ~290 (quick) "
    "operator chains built from Python callables (generated source), source strings and ASTs on typed "
    "and untyped roots with optional terminal, evaluated with the reference semantics after each of "
    "the passes id, M, A∘M, S∘M, S∘A∘M on 4 data sets and compared with the same chain run by Python "
    "on in-memory sequences.",
    "level_note": "Only as strong as its weakest stage: source recovery (C03), capture (C04/C05), "
    "sugar (C06), type following (C07-C10) and the simplifier's semantic clause (C02) are bounded "
    "only. One recorded known finding (defaulted dataclass fields).",
    "technique": "composition of stage contracts (several discharged deductively, see C12/C13/C15/C17/C19) plus a bounded integration contract on value() against Python running the chain (labelled stand-in)",
    "p_keys": True,
    "explanation": "Stage contracts + bounded integration contract.",
    "assumptions": ["chains bounded to length 3 (quick) / 4 (thorough); 4 data sets"],
}

NOT_APPLICABLE = {}
